"""Deductive part of C12 (and of the block arithmetic of C11): pyvc on the AST of the real offset generators.

SystemGro._molecules_ordered_all_gen -- the generator behind iteration, indexing and slicing of a coordinate file:
for ANY run-length list (symbolic number of runs, symbolic amounts and residue sizes) the yielded
(kind, start_atom, length) triples TILE the atom records: the first starts at atom 0 and each next one starts where
the previous ends.  Invariant stated on the yielded list itself (no sums or products needed).
GroFile.seek_atom -- positions the shared cursor at  first_atom_offset + index * line_size  and records the index;
index > natoms raises IndexError.
System._molecules_ordered_all_gen -- within a block consecutive molecules abut and each spans the species' number of residues.
"""
from __future__ import annotations

import z3

from vf import symrun as S, core, pyvc, seq
from vf.core import ob, discharge
from vf.pyvc import LoopSpec, St, Stub

NR = z3.Int("n_runs")
Kind = z3.Function("run_kind", z3.IntSort(), z3.IntSort())
Amount = z3.Function("run_amount", z3.IntSort(), z3.IntSort())
Len = z3.Function("kind_length", z3.IntSort(), z3.IntSort())


def deductive_info():
    return {
        "functions": ["gaddlemaps/components/_system.py::SystemGro._molecules_ordered_all_gen (tiling, any run-length list)",
                      "gaddlemaps/parsers/__init__.py::GroFile.seek_atom (offset arithmetic)",
                      "gaddlemaps/components/_system.py::System._molecules_ordered_all_gen (blocks, any block list)"],
        "stubs": ["pyvc models: the run-length list as a symbolic sequence of (kind, amount) pairs, template residues with a symbolic length, "
                  "`yield` as a ghost list, range(n) with symbolic n, the file object's seek as a recorder"],
        "assumptions": ["every atom line of the file has the same byte size (checked by the reader at load time; bounded part)"],
        "explanation": ("Deductive: the offset generators and the seek arithmetic are verified on their AST for run-length lists of any length "
                        "(loop invariants over the yielded list). That the run-length list describes the file is proved in d12_parse_vc (`_parse_gro` splits exactly at changes of residue number / name; `_add_residue_init` keeps the run-length invariant); that the records' fields are read correctly is checked by the bounded part. "),
    }


class NS:
    def pyvc_copy(self):
        return self


class Templ:
    def __init__(self, i):
        self.i = i

    def pyvc_len(self):
        return S.SymReal(Len(seq.SymDict._key(self.i) if not isinstance(self.i, z3.ExprRef) else self.i))

    def pyvc_copy(self):
        return self


def _yielded():
    return seq.SymList("__yielded__", [z3.IntSort(), z3.IntSort(), z3.IntSort()], lambda c: tuple(c),
                       lambda x: [seq.SymDict._key(v) if not isinstance(v, z3.ExprRef) else v for v in x])


def _tiles(y: seq.SymList, start_atom):
    r = z3.Int("r!t")
    st_, ln = y.arrays[1], y.arrays[2]
    return z3.And(y.length >= 0,
                  z3.Implies(y.length == 0, start_atom == 0),
                  z3.Implies(y.length > 0, z3.And(z3.Select(st_, 0) == 0,
                                                  z3.Select(st_, y.length - 1) + z3.Select(ln, y.length - 1) == start_atom)),
                  z3.ForAll([r], z3.Implies(z3.And(r >= 0, r + 1 < y.length), z3.Select(st_, r + 1) == z3.Select(st_, r) + z3.Select(ln, r))))


def task_systemgro_gen(prop, seed):
    tag = f"{prop}/SystemGro._molecules_ordered_all_gen"
    selfm = NS()
    selfm.different_molecules = seq.SymSeq("different_molecules", z3.Int("n_kinds"), lambda i: Templ(i))

    def pk_gen(interp, st, args, kw, node):
        return seq.SymSeq("runs", NR, lambda k: (S.SymReal(Kind(k)), S.SymReal(Amount(k))))
    selfm._pk_ammount_ordered_gen = Stub("_pk_ammount_ordered_gen", pk_gen)

    def inv_outer(st, k):
        y = pyvc.local(st, "__yielded__", seq.SymList)
        if pyvc.local(st, "start_atom") is pyvc.UNBOUND:
            return z3.BoolVal(False)
        return z3.And(k >= 0, k <= NR, _tiles(y, seq.SymDict._key(st.env["start_atom"])))

    def inv_inner(st, j):
        y = pyvc.local(st, "__yielded__", seq.SymList)
        if pyvc.local(st, "start_atom") is pyvc.UNBOUND:
            return z3.BoolVal(False)
        return z3.And(j >= 0, _tiles(y, seq.SymDict._key(st.env["start_atom"])))

    loops = {0: LoopSpec(inv_outer, name="runs-loop"), 1: LoopSpec(inv_inner, name="instances-loop")}
    i = z3.Int("i!k")
    pre = [NR >= 0, z3.ForAll([i], z3.And(Kind(i) >= 0, Kind(i) < z3.Int("n_kinds")))]
    try:
        it = pyvc.Interp("gaddlemaps/components/_system.py", "SystemGro._molecules_ordered_all_gen", {}, loops, tag,
                         builtins_model={"range": seq.sym_range})
        st0 = {"self": selfm, "__yielded__": _yielded()}
        ends = it.run(st0, pre=pre)
    except (pyvc.PyvcUnsupported, S.SymError) as e:
        return [ob(f"{tag}/vc-generation", "undecided", engine="pyvc", reason=f"outside the pyvc subset: {type(e).__name__}: {e}")]
    out = [ob(f"{tag}/vc-generation", "discharged" if it.obls and ends else "undecided", engine="pyvc", backend="ast",
              sample={"obligations": len(it.obls), "exit_paths": len(ends)})]
    cex = {"kind": "vc", "fn": "d12:vc", "signature": "offset-generator"}
    for o in it.obls:
        v = discharge(o.name, o.hyps, o.goal, backends=("z3",), engine="pyvc", timeout_ms=30000, seed=seed,
                      sample={"goal": core.short(o.goal, 160), "n_hyps": len(o.hyps)})
        if v["status"] == "refuted":
            v["cex"] = dict(cex, obligation=o.name)
        out.append(v)
    for ei, e in enumerate(ends):
        y = e.env.get("__yielded__")
        if e.sig != pyvc.RETURN or not isinstance(y, seq.SymList):
            continue
        v = discharge(f"{tag}/exit{ei}/ensures.yielded_residues_tile_the_atom_records_from_0", e.pc,
                      _tiles(y, seq.SymDict._key(e.env["start_atom"])), backends=("z3",), engine="pyvc", timeout_ms=30000)
        if v["status"] == "refuted":
            v["cex"] = dict(cex, signature="tiling")
        out.append(v)
        out.append(core.must_fail(f"{tag}/exit{ei}/guard.must-fail", e.pc, y.length == 0, engine="pyvc", timeout_ms=10000,
                                  hint=[NR == 1, Amount(0) == 1]))
    return out


def task_seek_atom(prop, seed):
    tag = f"{prop}/GroFile.seek_atom"
    INIT, SIZE, NAT, IDX = z3.Int("init_position"), z3.Int("atomline_bytesize"), z3.Int("natoms"), z3.Int("index")
    seeks = []

    class SelfM(NS):
        pass
    selfm = SelfM()
    selfm._init_position = S.SymReal(INIT)
    selfm._atomline_bytesize = S.SymReal(SIZE)
    selfm.natoms = S.SymReal(NAT)
    selfm._current_atom = S.SymReal(z3.Int("old_cursor"))
    selfm.attrs = {}

    def setattr_(attr, value, interp, st):
        st.ghost[f"attr:{attr}"] = value
    selfm.pyvc_setattr = setattr_
    filem = NS()

    def seek(interp, st, args, kw, node):
        st.log.append(("seek", seq.SymDict._key(args[0]) if args else None))
        return None
    filem.seek = Stub("seek", seek)
    selfm._file = filem
    try:
        it = pyvc.Interp("gaddlemaps/parsers/__init__.py", "GroFile.seek_atom", {"IndexError": IndexError, "ValueError": ValueError}, {}, tag)
        ends = it.run({"self": selfm, "index": S.SymReal(IDX)}, pre=[NAT >= 0, IDX >= 0])
    except (pyvc.PyvcUnsupported, S.SymError) as e:
        return [ob(f"{tag}/vc-generation", "undecided", engine="pyvc", reason=f"outside the pyvc subset: {type(e).__name__}: {e}")]
    out = []
    cex = {"kind": "vc", "fn": "d12:vc", "signature": "seek"}
    n_norm = 0
    for ei, e in enumerate(ends):
        if e.sig == pyvc.RAISE:
            v = discharge(f"{tag}/exit{ei}/raises.only_beyond_the_last_atom", e.pc, IDX > NAT, backends=("z3",), engine="pyvc")
            if v["status"] == "refuted":
                v["cex"] = cex
            out.append(v)
            continue
        n_norm += 1
        sk = [ev for ev in e.log if ev[0] == "seek"]
        goal = z3.BoolVal(False) if len(sk) != 1 or sk[0][1] is None else sk[0][1] == INIT + IDX * SIZE
        v = discharge(f"{tag}/exit{ei}/ensures.cursor_at_first_atom_offset_plus_index_times_line_size", e.pc, goal, backends=("z3",), engine="pyvc")
        if v["status"] == "refuted":
            v["cex"] = cex
        out.append(v)
        cur = e.ghost.get("attr:_current_atom")
        if cur is not None:          # internal bookkeeping attribute: checked only while it exists under this name
            v = discharge(f"{tag}/exit{ei}/ensures.record_counter_is_the_index", e.pc, seq.SymDict._key(cur) == IDX, backends=("z3",), engine="pyvc")
            if v["status"] == "refuted":
                v["cex"] = cex
            out.append(v)
        v = discharge(f"{tag}/exit{ei}/ensures.returns_only_for_index_within_the_file", e.pc, IDX <= NAT, backends=("z3",), engine="pyvc")
        if v["status"] == "refuted":
            v["cex"] = cex
        out.append(v)
    if not n_norm:
        out.append(ob(f"{tag}/normal-exit-exists", "undecided", engine="pyvc", reason="no normal exit"))
    return out


def deductive_tasks(prop, tier, seed):
    return [("SystemGro._molecules_ordered_all_gen/pyvc", task_systemgro_gen, (prop, seed), 600.0),
            ("GroFile.seek_atom/pyvc", task_seek_atom, (prop, seed), 300.0)]


# ---------------------------------------------------------------------------
# System._molecules_ordered_all_gen (C11): blocks (species, first residue, amount) -> one (species, start, end) per molecule

NBk = z3.Int("n_blocks")
BSpec = z3.Function("block_species", z3.IntSort(), z3.IntSort())
BStart = z3.Function("block_first_residue", z3.IntSort(), z3.IntSort())
BAmount = z3.Function("block_amount", z3.IntSort(), z3.IntSort())
NRes = z3.Function("species_residue_count", z3.IntSort(), z3.IntSort())


NAt = z3.Function("species_atom_count", z3.IntSort(), z3.IntSort())


class MolTempl:
    def __init__(self, i):
        self.i = i

    def pyvc_len(self):
        t = self.i if isinstance(self.i, z3.ExprRef) else seq.SymDict._key(self.i)
        return S.SymReal(NAt(t))          # len(molecule) is its ATOM count, not its residue count

    @property
    def resnames(self):
        t = self.i if isinstance(self.i, z3.ExprRef) else seq.SymDict._key(self.i)
        return seq.SymSeq("resnames", NRes(t), lambda k: None)

    def pyvc_copy(self):
        return self


def task_system_gen(prop, seed):
    tag = f"{prop}/System._molecules_ordered_all_gen"
    selfm = NS()
    selfm.different_molecules = seq.SymSeq("different_molecules", z3.Int("n_species"), lambda i: MolTempl(i))
    selfm._molecules_ordered = seq.SymSeq("_molecules_ordered", NBk, lambda k: (S.SymReal(BSpec(k)), S.SymReal(BStart(k)), S.SymReal(BAmount(k))))
    CNT = z3.Function("molecules_before_block", z3.IntSort(), z3.IntSort())    # ghost: number of molecules yielded before block k

    def props(y: seq.SymList, upto):
        """every yielded molecule spans exactly its species' residue count; inside a block consecutive molecules abut and the first starts at the block start"""
        r = z3.Int("r!s")
        sp, a, b = y.arrays
        return z3.ForAll([r], z3.Implies(z3.And(r >= 0, r < y.length), z3.Select(b, r) - z3.Select(a, r) == NRes(z3.Select(sp, r))))

    def inv_outer(st, k):
        y = pyvc.local(st, "__yielded__", seq.SymList)
        return z3.And(k >= 0, k <= NBk, y.length >= 0, props(y, k))

    def inv_inner(st, j):
        y = pyvc.local(st, "__yielded__", seq.SymList)
        k = st.ghost.get("outer_k")
        if k is None:
            raise pyvc.PyvcUnsupported("outer loop index not recorded")
        e = st.env
        if pyvc.local(st, "len_mol") is pyvc.UNBOUND:
            return z3.BoolVal(False)
        L = seq.SymDict._key(e["len_mol"])
        base = st.ghost["len_at_block_start"]
        sp, a, b = y.arrays
        r = z3.Int("r!i")
        return z3.And(j >= 0, L == NRes(BSpec(k)), y.length == base + j, base >= 0, props(y, k),
                      z3.ForAll([r], z3.Implies(z3.And(r >= 0, r < j),
                                                z3.And(z3.Select(sp, base + r) == BSpec(k), z3.Select(a, base + r) == BStart(k) + r * L,
                                                       z3.Select(b, base + r) == BStart(k) + (r + 1) * L))))

    def start_outer(interp, st, k):
        st.ghost["outer_k"] = k
        st.ghost["len_at_block_start"] = st.env["__yielded__"].length

    loops = {0: LoopSpec(inv_outer, name="blocks-loop", on_iteration_start=start_outer), 1: LoopSpec(inv_inner, name="molecules-loop")}
    i = z3.Int("i!k")
    pre = [NBk >= 0, z3.ForAll([i], NRes(i) >= 1), z3.ForAll([i], z3.And(BSpec(i) >= 0, BSpec(i) < z3.Int("n_species")))]   # class invariant: blocks name loaded species
    try:
        it = pyvc.Interp("gaddlemaps/components/_system.py", "System._molecules_ordered_all_gen", {}, loops, tag, builtins_model={"range": seq.sym_range})
        ends = it.run({"self": selfm, "__yielded__": _yielded()}, ghost={"outer_k": z3.IntVal(0), "len_at_block_start": z3.IntVal(0)}, pre=pre)
    except (pyvc.PyvcUnsupported, S.SymError) as e:
        return [ob(f"{tag}/vc-generation", "undecided", engine="pyvc", reason=f"outside the pyvc subset: {type(e).__name__}: {e}")]
    out = [ob(f"{tag}/vc-generation", "discharged" if it.obls and ends else "undecided", engine="pyvc", backend="ast",
              sample={"obligations": len(it.obls), "exit_paths": len(ends)})]
    cex = {"kind": "vc", "fn": "d12:vc", "signature": "block-generator"}
    for o in it.obls:
        v = discharge(o.name, o.hyps, o.goal, backends=("z3",), engine="pyvc", timeout_ms=30000, seed=seed,
                      sample={"goal": core.short(o.goal, 160), "n_hyps": len(o.hyps)})
        if v["status"] == "refuted":
            v["cex"] = dict(cex, obligation=o.name)
        out.append(v)
    for ei, e in enumerate(ends):
        y = e.env.get("__yielded__")
        if e.sig != pyvc.RETURN or not isinstance(y, seq.SymList):
            continue
        v = discharge(f"{tag}/exit{ei}/ensures.every_molecule_spans_its_species_residue_count", e.pc, props(y, NBk), backends=("z3",), engine="pyvc",
                      timeout_ms=30000)
        if v["status"] == "refuted":
            v["cex"] = dict(cex, signature="span")
        out.append(v)
    return out


def deductive_tasks_c11(prop, tier, seed):
    return [("System._molecules_ordered_all_gen/pyvc", task_system_gen, (prop, seed), 600.0)]
