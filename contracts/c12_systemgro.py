"""C12 -- the coordinate-file view (SystemGro) tiles the file into residues with
stable random access.

Bounded run-time contract checks (engine smallscope) on the real
gaddlemaps.components.SystemGro and on the GroFile cursor it shares.

* The .gro files are written by the formatter of this module (fixed-width gro
  columns), never by GroFile, so the oracle -- the list of atom records the file
  was generated from, grouped where (residue number, residue name) changes -- is
  independent of the code under check.  For the shipped box the oracle is an
  independent fixed-column parse done here.
* Random access is a single-step obligation from an arbitrary cursor state:
  the shared cursor is forced to every atom position c in [0, natoms] (and the
  state right after construction, and the state after a partial iteration
  stopped after every residue with the generator left suspended) before every
  index / negative index / slice of a fixed family; the history length is then
  covered by induction.  Random public-API histories of length 200 are run in
  addition on larger files.
"""
from __future__ import annotations

import contextlib
import io
import itertools
import os
import random
import shutil
import tempfile
import time

from vf.core import ob

PROP = "C12"

KINDS = {
    "A2": ("A", ("CA", "CB")),
    "A1": ("A", ("CA",)),
    "B2": ("B", ("N1", "N2")),
    "1A": ("1A", ("O1",)),
}
KIND_NAMES = ("A2", "A1", "B2", "1A")
SCHEMES = ("consecutive", "constant", "pairs", "digit")
SHIPPED = "system_bmimbf4_cg.gro"
TOL = 1e-9

_F = f"{PROP}/SystemGro"
I_CONCAT = f"{_F}.__iter__/ensures.concat_equals_file_records"
I_BOUND = f"{_F}.__iter__/ensures.residue_starts_exactly_where_number_or_name_changes"
I_RESUME = f"{_F}.__iter__/ensures.suspended_iteration_unaffected_by_access"
A_LEN = f"{_F}.__len__/ensures.equals_residue_count_of_file"
A_NAT = f"{_F}.n_atoms/ensures.equals_atom_count_of_file"
A_BOX = f"{_F}.box_matrix/ensures.equals_box_line_of_file"
A_TITLE = f"{_F}.comment_line/ensures.equals_title_line_of_file"
G_INT_CUR = f"{_F}.__getitem__/ensures.int_index_equals_kth_iterated.from_every_cursor"
G_SL_CUR = f"{_F}.__getitem__/ensures.slice_equals_iterated_slice.from_every_cursor"
G_INT_IT = f"{_F}.__getitem__/ensures.int_index_equals_kth_iterated.after_partial_iteration"
G_SL_IT = f"{_F}.__getitem__/ensures.slice_equals_iterated_slice.after_partial_iteration"
G_IDXERR = f"{_F}.__getitem__/ensures.out_of_range_index_returns_no_residue.from_every_state"
G_PAIR = f"{_F}.__getitem__/ensures.two_accesses_in_a_row_equal_single_accesses"
H_HIST = f"{_F}/history.public_access_sequence_len200_every_step_equals_oracle"


def _info_bounded(prop):
    return {
        "level": "other",
        "functions": [
            "gaddlemaps/components/_system.py::SystemGro.__init__",
            "gaddlemaps/components/_system.py::SystemGro._parse_gro",
            "gaddlemaps/components/_system.py::SystemGro._add_residue_init",
            "gaddlemaps/components/_system.py::SystemGro._molecules_ordered_all_gen",
            "gaddlemaps/components/_system.py::SystemGro.__iter__",
            "gaddlemaps/components/_system.py::SystemGro.__getitem__",
            "gaddlemaps/components/_system.py::SystemGro.__len__",
            "gaddlemaps/components/_system.py::SystemGro.n_atoms",
            "gaddlemaps/components/_system.py::SystemGro.box_matrix",
            "gaddlemaps/components/_system.py::SystemGro.comment_line",
            "gaddlemaps/parsers/__init__.py::GroFile.seek_atom",
            "gaddlemaps/parsers/__init__.py::GroFile.readline",
            "gaddlemaps/parsers/__init__.py::GroFile._load_and_verify",
            "gaddlemaps/parsers/__init__.py::GroFile.parse_atomline",
        ],
        "stubs": [],
        "trusted_base": ["CPython, numpy, more_itertools.islice_extended", "the .gro formatter and the fixed-column parser of "
                         "contracts/c12_systemgro.py (cross-checked against each other on every generated file)",
                         "Python list indexing/slicing as the meaning of 'k-th iterated residue' for indices and slices"],
        "assumptions": ["the only mutable read state of a loaded SystemGro is the shared GroFile cursor (file offset and "
                        "_current_atom), both set by GroFile.seek_atom; this is what makes 'every cursor position' an arbitrary state",
                        "residue/atom numbers and names fit the gro field widths; coordinates fit %8.3f / velocities %8.4f",
                        "not fixed by the statement, hence never refuting (mismatch -> undecided '.informational' obligation or ignored): "
                        "the exception type for an out-of-range index (any exception or 'no residue' is accepted), slices whose bounds lie "
                        "beyond the residue range, refusing a negative slice step, how 'no velocity' is represented, rows-vs-columns layout "
                        "of the box matrix, line terminator/outer blanks of the title, attribute names of atoms and of the view",
                        "a failure seen from a cursor forced through the private file handle refutes only if it is reproduced through "
                        "public operations alone (state after loading, or after fetching another residue); otherwise it is undecided"],
        "explanation": (
            "All obligations are bounded run-time contract checks on the real SystemGro (no deductive part). Exhaustive small scope: "
            "every residue-kind sequence of length <= 4 (quick) / <= 5 (thorough) over {A with 2 atoms, A with 1 atom, B with 2 atoms, "
            "'1A' with 1 atom} x 4 residue numberings (consecutive; constant number = same number/different names and legitimate merges; "
            "number changing every two residues; digit-leading: residue 1 named '1A' next to residue 11 named 'A') x with/without "
            "velocities, files written by this module's own formatter. On each file: iteration equals the record list and splits "
            "exactly at (number,name) changes; len/n_atoms/box/title (the same contracts also on every sequence of length <= 3 (4) "
            "with titles containing multi-byte UTF-8 characters and/or CRLF line ends, where character counts differ from byte offsets; "
            "the seeded larger files alternate these variants; and on every sequence of length <= 3 (4) with coordinates / velocities "
            "that fill their whole 8-character field -- x, y, z and each velocity component, in the first and in later records -- so "
            "that numeric fields touch; the seeded larger files carry such a value in every 7th record); every index in [-len,len), 4 out-of-range indices and 18 slices "
            "from the state after construction, from every forced cursor position in [0,natoms] and after a partial iteration stopped "
            "after every residue (the suspended generator is then resumed and must still yield the remaining residues); all ordered "
            "pairs of accesses from a sub-family. Random public-API histories of length 200 on seeded larger files; the shipped "
            "600-residue box against an independent parse with 200 seeded accesses; thorough adds 50-400 residue files (sizes 1..12) "
            "accessed at every index from seeded cursors and at seeded slices."),
        "rule": ("one evaluation = one (file, state before the access, access) triple compared with the oracle; files are distinct by "
                 "construction (kind sequence, numbering, velocities); an access evaluation counts as non-trivial when the forced cursor "
                 "differs from the offset the access has to read from (or the state is a suspended iteration)"),
        "exhaustive": True,
    }


# ---------------------------------------------------------------------------
# own formatter, own parser, oracle


def fmt_atom(rec):
    s = "{:5d}{:<5s}{:>5s}{:5d}".format(rec[0], rec[1], rec[2], rec[3])
    s += "".join("%8.3f" % v for v in rec[4])
    if rec[5] is not None:
        s += "".join("%8.4f" % v for v in rec[5])
    return s


def fmt_file(title, records, boxvals, eol="\n"):
    lines = [title, "%5d" % len(records)]
    lines += [fmt_atom(r) for r in records]
    lines.append(" ".join("%9.5f" % v for v in boxvals))
    return eol.join(lines) + eol


# titles with multi-byte UTF-8 characters and Windows line ends: character counts differ from byte offsets
MB_TITLES = ("verif C12 \u00b5m 25\u00b0C \u00e9\u00e0\u00fc", "\u6c34\u5206\u5b50 C12 \u00c5ngstr\u00f6m \u2014 t= 0.0")
ENC_VARIANTS = (("mbtitle0-lf", MB_TITLES[0], "\n"), ("ascii-crlf", None, "\r\n"), ("mbtitle1-crlf", MB_TITLES[1], "\r\n"))


def write_text(path, text):
    with open(path, "w", encoding="utf-8", newline="") as f:     # bytes exactly as generated (CRLF kept)
        f.write(text)


def utf8_default():
    """The code under check opens files with the default encoding; multi-byte titles only make sense under UTF-8."""
    import locale
    import sys
    return bool(sys.flags.utf8_mode) or locale.getpreferredencoding(False).lower().replace("-", "") == "utf8"


def wide_components(i, ncomp, wide):
    """Which of the numeric fields of atom i are given a value that fills the whole 8-character field
    (>= 1000.000 / <= -100.000 with %8.3f, >= 100.0000 / <= -10.0000 with %8.4f), so that it touches the
    field before it.  wide: None | "all" | ("rot", shift) one rotating field per atom | ("sparse", period)."""
    if wide is None:
        return ()
    if wide == "all":
        return tuple(range(ncomp))
    if wide[0] == "rot":
        return ((i + wide[1]) % ncomp,)
    if wide[0] == "sparse":
        return ((i // wide[1]) % ncomp,) if i % wide[1] == 0 else ()
    raise ValueError(wide)


def mk_record(i, resid, resname, name, vel, wide=None):
    """i: 0-based serial of the atom in the file.  Coordinates are distinct per atom
    and exact multiples of the printed resolution."""
    pos = [111 * (i + 1) / 1000, -(7 * (i + 1) + 500) / 1000, (1000 + 13 * ((i * i) % 97) + i % 5) / 1000]
    v = [(3 * (i + 1) - 2000) / 10000, (17 * ((i * 7) % 53) + 1) / 10000, -(i + 1) / 10000] if vel else None
    for c in wide_components(i, 6 if vel else 3, wide):
        neg = (i + (c if wide == "all" else 0)) % 2 == 1      # both signs, in first and later records
        if c < 3:       # %8.3f: '1000.112' / '-100.007' are 8 characters
            pos[c] = -(100000 + 7 * (i + 1) + c) / 1000 if neg else (1000000 + 111 * (i + 1) + c) / 1000
        else:           # %8.4f: '100.0003' / '-10.0001'
            v[c - 3] = -(100000 + (i + 1) * 3 + c) / 10000 if neg else (1000000 + 3 * (i + 1) + c) / 10000
    return (resid, resname, name, i + 1, pos, v)


FW_VARIANTS = (("fullwidth-rot0", ("rot", 0)), ("fullwidth-rot2", ("rot", 2)), ("fullwidth-all", "all"))


def box_matrix_of(boxvals):
    """gro convention: v1(x) v2(y) v3(z) [v1(y) v1(z) v2(x) v2(z) v3(x) v3(y)]; rows are the box vectors."""
    b = list(boxvals) + [0.0] * (9 - len(boxvals))
    return [[b[0], b[3], b[4]], [b[5], b[1], b[6]], [b[7], b[8], b[2]]]


def parse_text(text):
    """Independent fixed-column parse: (title, declared natoms, records, box values)."""
    lines = text.split("\n")
    if lines and lines[-1] == "":
        lines = lines[:-1]
    lines = [l[:-1] if l.endswith("\r") else l for l in lines]      # CRLF line ends
    title = lines[0]
    nat = int(lines[1])
    recs = []
    for l in lines[2:2 + nat]:
        nf = (len(l) - 20) // 8
        vals = [float(l[20 + 8 * j:28 + 8 * j]) for j in range(nf)]
        recs.append((int(l[0:5]), l[5:10].strip(), l[10:15].strip(), int(l[15:20]), vals[:3],
                     vals[3:6] if nf == 6 else None))
    box = [float(x) for x in lines[2 + nat].split()]
    return title, nat, recs, box


def group(records):
    """Oracle for the tiling: a new residue starts exactly where (number, name) changes."""
    out = []
    prev = None
    for r in records:
        key = (r[0], r[1])
        if prev is None or key != prev:
            out.append([])
            prev = key
        out[-1].append(r)
    return out


def numbering(scheme, seq):
    if scheme == "consecutive":
        return [i + 1 for i in range(len(seq))]
    if scheme == "constant":
        return [7] * len(seq)
    if scheme == "pairs":
        return [1 + i // 2 for i in range(len(seq))]
    if scheme == "digit":
        return [1 if k == "1A" else 11 for k in seq]
    raise ValueError(scheme)


BOXES = ([3.0, 4.0, 5.0], [3.0, 4.0, 5.0, 0.0, 0.0, 1.0, 0.0, 0.5, 1.5])


def small_file(seq, scheme, vel, variant=0, title=None, eol="\n", wide=None):
    nums = numbering(scheme, seq)
    recs = []
    for kind, num in zip(seq, nums):
        resname, atoms = KINDS[kind]
        for an in atoms:
            recs.append(mk_record(len(recs), num, resname, an, vel, wide))
    # atom-number column: from 1 (as most files), starting elsewhere, with gaps (a selection cut out of a larger system), wrapping at 99999
    how = (variant // 2) % 4
    if how:
        def anum(i):
            if how == 1:
                return 4711 + i
            if how == 2:
                return 3 + 5 * i + (i % 3)
            return (99998 + i) % 100000
        recs = [r[:3] + (anum(i),) + r[4:] for i, r in enumerate(recs)]
    title = title or "verif C12  %s %s t= 0.0" % (scheme, ",".join(seq))
    box = BOXES[variant % 2]
    return fmt_file(title, recs, box, eol), recs, title, box


def big_file(seed, idx, nres, vel):
    """Seeded larger file: sizes 1..12, repeated and alternating kinds, equal names with
    different sizes, a digit-leading name, occasional equal numbers on different names."""
    rng = random.Random(seed * 1000003 + idx * 7919 + nres)
    names = ["SOL", "BMIM", "BF4", "A", "1A", "NA"]
    kinds = []
    for nm in names:
        for _ in range(rng.choice((1, 1, 2))):
            kinds.append((nm, rng.randint(1, 12)))
    seq = []
    while len(seq) < nres:
        mode = rng.random()
        if mode < 0.45:
            seq += [rng.choice(kinds)] * rng.randint(1, 8)
        elif mode < 0.85:
            a, b = rng.choice(kinds), rng.choice(kinds)
            seq += [a, b] * rng.randint(1, 5)
        else:
            seq += [rng.choice(kinds) for _ in range(rng.randint(1, 6))]
    seq = seq[:nres]
    recs = []
    num = 0
    prevname = None
    for nm, size in seq:
        if not (prevname is not None and nm != prevname and rng.random() < 0.15):
            num += 1
        prevname = nm
        letter = "".join(c for c in nm if c.isalpha())[:1] or "X"
        for j in range(size):
            recs.append(mk_record(len(recs), num, nm, "%s%d" % (letter, j + 1), vel, ("sparse", 7)))
    title = "verif C12 generated seed=%d idx=%d nres=%d" % (seed, idx, nres)
    # idx % 4: 0 ascii/LF, 1 multi-byte title/LF, 2 ascii/CRLF, 3 multi-byte title/CRLF
    if idx % 2 == 1 and utf8_default():
        title = MB_TITLES[(idx // 2) % 2] + " " + title
    eol = "\r\n" if idx % 4 >= 2 else "\n"
    box = BOXES[idx % 2]
    return fmt_file(title, recs, box, eol), recs, title, box


# ---------------------------------------------------------------------------
# observation and comparison (pure harness code; never calls the code under check
# except for reading attributes of returned atoms)


def _num_eq(a, b):
    try:
        return not isinstance(a, (str, bool)) and bool(a == b)
    except Exception:
        return False


class Harness(Exception):
    """The harness cannot observe (renamed attribute, ...): the task ends undecided, never refuted."""


def obs_atoms(res):
    out = []
    for a in res:
        try:
            vel = a.velocity
            rec = (a.resid, a.resname, a.name, a.atomid, a.position)
        except AttributeError as e:     # attribute names are not part of the statement
            raise Harness("cannot read the fields of a returned atom: %s" % e)
        out.append(rec[:4] + ([float(x) for x in rec[4]], None if vel is None else [float(x) for x in vel]))
    return out


def atom_eq(o, r):
    if not (o[0] == r[0] and o[1] == r[1] and o[2] == r[2] and o[3] == r[3]):
        return False
    if isinstance(o[0], str) or isinstance(o[3], str):
        return False
    if len(o[4]) != 3 or any(abs(x - y) > TOL for x, y in zip(o[4], r[4])):
        return False
    # a file without velocities: how "no velocity" is represented is not fixed by the statement -> not compared
    if r[5] is not None and (o[5] is None or len(o[5]) != 3 or any(abs(x - y) > TOL for x, y in zip(o[5], r[5]))):
        return False
    return True


def _brief(atoms):
    return "[" + " ".join("%s%s:%s#%s" % (a[0], a[1], a[2], a[3]) for a in atoms[:14]) + (" ..." if len(atoms) > 14 else "") + "]"


def _scribble(res):
    """after a residue has been compared with the file it is modified by the caller (moved, renumbered): what the view hands out later
    must still be the FILE's data -- a residue object kept and handed out again would show these changes"""
    try:
        import numpy
        res.move(numpy.array([0.25, -0.5, 1.0]))
        res.resid = 4242
    except Exception:
        pass


def cmp_residue(res, exp, scribble=True):
    d = _cmp_residue(res, exp)
    if scribble and d is None:
        _scribble(res)
    return d


def _cmp_residue(res, exp):
    try:
        o = obs_atoms(res)
    except Harness:
        raise
    except Exception as e:
        return ("result is not a residue of atoms: %s: %s" % (type(e).__name__, e), _brief(exp))
    if len(o) != len(exp):
        return ("%d atoms %s" % (len(o), _brief(o)), "%d atoms %s" % (len(exp), _brief(exp)))
    for i, (a, b) in enumerate(zip(o, exp)):
        if not atom_eq(a, b):
            return ("atom %d of the residue: %r" % (i, a), "atom %d of the residue: %r" % (i, b))
    return None


def cmp_list(lst, exps):
    try:
        lst = list(lst)
    except Exception as e:
        return ("result is not a sequence: %s: %s" % (type(e).__name__, e), "%d residues" % len(exps))
    if len(lst) != len(exps):
        try:
            sizes = [len(x) for x in lst]
        except Exception:
            sizes = "?"
        return ("%d residues, sizes %s" % (len(lst), str(sizes)[:200]), "%d residues, sizes %s" % (len(exps), str([len(x) for x in exps])[:200]))
    for j, (r, e) in enumerate(zip(lst, exps)):
        d = cmp_residue(r, e)
        if d:
            return ("residue %d: %s" % (j, d[0]), "residue %d: %s" % (j, d[1]))
    return None


class Raised:
    def __init__(self, e):
        self.e = e

    def __str__(self):
        return "raises %s: %s" % (type(self.e).__name__, str(self.e)[:200])


def _call(fn, *a):
    """Run code under check with stdout silenced; exceptions are observations."""
    try:
        with contextlib.redirect_stdout(io.StringIO()):
            return fn(*a)
    except BaseException as e:  # noqa
        if isinstance(e, (KeyboardInterrupt, SystemExit, MemoryError)):
            raise
        return Raised(e)


class Session:
    """One loaded SystemGro and the oracle of its file; ``do(op)`` performs one
    operation on the real object and returns {subclause: None | (observed, expected)}."""

    def __init__(self, path, records, title, boxvals):
        from gaddlemaps.components import SystemGro
        self.records = records
        self.E = group(records)
        self.title = title
        self.boxm = box_matrix_of(boxvals)
        self.n = len(self.E)
        self.starts = list(itertools.accumulate([0] + [len(r) for r in self.E]))
        self.its = {}
        self.log = []
        self.sg = _call(SystemGro, path)
        self.failed_init = self.sg if isinstance(self.sg, Raised) else None

    def close(self):
        self.its.clear()
        sg, self.sg = self.sg, None
        if not isinstance(sg, Raised) and sg is not None:
            try:
                sg._open_fgro.close()
            except Exception:
                pass

    # -- operations -------------------------------------------------------
    def do(self, op):
        self.log.append(op)
        return getattr(self, "_op_" + op[0])(*op[1:])

    def _op_seek(self, c):
        fg = self.sg._open_fgro          # AttributeError here = harness problem (renamed attribute)
        r = _call(fg.seek_atom, c)
        if isinstance(r, Raised):
            return {"state_soft": ("seek_atom(%d) %s" % (c, r), "cursor moved to atom %d (file has %d atoms)" % (c, len(self.records)))}
        return {}

    def _op_get(self, k):
        r = _call(self.sg.__getitem__, k)
        if -self.n <= k < self.n:
            if isinstance(r, Raised):
                return {"item": (str(r), "residue %d %s" % (k, _brief(self.E[k])))}
            return {"item": cmp_residue(r, self.E[k])}
        # out of range: the statement names no exception type; any exception / no residue is accepted
        if isinstance(r, Raised) or r is None:
            return {"index_error": None}
        try:
            got = obs_atoms(r)
        except Harness:
            raise
        except Exception:
            return {"index_error": None}
        if not got:
            return {"index_error": None}
        return {"index_error": ("returns a residue %s" % _brief(got), "an exception or no residue (file has %d residues)" % self.n)}

    def _op_slice(self, a, b, s):
        exp = self.E[a:b:s]
        r = _call(self.sg.__getitem__, slice(a, b, s))
        # bounds beyond the residue range, and refusing a negative step, are not fixed by the statement: informational
        oob = any(x is not None and not (-self.n <= x <= self.n) for x in (a, b))
        if isinstance(r, Raised):
            soft = oob or (s is not None and s < 0)
            return {"slice_soft" if soft else "slice": (str(r), "%d residues" % len(exp))}
        return {"slice_soft" if oob else "slice": cmp_list(r, exp)}

    def _op_iter_new(self, iid):
        r = _call(iter, self.sg)
        if isinstance(r, Raised):
            return {"iter": ("iter() " + str(r), "an iterator")}
        self.its[iid] = [r, 0]
        return {}

    def _op_iter_next(self, iid, m):
        it = self.its[iid]
        for _ in range(m):
            r = _call(next, it[0])
            if it[1] >= self.n:
                if isinstance(r, Raised) and isinstance(r.e, StopIteration):
                    return {"resume": None}
                return {"resume": (str(r) if isinstance(r, Raised) else "yields one more residue", "StopIteration after %d residues" % self.n)}
            if isinstance(r, Raised):
                return {"resume": ("residue %d of the iteration: %s" % (it[1], r), "residue %d %s" % (it[1], _brief(self.E[it[1]])))}
            d = cmp_residue(r, self.E[it[1]])
            if d:
                return {"resume": ("residue %d of the iteration: %s" % (it[1], d[0]), "residue %d: %s" % (it[1], d[1]))}
            it[1] += 1
        return {"resume": None}

    def _op_iter_rest(self, iid):
        it = self.its.pop(iid)
        got = []
        for _ in range(self.n - it[1] + 3):
            r = _call(next, it[0])
            if isinstance(r, Raised):
                if isinstance(r.e, StopIteration):
                    break
                return {"resume": ("residue %d of the iteration: %s" % (it[1] + len(got), r), "remaining residues %d..%d" % (it[1], self.n - 1))}
            got.append(r)
        d = cmp_list(got, self.E[it[1]:])
        if d:
            return {"resume": ("resumed at residue %d: %s" % (it[1], d[0]), "resumed at residue %d: %s" % (it[1], d[1]))}
        return {"resume": None}

    def _op_iter_all(self):
        def run():
            out = []
            for r in self.sg:
                out.append(r)
                if len(out) > len(self.records) + 3:
                    break
            return out
        lst = _call(run)
        if isinstance(lst, Raised):
            f = (str(lst), "%d residues" % self.n)
            return {"concat": f, "boundaries": f}
        res = {}
        try:
            atoms = [a for r in lst for a in obs_atoms(r)]
            sizes = [len(r) for r in lst]
        except Harness:
            raise
        except Exception as e:
            f = ("iteration yields something that is not a residue: %s" % e, "%d residues" % self.n)
            return {"concat": f, "boundaries": f}
        bad = None
        if len(atoms) != len(self.records):
            bad = ("%d atom records %s" % (len(atoms), _brief(atoms)), "%d atom records %s" % (len(self.records), _brief(self.records)))
        else:
            for i, (a, b) in enumerate(zip(atoms, self.records)):
                if not atom_eq(a, b):
                    bad = ("record %d: %r" % (i, a), "record %d: %r" % (i, b))
                    break
        res["concat"] = bad
        esizes = [len(r) for r in self.E]
        res["boundaries"] = None if sizes == esizes else (
            "residues start at atoms %s" % str(list(itertools.accumulate([0] + sizes))[:-1])[:300],
            "residues start at atoms %s (where number or name changes)" % str(self.starts[:-1])[:300])
        return res

    def _op_attrs(self):
        import numpy as np
        res = {}
        r = _call(len, self.sg)
        res["len"] = None if (not isinstance(r, Raised) and r == self.n) else (str(r), str(self.n))
        r = _call(lambda: (self.sg.n_atoms, self.sg.box_matrix, self.sg.comment_line))
        if isinstance(r, Raised) and isinstance(r.e, AttributeError):
            raise Harness("cannot read n_atoms / box_matrix / comment_line: %s" % r.e)   # names are not in the statement
        r = _call(lambda: self.sg.n_atoms)
        res["n_atoms"] = None if (not isinstance(r, Raised) and _num_eq(r, len(self.records))) else (str(r), str(len(self.records)))
        r = _call(lambda: self.sg.box_matrix)
        okb = False
        if not isinstance(r, Raised):
            try:
                arr = np.array(r, dtype=float)
                M = np.array(self.boxm)       # rows or columns as box vectors: the statement does not fix the layout
                okb = arr.shape == (3, 3) and (bool(np.all(np.abs(arr - M) <= 1e-9)) or bool(np.all(np.abs(arr - M.T) <= 1e-9)))
            except Exception:
                okb = False
        res["box"] = None if okb else (str(r if isinstance(r, Raised) else np.array(r).tolist()), str(self.boxm))
        r = _call(lambda: self.sg.comment_line)
        okt = isinstance(r, str) and r.strip() == self.title.strip()     # line terminator / outer blanks are layout
        res["title"] = None if okt else (repr(r) if not isinstance(r, Raised) else str(r), repr(self.title))
        return res


def first_failure(results, soft=False):
    """First failing sub-clause; informational ('*_soft') sub-clauses only when soft=True."""
    for k, v in results.items():
        if v is not None and (soft or not k.endswith("_soft")):
            return k, v
    return None


# ---------------------------------------------------------------------------
# accumulation of evaluations into obligations


class Acc:
    def __init__(self, family):
        self.family = family
        self.d = {}
        self.order = []
        self.rich = False
        self.soft = {}

    def refuted(self, oid):
        e = self.d.get(oid)
        return e is not None and e["first"] is not None

    def note(self, oid, res, what):
        """A mismatch on something the statement does not fix: reported as an undecided informational obligation."""
        if oid not in self.soft:
            self.soft[oid] = [0, res, what]
        self.soft[oid][0] += 1

    def add(self, oid, res, mk_cex, nontrivial=True, sample=None):
        e = self.d.get(oid)
        if e is None:
            e = self.d[oid] = {"n": 0, "nt": 0, "first": None, "nbad": 0, "sample": None, "rich": False}
            self.order.append(oid)
        e["n"] += 1
        e["nt"] += 1 if nontrivial else 0
        if sample is not None and (e["sample"] is None or (not e["rich"] and self.rich)):
            e["sample"] = sample          # prefer a sample from a file with >= 3 residues
            e["rich"] = self.rich
        if res is not None:
            e["nbad"] += 1
            if e["first"] is None:
                e["first"] = (res, mk_cex())

    def obligations(self, t0):
        out = []
        secs = time.time() - t0
        for oid in self.order:
            e = self.d[oid]
            full = oid + "/" + self.family
            if e["first"] is None:
                out.append(ob(full, "discharged", kind="bounded", engine="smallscope", backend="runtime-contract",
                              secs=secs / max(1, len(self.order)), evaluations=e["n"], nontrivial=e["nt"], sample=e["sample"]))
            else:
                (obs, exp), cex = e["first"]
                out.append(ob(full, "refuted", kind="bounded", engine="smallscope", backend="runtime-contract",
                              secs=secs / max(1, len(self.order)), evaluations=e["n"], nontrivial=e["nt"], sample=e["sample"],
                              reason="%d/%d evaluations fail; first: observed %s; expected %s; file %s; ops %s" % (
                                  e["nbad"], e["n"], obs, exp, cex.get("label"), str(cex.get("ops"))[:300]),
                              cex=cex))
        for oid, (cnt, (obs, exp), what) in self.soft.items():
            out.append(ob(oid + ".informational/" + self.family, "undecided", kind="bounded", engine="smallscope",
                          backend="runtime-contract", evaluations=cnt,
                          reason="%d mismatches on behaviour the statement does not fix (%s); first: observed %s; expected %s" % (
                              cnt, what, obs, exp)))
        return out


class FileCtx:
    """A generated file on disk plus what is needed to build a replayable cex."""

    def __init__(self, tmpdir, text, records, title, box, label, gen=None, shipped=None):
        self.text, self.records, self.title, self.box, self.label = text, records, title, box, label
        self.gen, self.shipped = gen, shipped
        if shipped is None:
            self.path = os.path.join(tmpdir, "f.gro")
            write_text(self.path, text)
        else:
            self.path = shipped_path()

    def session(self):
        return Session(self.path, self.records, self.title, self.box)

    def fails_fresh(self, ops):
        s = self.session()
        try:
            if s.failed_init is not None:
                return True
            for op in ops:
                if first_failure(s.do(op)):
                    return True
            return False
        except KeyError:      # an iterator operation without its iter_new: not a self-contained op list
            return False
        finally:
            s.close()

    def cex(self, sub, ops_min, sess, obs_exp):
        """Prefer the minimal op list if it fails on a freshly loaded object, else the whole
        history of the object the failure was seen on."""
        ops = list(ops_min)
        if sess is not None and sess.failed_init is None and not self.fails_fresh(ops):
            ops = list(sess.log)
        c = {"label": self.label, "ops": ops, "clause": sub,
             "observed": obs_exp[0], "expected": obs_exp[1],
             "signature": "%s|%s" % (sub, self.label)}
        if self.shipped is not None:
            c["shipped"] = SHIPPED
        elif self.gen is not None:
            c["gen"] = self.gen
        else:
            c["text"] = self.text
        return c


def shipped_path():
    import gaddlemaps
    return os.path.join(os.path.dirname(gaddlemaps.__file__), "data", SHIPPED)


# ---------------------------------------------------------------------------
# access families


def int_family(n):
    return [["get", k] for k in range(-n, n)]


def oob_family(n):
    return [["get", k] for k in (n, n + 1, -n - 1, -n - 2)]


def slice_family(n):
    fam = [(None, None, None), (None, None, 2), (1, None, None), (None, -1, None), (-2, None, None),
           (None, None, -1), (1, 3, None), (-3, -1, None), (None, 2, None), (1, None, 2), (None, None, 3),
           (None, None, -2), (0, 0, None), (2, 1, None), (-1, None, None), (n, None, None), (None, n + 2, None),
           (-n - 2, None, None)]
    return [["slice", a, b, s] for a, b, s in fam]


def pair_family(n):
    return int_family(n) + [["slice", None, None, 2], ["slice", 1, None, None], ["slice", None, None, -1]]


def _first_start(sess, op):
    """Atom offset the access has to read first (None if it reads nothing)."""
    if op[0] == "get":
        k = op[1]
        if -sess.n <= k < sess.n:
            return sess.starts[k % sess.n]
        return None
    idx = list(range(sess.n))[op[1]:op[2]:op[3]]
    return sess.starts[idx[0]] if idx else None


def _oid_for(op, sub, o_int, o_sl):
    if sub == "index_error":
        return G_IDXERR
    if op[0] == "get":
        return o_int
    return o_sl


# ---------------------------------------------------------------------------
# the per-file contract evaluation


SOFT_WHAT = ("bounds beyond the residue range / negative step refused / cursor forced through a private handle "
             "without a reproduction through public operations")


def record(acc, oid, sub, val, mk_cex, **kw):
    """Account one evaluation; mismatches of informational ('*_soft') sub-clauses never refute."""
    if sub.endswith("_soft"):
        if val is not None:
            acc.note(oid, val, SOFT_WHAT)
        acc.add(oid, None, None, **kw)
    else:
        acc.add(oid, val, mk_cex, **kw)


def public_reproduction(fc, sess, c, op):
    """The forced cursor is set through the private file handle.  A failure seen from it refutes only if it is
    also seen through public operations alone: from the state after loading, or after fetching the residue that
    ends at atom c (which leaves the cursor at c)."""
    cands = [[op]]
    for k in range(1, sess.n + 1):
        if sess.starts[k] == c:
            cands.append([["get", k - 1], op])
    if sess.n <= 6:
        for k in range(sess.n):
            cands.append([["get", k], op])
    seen = []
    for ops in cands:
        if ops in seen:
            continue
        seen.append(ops)
        if fc.fails_fresh(ops):
            return ops
    return None


def cursor_access(acc, fc, sess, c, op):
    """Single-step obligation: force the shared cursor to atom c, perform the access, compare."""
    oid0 = G_INT_CUR if op[0] == "get" else G_SL_CUR
    st = sess.do(["seek", c])
    if st.get("state_soft"):
        acc.note(oid0, st["state_soft"], "the cursor could not be forced through the private file handle")
        return
    r = sess.do(op)
    sub, val = next(iter(r.items()))
    oid = _oid_for(op, sub, G_INT_CUR, G_SL_CUR)
    fs = _first_start(sess, op)
    kw = dict(nontrivial=(fs is not None and fs != c) or sub == "index_error",
              sample={"file": fc.label, "forced_cursor": c, "access": op})
    if val is None or sub.endswith("_soft"):
        record(acc, oid, sub, val, None, **kw)
        return
    if acc.refuted(oid):
        acc.add(oid, val, None, **kw)          # already refuted with a public reproduction: just count
        return
    pub = public_reproduction(fc, sess, c, op)
    if pub is None:
        acc.note(oid, val, SOFT_WHAT + "; file %s forced cursor %d access %s" % (fc.label, c, op))
        acc.add(oid, None, None, **kw)
        return
    cex = fc.cex(sub, pub, None, val)
    cex["seen_first_with"] = [["seek", c], op]
    acc.add(oid, val, lambda: cex, **kw)


def check_file(acc, fc, *, cursors="all", accesses="all", partial=True, pairs=True, fresh=True, rng=None):
    sess = fc.session()
    try:
        if sess.failed_init is not None:
            f = ("SystemGro(file) %s" % sess.failed_init, "a loaded view of %d residues" % sess.n)
            acc.add(I_CONCAT, f, lambda: fc.cex("load", [["iter_all"]], None, f), sample=fc.label)
            return
        nat = len(fc.records)
        n = sess.n
        acc.rich = n >= 3
        # -- iteration (state after construction, then again after a complete iteration) and attributes
        tiling_ok = True
        for rep in range(2):
            r = sess.do(["iter_all"])
            acc.add(I_CONCAT, r["concat"], lambda: fc.cex("concat", [["iter_all"]] * (rep + 1), sess, r["concat"]),
                    nontrivial=nat > 1, sample={"file": fc.label, "atoms": nat, "residues": n})
            acc.add(I_BOUND, r["boundaries"], lambda: fc.cex("boundaries", [["iter_all"]] * (rep + 1), sess, r["boundaries"]),
                    nontrivial=n > 1 or nat > 1, sample={"file": fc.label, "residue_starts": sess.starts[:-1][:20]})
            tiling_ok = tiling_ok and r["concat"] is None and r["boundaries"] is None
        r = sess.do(["attrs"])
        for sub, oid in (("len", A_LEN), ("n_atoms", A_NAT), ("box", A_BOX), ("title", A_TITLE)):
            acc.add(oid, r[sub], lambda sub=sub: fc.cex(sub, [["attrs"]], sess, r[sub]), sample={"file": fc.label})
        if not tiling_ok:
            return      # the tiling of this file is already refuted; access failures on it would only repeat that finding
        if accesses == "all":
            fam = int_family(n) + oob_family(n) + slice_family(n)
        else:
            fam = accesses
        # -- every forced cursor position x every access
        cur = list(range(nat + 1)) if cursors == "all" else cursors
        for c in cur:
            for op in fam:
                cursor_access(acc, fc, sess, c, op)
        # -- state right after construction (a new object per access)
        if fresh:
            for op in fam:
                s2 = fc.session()
                try:
                    if s2.failed_init is not None:
                        continue
                    r = s2.do(op)
                    sub, val = next(iter(r.items()))
                    record(acc, _oid_for(op, sub, G_INT_CUR, G_SL_CUR), sub, val, lambda: fc.cex(sub, [op], None, val),
                            sample={"file": fc.label, "forced_cursor": "as left by construction", "access": op})
                finally:
                    s2.close()
        # -- after a partial iteration stopped after j residues, generator left suspended, then resumed
        if partial:
            for j in range(n + 1):
                for op in fam:
                    ops = [["iter_new", 0], ["iter_next", 0, j], op, ["iter_rest", 0]]
                    st = sess.do(ops[0])
                    if st.get("iter"):
                        acc.add(I_RESUME, st["iter"], lambda: fc.cex("iter", ops[:1], sess, st["iter"]))
                        continue
                    r0 = sess.do(ops[1]) if j else {"resume": None}
                    if r0["resume"] is not None:
                        acc.add(I_RESUME, r0["resume"], lambda: fc.cex("resume", ops[:2], sess, r0["resume"]))
                        sess.its.pop(0, None)
                        continue
                    r = sess.do(op)
                    sub, val = next(iter(r.items()))
                    record(acc, _oid_for(op, sub, G_INT_IT, G_SL_IT), sub, val,
                           lambda: fc.cex(sub, ops[:3], sess, val),
                            sample={"file": fc.label, "iterated_before": j, "access": op})
                    r2 = sess.do(ops[3])
                    acc.add(I_RESUME, r2["resume"], lambda: fc.cex("resume", ops, sess, r2["resume"]), nontrivial=j < n,
                            sample={"file": fc.label, "iterated_before": j, "access": op, "then": "resume to the end"})
        # -- two accesses in a row, every ordered pair
        if pairs:
            pf = pair_family(n)
            for op1 in pf:
                for op2 in pf:
                    r1 = sess.do(op1)
                    r2 = sess.do(op2)
                    v = first_failure(r1) or first_failure(r2)
                    sv = first_failure(r1, soft=True) or first_failure(r2, soft=True)
                    if v is None and sv is not None:
                        acc.note(G_PAIR, sv[1], SOFT_WHAT)
                    acc.add(G_PAIR, v[1] if v else None, lambda: fc.cex(v[0], [op1, op2], sess, v[1]),
                            sample={"file": fc.label, "accesses": [op1, op2]})
    finally:
        sess.close()


def random_history(rng, n, length):
    """Public-API operations only: index, negative index, slice, start / advance / resume iterations."""
    ops = []
    live = []
    nid = 0
    while len(ops) < length:
        x = rng.random()
        if x < 0.35:
            ops.append(["get", rng.randrange(-n, n)])
        elif x < 0.42:
            ops.append(["get", rng.choice((n, n + 3, -n - 1))])
        elif x < 0.65:
            a = rng.choice((None, None, rng.randrange(-n - 2, n + 3)))
            b = rng.choice((None, None, rng.randrange(-n - 2, n + 3)))
            s = rng.choice((None, None, 1, 2, 3, 7, -1, -2, -5))
            if a is None and b is None and s in (None, 1, -1) and n > 60:
                b = rng.randrange(0, 40)
            ops.append(["slice", a, b, s])
        elif x < 0.75 and len(live) < 3:
            ops.append(["iter_new", nid])
            live.append(nid)
            nid += 1
        elif x < 0.95 and live:
            ops.append(["iter_next", rng.choice(live), rng.randint(1, 4)])
        elif live:
            iid = live.pop(rng.randrange(len(live)))
            if n <= 80:
                ops.append(["iter_rest", iid])
            else:
                ops.append(["iter_next", iid, rng.randint(1, 6)])
        else:
            ops.append(["get", rng.randrange(-n, n)])
    return ops


def run_history(acc, fc, rng, length=200):
    sess = fc.session()
    try:
        if sess.failed_init is not None:
            f = ("SystemGro(file) %s" % sess.failed_init, "a loaded view")
            acc.add(H_HIST, f, lambda: fc.cex("load", [["iter_all"]], None, f))
            return
        ops = random_history(rng, sess.n, length)
        for i, op in enumerate(ops):
            r = sess.do(op)
            v = first_failure(r)
            sv = first_failure(r, soft=True)
            if v is None and sv is not None:
                acc.note(H_HIST, sv[1], SOFT_WHAT)
            if op[0] == "iter_new" and v is None:
                continue
            acc.add(H_HIST, v[1] if v else None, lambda: fc.cex(v[0], [op], sess, v[1]),
                    sample={"file": fc.label, "step": i, "op": op})
            if v:
                return
    finally:
        sess.close()


# ---------------------------------------------------------------------------
# tasks


def task_small(tier, seed, scheme, vel, firsts, L, enc=False):
    t0 = time.time()
    fam = "seq<=%d,numbering=%s,vel=%d,first=%s" % (L, scheme, int(vel), "|".join(firsts))
    variants = [("", None, "\n")]
    if enc == "fullwidth":
        variants = [(v[0], None, "\n", v[1]) for v in FW_VARIANTS]
        fam = "seq<=%d,numbering=%s,vel=%d,%s" % (L, scheme, int(vel), "+".join(v[0] for v in variants))
    elif enc:
        variants = [v for v in ENC_VARIANTS if v[1] is None or utf8_default()]
        fam = "seq<=%d,numbering=%s,vel=%d,%s" % (L, scheme, int(vel), "+".join(v[0] for v in variants))
    acc = Acc(fam)
    tmp = tempfile.mkdtemp(prefix="c12_")
    try:
        count = 0
        for l in range(1, L + 1):
            for seq in itertools.product(KIND_NAMES, repeat=l):
                if seq[0] not in firsts:
                    continue
                for vname, vtitle, eol, *vw in variants:
                    text, recs, title, box = small_file(seq, scheme, vel, variant=count, title=vtitle, eol=eol,
                                                        wide=vw[0] if vw else None)
                    if any(len(l.rstrip("\r")) != 20 + 24 * (1 + int(vel)) for l in text.split("\n")[2:2 + len(recs)]):
                        raise RuntimeError("harness: a generated value does not fit its field")
                    count += 1
                    pt = parse_text(text)
                    if pt[2] != recs or pt[0] != title or pt[1] != len(recs):
                        raise RuntimeError("harness: own formatter and own parser disagree on %r" % (seq,))
                    fc = FileCtx(tmp, text, recs, title, box,
                                 "%s:%s:vel%d%s" % (scheme, ",".join(seq), int(vel), ":" + vname if vname else ""))
                    check_file(acc, fc)
        return acc.obligations(t0)
    finally:
        shutil.rmtree(tmp, ignore_errors=True)


def task_history(tier, seed, idxs, sizes, fam):
    t0 = time.time()
    acc = Acc(fam)
    tmp = tempfile.mkdtemp(prefix="c12_")
    try:
        for idx in idxs:
            rng = random.Random(9176 + seed * 131 + idx)
            nres = rng.randint(*sizes)
            vel = bool(idx % 2)
            text, recs, title, box = big_file(seed, idx, nres, vel)
            pt = parse_text(text)
            if pt[2] != recs:
                raise RuntimeError("harness: own formatter and own parser disagree on generated file %d" % idx)
            fc = FileCtx(tmp, text, recs, title, box, "generated:seed%d:idx%d:nres%d:vel%d" % (seed, idx, nres, int(vel)),
                         gen=[seed, idx, nres, vel])
            n = len(group(recs))
            nat = len(recs)
            # iteration, attributes, every index from a seeded cursor, seeded slices from seeded cursors
            acc_ops = int_family(n) + oob_family(n)
            for _ in range(60):
                a = rng.choice((None, rng.randrange(-n - 2, n + 3)))
                b = rng.choice((None, rng.randrange(-n - 2, n + 3)))
                s = rng.choice((None, 1, 2, 3, 5, 11, -1, -2, -7))
                if a is None and b is None and s in (None, 1, -1):
                    a = rng.randrange(-n, n)
                acc_ops.append(["slice", a, b, s])
            sess = fc.session()
            try:
                if sess.failed_init is not None:
                    f = ("SystemGro(file) %s" % sess.failed_init, "a loaded view")
                    acc.add(I_CONCAT, f, lambda: fc.cex("load", [["iter_all"]], None, f))
                    continue
                r = sess.do(["iter_all"])
                acc.add(I_CONCAT, r["concat"], lambda: fc.cex("concat", [["iter_all"]], sess, r["concat"]),
                        sample={"file": fc.label, "atoms": nat, "residues": n})
                acc.add(I_BOUND, r["boundaries"], lambda: fc.cex("boundaries", [["iter_all"]], sess, r["boundaries"]),
                        sample={"file": fc.label})
                r = sess.do(["attrs"])
                for sub, oid in (("len", A_LEN), ("n_atoms", A_NAT), ("box", A_BOX), ("title", A_TITLE)):
                    acc.add(oid, r[sub], lambda sub=sub: fc.cex(sub, [["attrs"]], sess, r[sub]), sample={"file": fc.label})
                for op in acc_ops:
                    cursor_access(acc, fc, sess, rng.randrange(0, nat + 1), op)
            finally:
                sess.close()
            run_history(acc, fc, rng, 200)
        return acc.obligations(t0)
    finally:
        shutil.rmtree(tmp, ignore_errors=True)


def task_shipped(tier, seed):
    t0 = time.time()
    acc = Acc("shipped=%s" % SHIPPED)
    with open(shipped_path(), encoding="utf-8", newline="") as f:
        text = f.read()
    title, nat, recs, box = parse_text(text)
    if nat != len(recs):
        raise RuntimeError("harness: shipped file atom count")
    fc = FileCtx(None, text, recs, title, box, "shipped:" + SHIPPED, shipped=True)
    E = group(recs)
    n = len(E)
    rng = random.Random(4242 + seed)
    sess = fc.session()
    try:
        if sess.failed_init is not None:
            f = ("SystemGro(file) %s" % sess.failed_init, "a loaded view")
            acc.add(I_CONCAT, f, lambda: fc.cex("load", [["iter_all"]], None, f))
            return acc.obligations(t0)
        r = sess.do(["iter_all"])
        acc.add(I_CONCAT, r["concat"], lambda: fc.cex("concat", [["iter_all"]], sess, r["concat"]),
                sample={"file": fc.label, "atoms": nat, "residues": n})
        acc.add(I_BOUND, r["boundaries"], lambda: fc.cex("boundaries", [["iter_all"]], sess, r["boundaries"]), sample={"file": fc.label})
        r = sess.do(["attrs"])
        for sub, oid in (("len", A_LEN), ("n_atoms", A_NAT), ("box", A_BOX), ("title", A_TITLE)):
            acc.add(oid, r[sub], lambda sub=sub: fc.cex(sub, [["attrs"]], sess, r[sub]), sample={"file": fc.label})
        for i in range(200):
            x = rng.random()
            if x < 0.6:
                op = ["get", rng.randrange(-n, n)]
            elif x < 0.68:
                op = ["get", rng.choice((n, -n - 1, n + 7))]
            else:
                a = rng.choice((None, rng.randrange(-n - 2, n + 3)))
                b = rng.choice((None, rng.randrange(-n - 2, n + 3)))
                s = rng.choice((None, 1, 2, 3, 50, -1, -3, -100))
                if a is None and b is None and s in (None, 1, -1):
                    b = rng.randrange(0, 30) if s != -1 else -rng.randrange(1, 30)
                op = ["slice", a, b, s]
            cursor_access(acc, fc, sess, rng.randrange(0, nat + 1), op)
    finally:
        sess.close()
    run_history(acc, fc, rng, 200)
    return acc.obligations(t0)


def task_guards(tier, seed):
    """Must-fail guards: wrong clauses / corrupted observations have to be refuted on the real object."""
    import copy
    t0 = time.time()
    out = []
    tmp = tempfile.mkdtemp(prefix="c12_")

    def g(name, why, fn):
        try:
            status = "refuted" if fn() else "discharged"
        except Exception as e:      # the code under check misbehaves so badly that the guard cannot be evaluated
            status = "undecided"
            why += " -- guard could not be evaluated: %s: %s" % (type(e).__name__, str(e)[:200])
        out.append(ob(f"{PROP}/guard/{name}", status, kind="guard", engine="smallscope",
                      backend="runtime-contract", expect="refuted", secs=time.time() - t0, reason=why))
    try:
        # file with repeated kinds, consecutive numbers, velocities, triclinic box
        seq = ("A2", "A2", "1A", "A1")
        text, recs, title, box = small_file(seq, "consecutive", True, 1)
        fc = FileCtx(tmp, text, recs, title, box, "guard")
        s = fc.session()
        E = s.E

        def g1():
            byname = []
            for r in recs:
                if not byname or byname[-1][-1][1] != r[1]:
                    byname.append([])
                byname[-1].append(r)
            return cmp_list(list(s.sg), byname) is not None
        g("SystemGro.__iter__/must_fail.boundaries_only_where_name_changes",
          "wrong clause 'a residue starts only where the name changes' on A,A,1A,A with consecutive numbers", g1)
        g("SystemGro.__getitem__/must_fail.index_shifted_by_one", "wrong clause 'sg[k] is the (k+1)-th iterated residue'",
          lambda: all(cmp_residue(s.sg[k], E[k + 1]) is not None for k in range(len(E) - 1)))

        def g3():
            lst = list(s.sg)
            bad1 = copy.deepcopy(E)
            bad1[2][0][4][1] += 0.001
            bad2 = copy.deepcopy(E)
            bad2[1][1][5][2] += 0.0001
            bad3 = [list(r) for r in E]
            bad3[3][0] = bad3[3][0][:3] + (bad3[3][0][3] + 1,) + bad3[3][0][4:]
            return cmp_list(lst, E) is None and all(cmp_list(lst, b) is not None for b in (bad1, bad2, bad3))
        g("comparison/must_fail.corrupted_coordinate_velocity_atomid",
          "the comparison accepts the true records and rejects records differing in one coordinate (0.001), one velocity (0.0001), "
          "one atom number", g3)

        def g4():
            eff = True
            for c in range(1, len(recs)):
                s.do(["seek", c])
                line = next(s.sg._open_fgro)
                if not (line[3] == recs[c][3] and line[3] != recs[0][3]):
                    eff = False
            return eff
        g("GroFile.seek_atom/must_fail.read_after_forced_cursor_is_record_0",
          "wrong clause 'whatever the forced cursor, the next record read is record 0' (shows that the forced states differ)", g4)
        g("SystemGro.__getitem__/must_fail.stride_slice_offset", "wrong clause 'sg[::2] equals iterated[1::2]'",
          lambda: cmp_list(s.sg[::2], E[1::2]) is not None)

        def g6():
            r = s.do(["attrs"])
            s.title, s.boxm, s.n = title + "x", box_matrix_of(BOXES[0]), s.n + 1
            try:
                r2 = s.do(["attrs"])
            finally:
                s.title, s.boxm, s.n = title, box_matrix_of(box), s.n - 1
            return all(v is None for v in r.values()) and all(r2[k] is not None for k in ("len", "box", "title"))
        g("SystemGro.attributes/must_fail.wrong_len_box_title",
          "wrong expected len (+1) / box (off-diagonal terms dropped) / title (one more character) must be rejected", g6)
        s.close()
        # digit-leading names: the oracle keyed on the concatenation '{number}{name}' must be refuted by the real code
        text2, recs2, title2, box2 = small_file(("1A", "A2"), "digit", False, 0)
        fc2 = FileCtx(tmp, text2, recs2, title2, box2, "guard-digit")
        s2 = fc2.session()

        def g7():
            lst = list(s2.sg)
            keys = {"%d%s" % (r[0], r[1]) for r in recs2}
            return len(keys) == 1 and cmp_list(lst, [list(recs2)]) is not None and cmp_list(lst, group(recs2)) is None
        g("SystemGro.__iter__/must_fail.boundaries_by_concatenated_number_name",
          "file (1,'1A'),(11,'A'): both render '11A'; the wrong oracle merging them must be refuted (the scope contains the D10 trigger)", g7)
        g("SystemGro.__getitem__/must_fail.index_len_returns_a_residue", "wrong clause 'sg[len(sg)] returns a residue'",
          lambda: isinstance(_call(s2.sg.__getitem__, s2.n), Raised))
        s2.close()
        return out
    finally:
        shutil.rmtree(tmp, ignore_errors=True)


def _tasks_bounded(prop, tier, seed):
    L = 4 if tier == "quick" else 5
    t = []
    lim = 400.0 if tier == "quick" else 1800.0
    for scheme in SCHEMES:
        for vel in (False, True):
            for firsts in (("A2", "A1"), ("B2", "1A")):
                t.append(("small/%s/vel%d/first=%s" % (scheme, int(vel), "+".join(firsts)), task_small,
                          (tier, seed, scheme, vel, firsts, L), lim))
    # multi-byte titles / CRLF line ends (byte offsets differ from character counts): every sequence of length <= 3 (4)
    for scheme in ("consecutive", "digit"):
        for vel in (False, True):
            t.append(("small-encoding/%s/vel%d" % (scheme, int(vel)), task_small,
                      (tier, seed, scheme, vel, KIND_NAMES, L - 1, True), lim))
    # values that fill the whole 8-character field and touch the previous field: every sequence of length <= 3 (4)
    for scheme in ("consecutive", "pairs"):
        for vel in (False, True):
            t.append(("small-fullwidth/%s/vel%d" % (scheme, int(vel)), task_small,
                      (tier, seed, scheme, vel, KIND_NAMES, L - 1, "fullwidth"), lim))
    t.append(("shipped/" + SHIPPED, task_shipped, (tier, seed), 300.0))
    if tier == "quick":
        t.append(("history/medium-files", task_history, (tier, seed, (0, 1, 2, 3), (30, 80), "generated 4 files of 30-80 residues, sizes 1..12"), 300.0))
    else:
        t.append(("history/medium-files", task_history, (tier, seed, (0, 1, 2, 3), (30, 80), "generated 4 files of 30-80 residues, sizes 1..12"), 600.0))
        for part in range(6):
            idxs = tuple(range(100 + part * 3, 103 + part * 3))
            t.append(("history/large-files-%d" % part, task_history, (tier, seed, idxs, (50, 400),
                      "generated files %d..%d of 50-400 residues, sizes 1..12" % (idxs[0], idxs[-1])), 900.0))
    t.append(("guards", task_guards, (tier, seed), 120.0))
    return t


# ---------------------------------------------------------------------------
# replay on the real, unwrapped code


def _replay_bounded(prop, cex):
    tmp = tempfile.mkdtemp(prefix="c12_replay_")
    try:
        if cex.get("shipped"):
            with open(shipped_path(), encoding="utf-8", newline="") as f:
                text = f.read()
            path = shipped_path()
        else:
            if cex.get("gen"):
                seed, idx, nres, vel = cex["gen"]
                text = big_file(seed, idx, nres, vel)[0]
            else:
                text = cex["text"]
            path = os.path.join(tmp, "f.gro")
            write_text(path, text)
        title, nat, recs, box = parse_text(text)      # independent parse = oracle
        s = Session(path, recs, title, box)
        try:
            if s.failed_init is not None:
                return {"reproduced": True, "observed": "SystemGro(file) %s" % s.failed_init,
                        "expected": "a view of %d residues" % s.n, "inputs": cex}
            for i, op in enumerate(cex["ops"]):
                v = first_failure(s.do(list(op)))
                if v:
                    return {"reproduced": True, "failing_op": [i, op], "clause": v[0], "observed": v[1][0],
                            "expected": v[1][1], "inputs": cex}
            return {"reproduced": False, "observed": "all %d operations agree with the oracle" % len(cex["ops"]),
                    "expected": cex.get("expected"), "inputs": cex}
        finally:
            s.close()
    finally:
        shutil.rmtree(tmp, ignore_errors=True)


# ---------------------------------------------------------------------------
# deductive part (contracts/d12_offsets_vc.py) wired in


def info(prop):
    from . import d12_offsets_vc as D
    d = _info_bounded(prop)
    h = D.deductive_info()
    from . import d12_parse_vc as P
    hp = P.parse_info()
    d["functions"] = h["functions"][:2] + hp["functions"] + d.get("functions", [])
    d["stubs"] = h["stubs"] + hp["stubs"] + d.get("stubs", [])
    d["assumptions"] = h["assumptions"] + hp["assumptions"] + d.get("assumptions", [])
    d["explanation"] = h["explanation"] + d.get("explanation", "")
    d["trusted_base"] = ["z3 5.1", "vf/pyvc.py + vf/seq.py"] + d.get("trusted_base", [])
    return d


def tasks(prop, tier, seed):
    from . import d12_offsets_vc as D
    from . import d12_parse_vc as P
    return list(D.deductive_tasks(prop, tier, seed)) + list(P.parse_tasks(prop, tier, seed)) + list(_tasks_bounded(prop, tier, seed))


def replay(prop, cex):
    if cex.get("kind") == "vc":
        # a failed proof obligation of the offset arithmetic: look for a failing access in the bounded scope of the real code
        for name, fn, args, _lim in _tasks_bounded(prop, "quick", 0)[:8]:
            try:
                obs = fn(*args)
            except Exception:
                continue
            for o in obs:
                if o.get("status") == "refuted" and o.get("kind") != "guard" and o.get("cex"):
                    r = _replay_bounded(prop, o["cex"])
                    if r and r.get("reproduced"):
                        r["note"] = f"failed obligation {cex.get('obligation') or cex.get('signature')} manifests on the real SystemGro"
                        return r
        return {"reproduced": False, "inputs": cex, "note": "no failing access found in the bounded scope"}
    return _replay_bounded(prop, cex)
