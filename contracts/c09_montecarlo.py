"""C09 -- Monte-Carlo search: consistent energies, Metropolis rule, exact stop.

Deductive part
  * accept_metropolis: symrun on the real function (loop-free, fully symbolic,
    the random draw is a fresh symbol in [0,1)) -> complete.
  * _minimize_molecules: pyvc on the real AST (re-read every run) with a loop
    invariant over ghost state (held configuration, lowest measure, steps since
    the last new lowest); callees by contract only.
  * minimize_molecules: pyvc, straight-line: forwards its nine parameters in
    order to _minimize_molecules and returns its result (compiled back end
    absent: check_backend_installed() is False in this sandbox).
Bounded twin
  * the same contract evaluated at run time on the real loop with the
    module-level names it resolves at call time wrapped (monitor).
"""
from __future__ import annotations

import contextlib
import inspect
import io
import itertools

import numpy as np
import z3

from vf import symrun as S, core, pyvc
from vf.core import ob, discharge
from vf.pyvc import Stub, LoopSpec, St

PROP = "C09"
REL = "gaddlemaps/_backend.py"


def info(prop):
    return {
        "level": "proof",
        "functions": [f"{REL}::accept_metropolis", f"{REL}::_minimize_molecules", f"{REL}::minimize_molecules"],
        "stubs": ["pyvc contract stubs (checker-side, not bound into the repo): Chi2Calculator (pure functor Chi2(conf) >= 0, C08), "
                  "accept_metropolis (its own proved contract), move_mol_atom (C07), rotation_matrix (C17: requires axis != 0), "
                  "numpy.mean / numpy.dot / array +,- as uninterpreted row-wise operations, numpy.random.* as fresh symbols",
                  "bounded twin: gaddlemaps._backend.{Chi2Calculator, accept_metropolis, move_mol_atom} wrapped by a recording monitor"],
        "trusted_base": ["z3 5.1", "vf/pyvc.py (AST VC generator)", "vf/symrun.py", "CPython ast module"],
        "assumptions": ["A1 float64 as reals", "A3 numpy.random.rand in [0,1); uniform(-1,1,3) is not the zero vector (measure-zero event excluded, A7)",
                        "Chi2Calculator.__call__ is a pure function of the configuration (contract of C08)",
                        "terminal output (sys.stdout.write/flush, print) modelled as no-ops",
                        "compiled cython back end absent (minimize_molecules falls through to the Python engine)",
                        "termination of the search is not proved (it is probabilistic)"],
        "explanation": ("accept_metropolis: every path of the real function, fully symbolic energies, acceptance and draw. "
                        "_minimize_molecules: VCs generated from the AST of the real function with the loop invariant "
                        "chi2 = Chi2(held) /\\ mol2_positions = held = last accepted /\\ chi2_min = lowest so far /\\ counter = steps since the last new lowest "
                        "/\\ 0 <= counter <= n_steps; call-site assertions at the acceptance call (first argument is the measure of the held configuration, second "
                        "the measure of the proposal), proposal shape per deformation type, transition postconditions, exit postconditions. "
                        "All obligations are linear arithmetic + uninterpreted functions. The bounded twin (real loop, monitored, seeds x budgets) is separate."),
        "rule": "deductive: one obligation per (function, clause, path); bounded: one evaluation per (seed, step budget, deformation subset) run of the real loop",
    }


def _backend():
    import gaddlemaps._backend as B
    return B


# ===========================================================================
# accept_metropolis  (symrun)

E0, E1, ACC = z3.Real("e0"), z3.Real("e1"), z3.Real("acc")


def _cex_acc(model):
    from vf.backends import model_value
    g = lambda n, d=0.0: model_value(model[n]) if n in model else d
    u = [model_value(v) for k, v in model.items() if k.startswith("rand!")]
    e0, e1 = g("e0"), g("e1")
    return {"fn": "accept_metropolis", "e0": e0, "e1": e1, "acceptance": g("acc", 0.01), "u": u[0] if u else 0.5,
            "signature": "equal" if e0 == e1 else ("lower" if e1 < e0 else "worse")}


def task_accept(seed):
    B = _backend()
    out = []
    tag = f"{PROP}/accept_metropolis"
    pre = [E0 >= 0, E1 >= 0, ACC >= 0]

    def run(c):
        draws = []

        def rand(*a):
            if a:
                raise S.SymError("np.random.rand with arguments")
            u = c.fresh("rand")
            c.assume(u >= 0)
            c.assume(u < 1)
            draws.append(u)
            return S.SymReal(u)

        class _R:
            def __getattr__(self, n):
                if n == "rand":
                    return rand
                raise S.SymError(f"np.random.{n} not modelled")

        fac = S.NumpyFacade(extra={"random": _R()})
        with S.patched(B, np=fac):
            r = B.accept_metropolis(S.real("e0"), S.real("e1"), S.real("acc"))
        return r, draws

    paths = S.explore(run, assumptions=pre)
    out.append(ob(f"{tag}/paths-enumerated", "discharged" if 1 <= len(paths) <= 4 else "undecided", engine="symrun",
                  backend="explorer", reason=f"{len(paths)} feasible paths", sample={"paths": len(paths)}))
    for pi, p in enumerate(paths):
        ptag = "path[" + ("".join("T" if d else "F" for d in p.decisions) or "-") + "]"
        hy = p.hyps()
        if p.exc is not None:
            m = core.get_model(hy)
            cex = None
            if m is not None:
                cex = {"fn": "accept_metropolis", "e0": core.mval(m, E0), "e1": core.mval(m, E1), "acceptance": core.mval(m, ACC),
                       "u": 0.5, "signature": "raises"}
            out.append(ob(f"{tag}/no-exception/{ptag}", "refuted", engine="symrun", backend="explorer",
                          reason=f"real code raises {type(p.exc).__name__}: {p.exc}", cex=cex))
            continue
        res, draws = p.result
        if isinstance(res, S.SymBool):
            rt = res.t
        elif isinstance(res, (bool, np.bool_)):
            rt = z3.BoolVal(bool(res))
        else:
            out.append(ob(f"{tag}/returns-bool/{ptag}", "undecided", engine="symrun", reason=f"result type {type(res).__name__}"))
            continue
        for i, (name, cond, h) in enumerate(p.ctx.safety):
            out.append(discharge(f"{tag}/safety.{name}#{i}/{ptag}", h, cond, backends=("z3",), cex_builder=_cex_acc))
        # ensures (from the statement): equal or lower measure => accepted, and no random number is consumed
        out.append(discharge(f"{tag}/ensures.equal_or_lower_accepted/{ptag}", hy, z3.Implies(E1 <= E0, rt),
                             backends=("z3",), cex_builder=_cex_acc))
        # worse => accepted iff the single draw u <= acceptance * e0 / e1   (stated without division: u*e1 <= acc*e0)
        if len(draws) == 1:
            u = draws[0]
            # "with probability acceptance*E_held/E_new": accepted when the uniform draw is below the ratio, rejected when above
            # (the boundary u == ratio has probability zero and is left open)
            out.append(discharge(f"{tag}/ensures.worse_accepted_iff_draw_below_ratio/{ptag}", hy,
                                 z3.Implies(E1 > E0, z3.And(z3.Implies(u * E1 < ACC * E0, rt), z3.Implies(u * E1 > ACC * E0, z3.Not(rt)))),
                                 backends=("z3", "nlsat"), cex_builder=_cex_acc, timeout_ms=20000))
        else:
            out.append(discharge(f"{tag}/ensures.one_draw_when_worse/{ptag}", hy, z3.Not(E1 > E0), backends=("z3",),
                                 cex_builder=_cex_acc))
        out.append(core.must_fail(f"{tag}/guard.must-fail/{ptag}", hy, z3.Not(rt)))
    # default acceptance factor of the real signature is 0.01 (the statement's probability 0.01*E_held/E_new)
    d = inspect.signature(B.accept_metropolis).parameters["acceptance"].default
    out.append(ob(f"{tag}/ensures.default_acceptance_is_0.01", "discharged" if d == 0.01 else "refuted", engine="symrun",
                  backend="signature", reason=f"default acceptance = {d!r}",
                  cex=None if d == 0.01 else {"fn": "accept_default", "signature": "default-acceptance"}))
    return out


# ===========================================================================
# _minimize_molecules  (pyvc)

Conf = z3.DeclareSort("Conf")
Vec = z3.DeclareSort("Vec3")
Mat = z3.DeclareSort("Mat3")
Chi2F = z3.Function("Chi2", Conf, z3.RealSort())
ConfAdd = z3.Function("conf_add_vec", Conf, Vec, Conf)          # rows + v
ConfSub = z3.Function("conf_sub_vec", Conf, Vec, Conf)          # rows - v
ConfDot = z3.Function("conf_dot_mat", Conf, Mat, Conf)          # rows . M
MeanF = z3.Function("mean_rows", Conf, Vec)
RotM = z3.Function("rotation_matrix", Vec, z3.RealSort(), Mat)
MoveF = z3.Function("move_mol_atom", Conf, z3.IntSort(), Conf)  # second argument: the random choices of that call
NonZero = z3.Function("nonzero", Vec, z3.BoolSort())
IsRot = z3.Function("is_rotation", Mat, z3.BoolSort())
InSim = z3.Function("in_sim_type", z3.RealSort(), z3.BoolSort())


class SymConf:
    def __init__(self, t):
        self.t = t

    def pyvc_copy(self):
        return self

    def pyvc_fresh_like(self, interp, name):
        interp.n_fresh += 1
        return SymConf(z3.Const(f"{name}!{interp.n_fresh}", Conf))

    def pyvc_inplace(self, interp, st, op, r, line):
        interp.oblige(st, f"frame.no-inplace-update-of-configuration@L{line}", z3.BoolVal(False),
                      {"why": "augmented assignment on an array that may alias the caller's input / the held configuration"})

    def __add__(self, o):
        if isinstance(o, SymVec):
            return SymConf(ConfAdd(self.t, o.t))
        return NotImplemented

    def __sub__(self, o):
        if isinstance(o, SymVec):
            return SymConf(ConfSub(self.t, o.t))
        return NotImplemented


class SymVec:
    def __init__(self, t):
        self.t = t

    def pyvc_copy(self):
        return self

    def pyvc_fresh_like(self, interp, name):
        interp.n_fresh += 1
        return SymVec(z3.Const(f"{name}!{interp.n_fresh}", Vec))


class SymMat:
    def __init__(self, t):
        self.t = t

    def pyvc_copy(self):
        return self

    def pyvc_fresh_like(self, interp, name):
        interp.n_fresh += 1
        return SymMat(z3.Const(f"{name}!{interp.n_fresh}", Mat))


class Opaque:
    def __init__(self, name):
        self.name = name

    def pyvc_copy(self):
        return self

    def __repr__(self):
        return f"<{self.name}>"


class NS:
    def __init__(self, **k):
        self.__dict__.update(k)


def _model(params):
    """contract stubs for every free name the function resolves"""
    P = params

    def chi2calc(interp, st, args, kw, node):
        ok = (len(args) == 3 and not kw and args[0] is P["mol1_positions"] and isinstance(args[1], SymConf)
              and args[1].t.eq(P["mol2_positions"].t) and args[2] is P["restriction"])
        if not ok:
            # which measure is built is not part of C09's statement: a different call shape is simply not modelled
            raise pyvc.PyvcUnsupported("Chi2Calculator constructed with other arguments than (mol1_positions, mol2_positions, restriction)")

        def call(interp2, st2, a, k, n):
            if len(a) != 1 or k or not isinstance(a[0], SymConf):
                raise pyvc.PyvcUnsupported("chi2 functor called with unexpected arguments")
            st2.log.append(("chi2", a[0].t))
            v = Chi2F(a[0].t)
            st2.assume(v >= 0)                 # contract of Chi2Calculator.__call__ (C08: non-negative)
            return S.SymReal(v)
        return Stub("chi2", call)

    def move(interp, st, args, kw, node):
        # "bond-preserving single-atom move": needs the molecule's bond table; the amplitude (sigma_scale) is not in the statement
        ok = len(args) >= 2 and isinstance(args[0], SymConf) and args[1] is P["mol2_bonds_info"]
        interp.oblige(st, f"callsite.move_mol_atom(configuration, mol2_bonds_info, ...)@L{node.lineno}", z3.BoolVal(bool(ok)))
        if not isinstance(args[0], SymConf):
            raise pyvc.PyvcUnsupported("move_mol_atom on a non-configuration")
        rnd = interp.fresh("move_rand", "int")
        st.log.append(("move", args[0].t, rnd))
        return SymConf(MoveF(args[0].t, rnd))

    def accept(interp, st, args, kw, node):
        if len(args) != 2 or kw:
            interp.oblige(st, f"callsite.accept_metropolis(e_held, e_new) uses the default acceptance@L{node.lineno}", z3.BoolVal(False))
        e0, e1 = S._num(args[0]), S._num(args[1])
        interp.n_fresh += 1
        acc = z3.Bool(f"accepted!{interp.n_fresh}")
        st.assume(z3.Implies(e1 <= e0, acc))                     # proved contract of accept_metropolis
        st.log.append(("accept", e0, e1, acc))
        # ghost update, from the property statement (not from the code):
        g = st.ghost
        prop_conf = [ev[1] for ev in st.log if ev[0] == "chi2"]
        if not prop_conf:
            raise pyvc.PyvcUnsupported("acceptance call before any proposal was evaluated")
        new = prop_conf[-1]
        new_e = Chi2F(new)
        newlow = z3.And(acc, new_e < g["lowest"])
        g["since"] = z3.If(newlow, z3.IntVal(0), g["since"] + 1)
        g["lowest"] = z3.If(newlow, new_e, g["lowest"])
        g["held"] = z3.If(acc, new, g["held"])
        return S.SymBool(acc)

    def mean(interp, st, args, kw, node):
        if len(args) != 1 or kw != {"axis": 0} or not isinstance(args[0], SymConf):
            raise pyvc.PyvcUnsupported("np.mean call shape")
        return SymVec(MeanF(args[0].t))

    def dot(interp, st, args, kw, node):
        if len(args) == 2 and isinstance(args[0], SymConf) and isinstance(args[1], SymMat):
            return SymConf(ConfDot(args[0].t, args[1].t))
        raise pyvc.PyvcUnsupported("np.dot call shape")

    def uniform(interp, st, args, kw, node):
        if len(args) == 3 and args[2] == 3 and args[0] == -1 and args[1] == 1:
            interp.n_fresh += 1
            v = z3.Const(f"uniform3!{interp.n_fresh}", Vec)
            st.assume(NonZero(v))              # A7
            st.log.append(("uniform3", v))
            return SymVec(v)
        raise pyvc.PyvcUnsupported("np.random.uniform call shape")

    def normal(interp, st, args, kw, node):
        if len(args) == 3 and args[2] == 3:
            # the width of the translation distribution is not part of the statement: not checked
            interp.n_fresh += 1
            v = z3.Const(f"normal3!{interp.n_fresh}", Vec)
            st.log.append(("normal3", v))
            return SymVec(v)
        if len(args) == 2:
            r = interp.fresh("normal1")
            st.log.append(("normal1", r))
            return S.SymReal(r)
        raise pyvc.PyvcUnsupported("np.random.normal call shape")

    def choice(interp, st, args, kw, node):
        if not (len(args) == 1 and args[0] is P["sim_type"] and not kw):
            raise pyvc.PyvcUnsupported("deformation type not drawn with choice(sim_type): not modelled")
        c = interp.fresh("change", "int")
        st.assume(InSim(z3.ToReal(c)))
        st.log.append(("choice", c))
        return S.SymReal(c)

    def rotm(interp, st, args, kw, node):
        if len(args) != 2 or kw or not isinstance(args[0], SymVec):
            raise pyvc.PyvcUnsupported("rotation_matrix call shape")
        interp.oblige(st, f"callsite.rotation_matrix.requires(axis != 0)@L{node.lineno}", NonZero(args[0].t))
        m = RotM(args[0].t, S._num(args[1]))
        st.assume(IsRot(m))                    # proved contract of rotation_matrix (C17)
        st.log.append(("rotm", m))
        return SymMat(m)

    PI = z3.Real("pi")

    def isclose(interp, st, args, kw, node):
        # numpy.isclose(a, b) for finite scalars with the default tolerances: |a - b| <= atol + rtol*|b|
        if len(args) != 2 or (set(kw) - {"rtol", "atol"}) or any(not isinstance(v, (int, float)) for v in kw.values()):
            raise pyvc.PyvcUnsupported("np.isclose call shape")
        a_, b_ = S._num(args[0]), S._num(args[1])
        rtol, atol = kw.get("rtol", 1e-5), kw.get("atol", 1e-8)
        ab = lambda t: z3.If(t >= 0, t, -t)
        return S.SymBool(ab(a_ - b_) <= z3.RealVal(repr(atol)) + z3.RealVal(repr(rtol)) * ab(b_))

    np_ns = NS(mean=Stub("mean", mean), dot=Stub("dot", dot), pi=S.SymReal(PI), isclose=Stub("isclose", isclose),
               random=NS(uniform=Stub("uniform", uniform), normal=Stub("normal", normal), choice=Stub("choice", choice)))
    return {
        "Chi2Calculator": Stub("Chi2Calculator", chi2calc), "move_mol_atom": Stub("move_mol_atom", move),
        "accept_metropolis": Stub("accept_metropolis", accept), "rotation_matrix": Stub("rotation_matrix", rotm),
        "np": np_ns, "sys": NS(stdout=pyvc.Noop()),
    }


def _params():
    return {
        "mol1_positions": Opaque("mol1_positions"),
        "mol2_positions": SymConf(z3.Const("mol2_positions0", Conf)),
        "mol2_com": SymVec(z3.Const("mol2_com0", Vec)),
        "sigma_scale": Opaque("sigma_scale"),
        "n_steps": S.SymReal(z3.Int("n_steps")),
        "restriction": Opaque("restriction"),
        "mol2_bonds_info": Opaque("mol2_bonds_info"),
        "displacement_module": Opaque("displacement_module"),
        "sim_type": Opaque("sim_type"),
    }


def _num(v):
    return S._num(v)


def _inv(params):
    NS_ = z3.Int("n_steps")

    def inv(st: St):
        e = st.env
        need = ("chi2", "chi2_min", "counter", "mol2_positions")
        for n in need:
            if pyvc.local(st, n, SymConf if n == "mol2_positions" else None) is pyvc.UNBOUND:
                return z3.BoolVal(False)
        g = st.ghost
        return z3.And(_num(e["chi2"]) == Chi2F(e["mol2_positions"].t),
                      e["mol2_positions"].t == g["held"],
                      _num(e["chi2_min"]) == g["lowest"],
                      _num(e["counter"]) == z3.ToReal(g["since"]),
                      g["since"] >= 0, g["since"] <= NS_)
    return inv


def _step_post(params):
    def post(interp, start: St, end: St):
        """transition postconditions of one loop iteration, from the statement"""
        out = []
        held = start.env["mol2_positions"].t
        e_held = Chi2F(held)
        accepts = [ev for ev in end.log if ev[0] == "accept"]
        chis = [ev for ev in end.log if ev[0] == "chi2"]
        out.append(("exactly_one_acceptance_decision", z3.BoolVal(len(accepts) == 1)))
        if len(accepts) != 1 or not chis:
            return out
        _, e0, e1, acc = accepts[0]
        prop = chis[-1][1]
        out.append(("judged_against_held_measure", e0 == e_held))
        out.append(("proposal_measure_is_of_the_proposal", e1 == Chi2F(prop)))
        # proposal shape, restricted to enabled types
        alts = []
        for ev in end.log:
            if ev[0] == "normal3":
                alts.append(z3.And(InSim(0), prop == ConfAdd(held, ev[1])))
            if ev[0] == "rotm":
                c = MeanF(held)
                alts.append(z3.And(InSim(1), IsRot(ev[1]), prop == ConfAdd(ConfDot(ConfSub(held, c), ev[1]), c)))
            if ev[0] == "move":
                alts.append(z3.And(InSim(2), prop == MoveF(held, ev[2])))
        out.append(("proposal_is_enabled_move_of_held", z3.Or(*alts) if alts else z3.BoolVal(False)))
        new_conf = end.env["mol2_positions"]
        if not isinstance(new_conf, SymConf) or end.env.get("chi2") is pyvc.UNBOUND:
            out.append(("state_well_formed", z3.BoolVal(False)))
            return out
        out.append(("accepted_takes_proposal", z3.Implies(acc, z3.And(new_conf.t == prop, _num(end.env["chi2"]) == Chi2F(prop)))))
        out.append(("rejected_leaves_held_unchanged", z3.Implies(z3.Not(acc), z3.And(new_conf.t == held,
                                                                                 _num(end.env["chi2"]) == e_held))))
        lowest0 = start.ghost["lowest"]
        since0 = start.ghost["since"]
        newlow = z3.And(acc, Chi2F(prop) < lowest0)
        out.append(("counter_resets_iff_new_lowest", _num(end.env["counter"]) ==
                    z3.If(newlow, z3.RealVal(0), z3.ToReal(since0) + 1)))
        return out
    return post


def _cex_loop(name):
    return {"fn": "_minimize_molecules", "obligation": name, "signature": name.split("/")[-1]}


def _discharge_obls(interp, out, seed):
    for o in interp.obls:
        v = discharge(o.name, o.hyps, o.goal, backends=("z3",), engine="pyvc", timeout_ms=20000, seed=seed,
                      sample={"goal": core.short(o.goal, 160), "n_hyps": len(o.hyps), **{k: v for k, v in o.meta.items() if k in ("line", "why")}})
        if v["status"] == "refuted":
            v["cex"] = _cex_loop(o.name)
        out.append(v)


def task_loop(seed):
    out = []
    tag = f"{PROP}/_minimize_molecules"
    P = _params()
    try:
        spec = LoopSpec(_inv(P), ghosts=("held", "lowest", "since"), step_post=_step_post(P), name="search-loop")
        it = pyvc.Interp(REL, "_minimize_molecules", _model(P), {0: spec}, tag)
        NS_ = z3.Int("n_steps")
        ghost = {"held": P["mol2_positions"].t, "lowest": Chi2F(P["mol2_positions"].t), "since": z3.IntVal(0)}
        # precondition: step budget >= 0; enabled deformation types within {0,1,2}
        x = z3.Real("x")
        pre = [NS_ >= 0, z3.ForAll([x], z3.Implies(InSim(x), z3.Or(x == 0, x == 1, x == 2)))]
        ends = it.run(dict(P), ghost=ghost, pre=pre)
    except pyvc.PyvcUnsupported as e:
        return [ob(f"{tag}/vc-generation", "undecided", engine="pyvc", reason=f"outside the pyvc subset: {e}")]
    rets = [e for e in ends if e.sig == pyvc.RETURN]
    out.append(ob(f"{tag}/vc-generation", "discharged" if rets and it.obls else "undecided", engine="pyvc", backend="ast",
                  reason=f"{len(it.obls)} obligations, {len(ends)} exit paths, {it.n_loops} loops",
                  sample={"obligations": len(it.obls), "exit_paths": len(ends), "source": it.path}))
    _discharge_obls(it, out, seed)
    for i, e in enumerate(ends):
        if e.sig == pyvc.RAISE:
            continue     # unbound-local paths are already obligations
        hy = e.pc
        val = e.val
        ok_t = isinstance(val, SymConf)
        goal = (val.t == e.ghost["held"]) if ok_t else z3.BoolVal(False)
        v = discharge(f"{tag}/exit{i}/ensures.returns_last_accepted_configuration", hy, goal, backends=("z3",), engine="pyvc")
        if v["status"] == "refuted":
            v["cex"] = _cex_loop("returns_last_accepted_configuration")
        out.append(v)
        v = discharge(f"{tag}/exit{i}/ensures.stops_exactly_after_n_steps_without_new_lowest", hy,
                      e.ghost["since"] == NS_, backends=("z3",), engine="pyvc")
        if v["status"] == "refuted":
            v["cex"] = _cex_loop("stops_exactly")
        out.append(v)
        out.append(core.must_fail(f"{tag}/exit{i}/guard.must-fail", hy, e.ghost["since"] == NS_ + 1, engine="pyvc"))
        m = core.get_model(hy, timeout_ms=5000)
        out.append(ob(f"{tag}/exit{i}/guard.path-satisfiable", "discharged" if m is not None else "undecided", kind="guard",
                      engine="pyvc", backend="z3", expect="discharged"))
    return out


def task_wrapper(seed):
    """minimize_molecules forwards its parameters, in order, to _minimize_molecules"""
    tag = f"{PROP}/minimize_molecules"
    names = ["mol1_positions", "mol2_positions", "mol2_com", "sigma_scale", "n_steps", "restriction",
             "mol2_bonds_info", "displacement_module", "sim_type"]
    P = {n: Opaque(n) for n in names}
    RES = Opaque("result")
    seen = {}

    def inner(interp, st, args, kw, node):
        ok = len(args) + len(kw) == 9 and all((args[i] if i < len(args) else kw.get(n)) is P[n] for i, n in enumerate(names))
        seen["ok"] = ok
        interp.oblige(st, "callsite._minimize_molecules receives the nine parameters in declared order", z3.BoolVal(bool(ok)))
        return RES

    def backend_installed(interp, st, args, kw, node):
        return False

    try:
        real_sig = list(inspect.signature(_backend()._minimize_molecules).parameters)
        it = pyvc.Interp(REL, "minimize_molecules", {"check_backend_installed": Stub("cbi", backend_installed),
                                                     "_minimize_molecules": Stub("inner", inner), "np": NS()}, {}, tag)
        ends = it.run(dict(P))
    except pyvc.PyvcUnsupported as e:
        return [ob(f"{tag}/vc-generation", "undecided", engine="pyvc", reason=str(e))]
    out = []
    out.append(ob(f"{tag}/signature_matches__minimize_molecules", "discharged" if real_sig == names else "refuted",
                  engine="pyvc", backend="signature", reason=f"{real_sig}",
                  cex=None if real_sig == names else _cex_loop("wrapper-signature")))
    _discharge_obls(it, out, seed)
    for i, e in enumerate(ends):
        good = e.sig == pyvc.RETURN and e.val is RES
        out.append(ob(f"{tag}/exit{i}/ensures.returns_result_of_python_engine", "discharged" if good else "refuted",
                      engine="pyvc", backend="ast", cex=None if good else _cex_loop("wrapper-return")))
    return out


# ===========================================================================
# bounded twin: the same contract monitored on the real loop


class Monitor:
    def __init__(self, B):
        self.B = B
        self.events = []

    def install(self):
        B, mon = self.B, self
        RealChi, real_acc, real_move = B.Chi2Calculator, B.accept_metropolis, B.move_mol_atom

        class Chi(RealChi):
            def __init__(self, *a, **k):
                self._ctor = (a, k)
                RealChi.__init__(self, *a, **k)

            def __call__(self, conf):
                v = RealChi.__call__(self, conf)
                # "judged against the overlap measure of the configuration": the value the search sees must be the measure of
                # this configuration, i.e. what a freshly built calculator (same fixed molecule and restraints) gives for it
                fresh = float(RealChi(*self._ctor[0], **self._ctor[1])(np.array(conf, dtype=float).copy()))
                mon.events.append(("chi2", np.array(conf, dtype=float).copy(), float(v), conf, fresh))
                return v

        def acc(*a, **k):
            r = real_acc(*a, **k)
            mon.events.append(("accept", a, k, bool(r)))
            return r

        def move(*a, **k):
            r = real_move(*a, **k)
            mon.events.append(("move", np.array(a[0], dtype=float).copy(), np.array(r, dtype=float).copy(), a, k))
            return r
        return S.patched(B, Chi2Calculator=Chi, accept_metropolis=acc, move_mol_atom=move)


def _pairdist(x):
    d = x[:, None, :] - x[None, :, :]
    return np.sqrt((d * d).sum(-1))


def _judge(ev, out, case, bonds, mol2, mol2_in):
    bad = []
    if not np.array_equal(mol2, mol2_in):
        bad.append("caller's mol2_positions array was modified")
    if not ev or ev[0][0] != "chi2":
        return ["no initial chi2 evaluation"], 0
    held, e_held = ev[0][1], ev[0][2]
    lowest, since = e_held, 0
    i = 1
    pending_move = None
    last_prop = None
    n_iter = 0
    while i < len(ev):
        e = ev[i]
        if e[0] == "move":
            pending_move = e
            if not np.allclose(e[1], held, atol=1e-12):
                bad.append("move_mol_atom applied to a configuration that is not the held one")
            if len(e[3]) < 2 or e[3][1] is not bonds:
                bad.append("move_mol_atom not called with the mobile molecule's bond table")
        elif e[0] == "chi2":
            last_prop = e
            if len(e) > 4 and abs(e[2] - e[4]) > 1e-9 * max(1.0, abs(e[4])):
                bad.append(f"the search was given {e[2]!r} as the measure of a configuration whose measure (fresh calculator) is {e[4]!r}")
        elif e[0] == "accept":
            n_iter += 1
            if since >= case["n_steps"]:
                bad.append(f"step taken although {since} consecutive steps had elapsed without a new lowest (budget {case['n_steps']})")
            a, k, acc = e[1], e[2], e[3]
            if k or len(a) != 2:
                bad.append("acceptance not called with the default factor")
            if last_prop is None:
                bad.append("acceptance before proposal")
                break
            prop, e_new = last_prop[1], last_prop[2]
            if abs(float(a[0]) - e_held) > 1e-9 * max(1, abs(e_held)):
                bad.append(f"proposal judged against {float(a[0])!r}, measure of the held configuration is {e_held!r}")
            if abs(float(a[1]) - e_new) > 1e-9 * max(1, abs(e_new)):
                bad.append("second acceptance argument is not the measure of the proposal")
            if e_new <= e_held and not acc:
                bad.append("proposal with equal or lower measure rejected")
            # proposal shape
            kind = None
            if pending_move is not None and np.allclose(pending_move[2], prop, atol=1e-12):
                kind = 2
            else:
                dlt = prop - held
                if np.allclose(dlt, dlt[0], atol=1e-9):
                    kind = 0
                elif (np.allclose(_pairdist(prop), _pairdist(held), atol=1e-8)
                      and np.allclose(prop.mean(axis=0), held.mean(axis=0), atol=1e-8)):
                    kind = 1
            if kind is None:
                bad.append("proposal is neither a translation, a rotation about the centroid nor a single-atom move of the held configuration")
            elif kind not in case["sim"] and not (kind == 0 and np.allclose(prop, held)):
                bad.append(f"deformation type {kind} used although only {case['sim']} are enabled")
            if acc:
                held, e_held = prop, e_new
                if e_new < lowest:
                    lowest, since = e_new, 0
                else:
                    since += 1
            else:
                since += 1
            pending_move, last_prop = None, None
        i += 1
    if since != case["n_steps"]:
        bad.append(f"search stopped after {since} consecutive steps without a new lowest, prescribed {case['n_steps']}")
    if not np.allclose(np.asarray(out, dtype=float), held, atol=0):
        bad.append("returned configuration is not the last accepted one")
    return bad, n_iter


def run_monitored(case):
    """Runs the real _minimize_molecules under the monitor and evaluates the contract.
    Returns a list of violated clause descriptions."""
    B = _backend()
    rng = np.random.default_rng(case["geom_seed"])
    n1, n2 = case["n1"], case["n2"]
    mol1 = rng.normal(size=(n1, 3))
    mol2 = rng.normal(size=(n2, 3)) * 0.5
    bonds = {i: [] for i in range(n2)}
    for i in range(1, n2):
        j = int(rng.integers(0, i))
        L = float(np.linalg.norm(mol2[i] - mol2[j]))
        bonds[i].append((j, L))
        bonds[j].append((i, L))
    restr = [tuple(r) for r in case["restr"]]
    mon = Monitor(B)
    mol2_in = mol2.copy()
    np.random.seed(case["seed"])
    with mon.install(), contextlib.redirect_stdout(io.StringIO()):
        out = B._minimize_molecules(mol1, mol2, mol2.mean(axis=0) + 5.0, 0.5, case["n_steps"], restr, bonds, 0.3,
                                    tuple(case["sim"]))
    return _judge(mon.events, out, case, bonds, mol2, mol2_in)


# ---- scripted twin: the real loop with its callees replaced by *scripted* contract-conforming behaviours.
# Energies come from a small set and worse proposals are accepted or not by script, so that exact ties
# (equal measures, returns to the lowest value) -- which floating-point geometry never produces -- are covered.
# Every choice sequence up to the depth bound is enumerated (exhaustive within the bound).


class _Abort(Exception):
    pass


def run_scripted(script, n_steps, sim, energies=(1.0, 2.0)):
    """script: list of ints consumed at choice points.  Returns (violations, choices_used, exhausted)"""
    B = _backend()
    pos = [0]
    arity = []

    def choose(k):
        if pos[0] >= len(script):
            arity.append(k)
            raise _Abort()
        v = script[pos[0]]
        pos[0] += 1
        arity.append(k)
        return v % k

    events = []
    memo = {}

    class Chi:
        def __init__(self, m1, m2, restr=None):
            pass

        def __call__(self, conf):
            key = np.asarray(conf, dtype=float).tobytes()
            if key not in memo:
                memo[key] = energies[choose(len(energies))]
            events.append(("chi2", np.array(conf, dtype=float).copy(), memo[key], conf))
            return memo[key]

    def acc(*a, **k):
        e0, e1 = a[0], a[1]
        r = True if e1 <= e0 else bool(choose(2))
        events.append(("accept", a, k, r))
        return r

    real_move = B.move_mol_atom

    def move(*a, **k):
        r = real_move(*a, **k)
        events.append(("move", np.array(a[0], dtype=float).copy(), np.array(r, dtype=float).copy(), a, k))
        return r

    mol1 = np.zeros((2, 3))
    mol2 = np.array([[0.0, 0, 0], [1.0, 0, 0], [1.0, 1.0, 0]])
    bonds = {0: [(1, 1.0)], 1: [(0, 1.0), (2, 1.0)], 2: [(1, 1.0)]}
    np.random.seed(12345)
    case = {"n_steps": n_steps, "sim": list(sim)}
    try:
        with S.patched(B, Chi2Calculator=Chi, accept_metropolis=acc, move_mol_atom=move), contextlib.redirect_stdout(io.StringIO()):
            out = B._minimize_molecules(mol1, mol2, np.zeros(3) + 9.0, 0.5, n_steps, [], bonds, 0.3, tuple(sim))
    except _Abort:
        return None, arity, True
    bad, n_iter = _judge(events, out, case, bonds, mol2, mol2.copy())
    return bad, arity, False


def scripted_enumerate(n_steps, sim, depth, energies=(1.0, 2.0)):
    """all scripts up to `depth` choices; returns (runs, first failing (script, violations) or None)"""
    runs, first = 0, None
    stack = [[]]
    while stack:
        sc = stack.pop()
        bad, arity, aborted = run_scripted(sc, n_steps, sim, energies)
        if aborted:
            if len(sc) < depth:
                k = arity[len(sc)]
                for v in range(k):
                    stack.append(sc + [v])
            continue
        runs += 1
        if bad and first is None:
            first = (sc, bad)
    return runs, first


def task_scripted(tier, seed):
    tag = f"{PROP}/_minimize_molecules/bounded.scripted-callees"
    out = []
    depth = 9 if tier == "quick" else 12
    for sim in ((0,), (1,), (2,), (0, 1, 2)):
        for n_steps in (1, 2, 3):
            runs, first = scripted_enumerate(n_steps, sim, depth)
            oid = f"{tag}/sim{''.join(map(str, sim))}/n_steps{n_steps}"
            if first:
                sc, bad = first
                out.append(ob(oid, "refuted", kind="bounded", engine="smallscope", backend="runtime-contract", evaluations=runs,
                              reason="; ".join(bad[:3]), cex={"fn": "scripted", "script": sc, "n_steps": n_steps, "sim": list(sim),
                                                               "signature": bad[0][:60]}))
            else:
                out.append(ob(oid, "discharged", kind="bounded", engine="smallscope", backend="runtime-contract", evaluations=runs,
                              sample={"n_steps": n_steps, "sim": list(sim), "choice_depth": depth, "complete_runs": runs}))
    # near ties: a measure lower by one part in 1e7 IS a new lowest measure (and one higher by as little is worse) -- three energy levels
    depth3 = 7 if tier == "quick" else 9
    for sim in ((0,), (0, 1, 2)):
        for n_steps in (1, 2):
            runs, first = scripted_enumerate(n_steps, sim, depth3, NEAR_TIE_ENERGIES)
            oid = f"{tag}/near-tie-measures/sim{''.join(map(str, sim))}/n_steps{n_steps}"
            if first:
                sc, bad = first
                out.append(ob(oid, "refuted", kind="bounded", engine="smallscope", backend="runtime-contract", evaluations=runs,
                              reason="; ".join(bad[:3]), cex={"fn": "scripted", "script": sc, "n_steps": n_steps, "sim": list(sim),
                                                               "energies": list(NEAR_TIE_ENERGIES), "signature": "near-tie:" + bad[0][:50]}))
            else:
                out.append(ob(oid, "discharged", kind="bounded", engine="smallscope", backend="runtime-contract", evaluations=runs,
                              sample={"n_steps": n_steps, "sim": list(sim), "choice_depth": depth3, "complete_runs": runs, "energies": list(NEAR_TIE_ENERGIES)}))
    return out


NEAR_TIE_ENERGIES = (1.0, 1.0 - 1e-7, 2.0)


def _twin_cases(tier, seed):
    cases = []
    subsets = [s for r in (1, 2, 3) for s in itertools.combinations((0, 1, 2), r)]
    budgets = (1, 2, 3, 7, 25) if tier == "quick" else (1, 2, 3, 5, 7, 25, 60, 200)
    seeds = range(3) if tier == "quick" else range(12)
    for sim in subsets:
        for ns in budgets:
            for sd in seeds:
                for (n1, n2, restr) in ((4, 3, []), (3, 4, [(0, 1)]), (5, 4, [(1, 2)]), (2, 2, [(0, 0), (1, 1)])):
                    cases.append({"sim": list(sim), "n_steps": ns, "seed": 1000 * seed + sd, "geom_seed": 7 + sd + seed,
                                  "n1": n1, "n2": n2, "restr": [list(r) for r in restr]})
    return cases


def task_twin(tier, seed, part, nparts):
    cases = _twin_cases(tier, seed)[part::nparts]
    tag = f"{PROP}/_minimize_molecules/bounded.monitored-real-loop"
    first, nbad, iters = None, 0, 0
    for c in cases:
        try:
            bad, n_iter = run_monitored(c)
        except Exception as e:      # the real loop raised
            bad, n_iter = [f"raises {type(e).__name__}: {e}"], 0
        iters += n_iter
        if bad:
            nbad += 1
            first = first or (c, bad)
    if first:
        c, bad = first
        return [ob(f"{tag}/part{part}", "refuted", kind="bounded", engine="smallscope", backend="runtime-contract",
                   evaluations=len(cases), nontrivial=iters, reason=f"{nbad}/{len(cases)} runs violate the contract; first: " + "; ".join(bad[:3]),
                   cex={"fn": "twin", "case": c, "signature": bad[0][:60]}, sample=c)]
    return [ob(f"{tag}/part{part}", "discharged", kind="bounded", engine="smallscope", backend="runtime-contract",
               evaluations=len(cases), nontrivial=iters, sample=cases[0] if cases else None)]


def task_twin_accept(tier, seed):
    """numeric twin of the accept_metropolis contract, incl. the boundary energies"""
    B = _backend()
    tag = f"{PROP}/accept_metropolis/bounded.numeric"
    vals = [0.0, 1e-300, 1e-12, 0.5, 1.0, 40.0, 50.0, 1e12]
    n, first = 0, None
    for e0 in vals:
        for e1 in vals:
            for typ in (float, np.float64):
                for u in (0.0, 0.004, 0.0099999, 0.5, 0.999999):
                    n += 1
                    bad = _accept_numeric(B, typ(e0), typ(e1), u)
                    if bad and first is None:
                        first = ({"fn": "accept_metropolis", "e0": e0, "e1": e1, "u": u, "acceptance": 0.01,
                                  "type": typ.__name__, "signature": "equal" if e0 == e1 else ("lower" if e1 < e0 else "worse")}, bad)
    if first:
        return [ob(tag, "refuted", kind="bounded", engine="smallscope", backend="runtime-contract", evaluations=n,
                   reason=first[1], cex=first[0])]
    return [ob(tag, "discharged", kind="bounded", engine="smallscope", backend="runtime-contract", evaluations=n,
               sample={"e0": 0.0, "e1": 0.0})]


def _accept_numeric(B, e0, e1, u, acceptance=None):
    class R:
        calls = 0

        @staticmethod
        def rand(*a):
            R.calls += 1
            return u
    fac = S.NumpyFacade(extra={"random": R})
    try:
        with S.patched(B, np=fac), np.errstate(all="ignore"):
            r = B.accept_metropolis(e0, e1) if acceptance is None else B.accept_metropolis(e0, e1, acceptance)
    except Exception as e:
        return f"accept_metropolis({e0!r}, {e1!r}) raises {type(e).__name__}: {e}"
    acc = 0.01 if acceptance is None else acceptance
    if e1 <= e0:
        if not r:
            return f"accept_metropolis({e0!r}, {e1!r}) = {r!r}: equal or lower measure must be accepted"
        return None
    ratio = acc * (float(e0) / float(e1))
    if u == ratio:
        return None
    expect = u < ratio
    if bool(r) != expect:
        return f"accept_metropolis({e0!r}, {e1!r}) with draw {u} = {r!r}, rule gives {expect}"
    return None


# ===========================================================================


def tasks(prop, tier, seed):
    t = [("accept_metropolis/symrun", task_accept, (seed,), 300.0),
         ("_minimize_molecules/pyvc", task_loop, (seed,), 600.0),
         ("minimize_molecules/pyvc", task_wrapper, (seed,), 300.0),
         ("accept_metropolis/numeric", task_twin_accept, (tier, seed), 300.0)]
    t.append(("_minimize_molecules/scripted", task_scripted, (tier, seed), 900.0))
    nparts = 12
    for p in range(nparts):
        t.append((f"_minimize_molecules/twin{p}", task_twin, (tier, seed, p, nparts), 900.0))
    return t


def replay(prop, cex):
    B = _backend()
    if cex.get("fn") == "accept_metropolis":
        typ = np.float64 if cex.get("type") == "float64" else float
        bad = _accept_numeric(B, typ(cex["e0"]), typ(cex["e1"]), cex.get("u", 0.5), cex.get("acceptance"))
        if bad is None and typ is float:
            bad = _accept_numeric(B, np.float64(cex["e0"]), np.float64(cex["e1"]), cex.get("u", 0.5), cex.get("acceptance"))
        return {"reproduced": bad is not None, "observed": bad, "inputs": cex}
    if cex.get("fn") == "accept_default":
        bad = _accept_numeric(B, 40.0, 50.0, 0.0099999)
        return {"reproduced": bad is not None, "observed": bad, "inputs": {"e0": 40.0, "e1": 50.0, "u": 0.0099999}}
    if cex.get("fn") == "twin":
        try:
            bad, _ = run_monitored(cex["case"])
        except Exception as e:
            bad = [f"raises {type(e).__name__}: {e}"]
        return {"reproduced": bool(bad), "observed": bad[:5], "inputs": cex}
    if cex.get("fn") == "scripted":
        bad, _, aborted = run_scripted(cex["script"], cex["n_steps"], cex["sim"], tuple(cex.get("energies") or (1.0, 2.0)))
        return {"reproduced": bool(bad), "observed": (bad or [])[:5], "inputs": cex}
    # a failed proof obligation of the loop: search the real loop (scripted callees, then monitored) for a failing run
    for sim in ((0,), (1,), (2,), (0, 1, 2)):
        for n_steps in (1, 2, 3):
            runs, first = scripted_enumerate(n_steps, sim, 8)
            if first:
                return {"reproduced": True, "observed": first[1][:5],
                        "inputs": {"fn": "scripted", "script": first[0], "n_steps": n_steps, "sim": list(sim)},
                        "note": f"failed obligation {cex.get('obligation')} manifests on the real loop run with scripted callees"}
    for c in _twin_cases("quick", 0):
        try:
            bad, _ = run_monitored(c)
        except Exception as e:
            bad = [f"raises {type(e).__name__}: {e}"]
        if bad:
            return {"reproduced": True, "observed": bad[:5], "inputs": {"fn": "twin", "case": c},
                    "note": f"failed obligation {cex.get('obligation')} manifests on the monitored real loop"}
    return {"reproduced": False, "note": f"obligation {cex.get('obligation')} failed; no failing run of the real loop found in the bounded scope",
            "inputs": cex}
