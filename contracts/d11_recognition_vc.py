"""Deductive part of C11 (recognition of molecule instances): pyvc on the AST of the real scanning loop.

System._find_all_molecules_and_replace(pattern, species, start)  -- the `while` loop that walks the array of residue kinds of the
coordinate file, counts every run equal to the species' residue pattern into blocks [species, first residue, count] and overwrites the
recognised residues with -1.  For residue arrays of ANY length and content, any earlier blocks and any start position, and for every
pattern length 1..3 (quick) / 1..5 (thorough) [structure bound: the pattern length is concrete so that `run == pattern` is a finite
conjunction]:
  soundness     every counted instance covers residues that equalled the pattern in the array as it was on entry, instances of one block
                abut, blocks are disjoint and in file order, and their residues are now -1;
  completeness  on return no run equal to the pattern is left anywhere from the start position on (nothing present is missed);
  frame         residues outside recognised instances and blocks of earlier species are unchanged.
The generator that expands blocks into molecules (System._molecules_ordered_all_gen) is proved separately (d12).

numpy is modelled: the array as a z3 array of symbolic length, `a[i:j] == pattern` + `.all()` as the conjunction over the pattern,
`a[i:j] = -1` as a lambda-update; the list of blocks as three z3 arrays (rows appended, `blocks[-1][2] += 1`).
"""
from __future__ import annotations

import z3

from vf import symrun as S, core, pyvc, seq
from vf.core import ob, discharge
from vf.pyvc import LoopSpec, Stub

I = z3.IntSort()
NA = z3.Int("n_residues_in_file")
AV0 = z3.Array("residue_kinds_on_entry", I, I)
S0 = z3.Int("start_on_entry")
B0 = z3.Int("blocks_on_entry")
SPEC = z3.Int("species_index")
K0 = z3.Array("block_species_on_entry", I, I)
ST0 = z3.Array("block_first_residue_on_entry", I, I)
CN0 = z3.Array("block_count_on_entry", I, I)


def deductive_info():
    return {
        "functions": ["gaddlemaps/components/_system.py::System._find_all_molecules_and_replace (residue arrays of any length and content; pattern length 1..3 quick / 1..5 thorough)"],
        "stubs": ["pyvc models of numpy: 1-D integer array = z3 array + symbolic length; a[i:j] == pattern and .all() = conjunction over the (concrete-length) pattern; "
                  "a[i:j] = -1 = lambda update; list of [species, first residue, count] rows = three z3 arrays with append and rows[-1][2] += 1"],
        "assumptions": ["residue kinds of a species' pattern are >= 0 (they are indices into the table of (residue name, size) kinds; -1 marks recognised residues)",
                        "structure bound: the pattern length is enumerated (1..3 / 1..5); everything else is symbolic"],
        "explanation": ("Deductive: the scanning loop of System._find_all_molecules_and_replace is verified on its AST (soundness, completeness, frame) for residue arrays "
                        "of any length; together with the block generator (d12) this is the arithmetic core of 'exactly one molecule per instance, in file order, disjoint'. "),
    }


def _key(v):
    if isinstance(v, z3.ExprRef):
        return v
    if isinstance(v, int):
        return z3.IntVal(v)
    return seq.SymDict._key(v)


class Pattern:
    def __init__(self, n):
        self.n = n
        self.t = [z3.Int(f"pattern_{i}") for i in range(n)]

    def pyvc_len(self):
        return self.n

    def pyvc_copy(self):
        return self


class EqRes:
    def __init__(self, cond):
        self.cond = cond

    def all(self):
        return S.SymBool(self.cond)
    all.pyvc_pure = True

    def pyvc_copy(self):
        return self


class View:
    def __init__(self, arr, lo, hi):
        self.arr, self.lo, self.hi = arr, lo, hi

    def __eq__(self, other):
        if not isinstance(other, Pattern):
            raise pyvc.PyvcUnsupported("array slice compared with something else than the pattern")
        # numpy: shapes must agree (else the comparison is not element-wise); the loop guard start+l <= len guarantees it -- stated as part of the condition
        return EqRes(z3.And(self.hi - self.lo == other.n, *[z3.Select(self.arr, self.lo + i) == other.t[i] for i in range(other.n)]))

    __hash__ = None

    def pyvc_copy(self):
        return self


class Arr:
    """self._available_mgro_ordered: a 1-D integer numpy array (reference semantics: the local alias IS the attribute)"""

    def __init__(self, a):
        self.a = a

    def pyvc_copy(self):
        return Arr(self.a)

    def pyvc_fresh_like(self, interp, name):
        interp.n_fresh += 1
        return Arr(z3.Array(f"{name}!{interp.n_fresh}", I, I))

    def pyvc_len(self):
        return S.SymReal(NA)

    def pyvc_slice(self, lo, hi, step):
        if step is not None:
            raise pyvc.PyvcUnsupported("strided slice")
        lo, hi = _key(lo), _key(hi)
        return View(self.a, lo, hi)

    def pyvc_setslice(self, lo, hi, step, value, interp, st):
        if step is not None or not (isinstance(value, int) and value == -1):
            raise pyvc.PyvcUnsupported("slice assignment of something else than -1")
        lo, hi = _key(lo), _key(hi)
        interp.oblige(st, "safety.slice-inside-array", z3.And(0 <= lo, hi <= NA))      # numpy would silently clip: the marking must cover the whole run
        x = z3.Int("x!upd")
        self.a = z3.Lambda([x], z3.If(z3.And(lo <= x, x < hi), z3.IntVal(-1), z3.Select(self.a, x)))


class Row:
    def __init__(self, blocks, r):
        self.blocks, self.r = blocks, r

    def pyvc_getitem(self, i, interp, st):
        if i not in (0, 1, 2):
            raise pyvc.PyvcUnsupported("row index")
        return S.SymReal(z3.Select(self.blocks.arrays[i], self.r))

    def pyvc_setitem(self, i, v, interp, st):
        if i not in (0, 1, 2):
            raise pyvc.PyvcUnsupported("row index")
        self.blocks.arrays[i] = z3.Store(self.blocks.arrays[i], self.r, _key(v))

    def pyvc_copy(self):
        return self


class Blocks(seq.SymList):
    def __init__(self, length=None, arrays=None):
        seq.SymList.__init__(self, "_molecules_ordered", [I, I, I], lambda c: [S.SymReal(x) for x in c], lambda x: [_key(v) for v in x], length, arrays)

    def pyvc_copy(self):
        return Blocks(self.length, self.arrays)

    def pyvc_fresh_like(self, interp, name):
        f = seq.SymList.pyvc_fresh_like(self, interp, "blocks")
        return Blocks(f.length, f.arrays)

    def pyvc_getitem(self, i, interp, st):
        if isinstance(i, int) and i == -1:
            interp.oblige(st, "safety.last-block-exists", self.length >= 1)
            return Row(self, self.length - 1)
        raise pyvc.PyvcUnsupported("block list indexed with something else than -1")

    def pyvc_getattr(self, attr, interp, st):
        if attr == "append":
            return Stub("append", lambda it, s_, a, k, n: seq.SymList.append(self, a[0]))
        raise pyvc.PyvcUnsupported(f"list.{attr}")


BL = "attr:_molecules_ordered"


class SelfM:
    def __init__(self, arr):
        self.arr = arr

    def pyvc_copy(self):
        return self

    def pyvc_getattr(self, attr, interp, st):
        if attr == "_available_mgro_ordered":
            return st.ghost["attr:_available_mgro_ordered"]
        if attr == "_molecules_ordered":
            return st.ghost[BL]
        raise pyvc.PyvcUnsupported(f"self.{attr}")


def _match(arr, x, P: Pattern):
    return z3.And(*[z3.Select(arr, x + i) == P.t[i] for i in range(P.n)])


def _invariant(P: Pattern, closed: bool):
    LM = P.n

    def inv(st):
        av = pyvc.local(st, "av_gro", Arr)
        s_, nb = pyvc.local(st, "start_index"), pyvc.local(st, "new_block")
        if av is pyvc.UNBOUND or s_ is pyvc.UNBOUND or nb is pyvc.UNBOUND:
            return z3.BoolVal(False)
        bl = st.ghost[BL]
        s = _key(s_)
        nbt = nb.t if isinstance(nb, S.SymBool) else z3.BoolVal(bool(nb))
        kind, start, count = bl.arrays
        b, i, x = z3.Ints("b!v i!v x!v")
        A = av.a
        last = bl.length - 1
        return z3.And(
            s >= S0, s <= NA, bl.length >= B0,
            # earlier species' blocks untouched
            z3.ForAll([b], z3.Implies(z3.And(0 <= b, b < B0), z3.And(z3.Select(kind, b) == z3.Select(K0, b), z3.Select(start, b) == z3.Select(ST0, b),
                                                                  z3.Select(count, b) == z3.Select(CN0, b)))),
            # the new blocks: this species, at least one instance, inside the scanned part, ordered and separated
            z3.ForAll([b], z3.Implies(z3.And(B0 <= b, b < bl.length),
                                      z3.And(z3.Select(kind, b) == SPEC, z3.Select(count, b) >= 1, z3.Select(start, b) >= S0,
                                             z3.Select(start, b) + z3.Select(count, b) * LM <= s))),
            z3.ForAll([b], z3.Implies(z3.And(B0 <= b, b + 1 < bl.length), z3.Select(start, b) + z3.Select(count, b) * LM < z3.Select(start, b + 1))),
            # every counted instance matched the pattern on entry and is marked now
            z3.ForAll([b, i], z3.Implies(z3.And(B0 <= b, b < bl.length, 0 <= i, i < z3.Select(count, b)),
                                         z3.And(_match(AV0, z3.Select(start, b) + i * LM, P),
                                                *[z3.Select(A, z3.Select(start, b) + i * LM + t) == -1 for t in range(LM)]))),
            # an open block ends exactly here
            z3.Implies(z3.Not(nbt), z3.And(bl.length > B0, z3.Select(start, last) + z3.Select(count, last) * LM == s)),
            # ... and a closed one ends strictly before (a residue that did not match lies between)
            z3.Implies(z3.And(nbt, bl.length > B0), z3.Select(start, last) + z3.Select(count, last) * LM < s),
            # frame and marking
            z3.ForAll([x], z3.Or(z3.Select(A, x) == z3.Select(AV0, x), z3.And(z3.Select(A, x) == -1, S0 <= x, x < s))),
            # nothing that equals the pattern is left behind
            z3.ForAll([x], z3.Implies(z3.And(S0 <= x, x < s, x + LM <= NA), z3.Not(_match(A, x, P)))))
    return inv


def task_scan(prop, seed, LM):
    tag = f"{prop}/System._find_all_molecules_and_replace[pattern length {LM}]"
    P = Pattern(LM)
    inv = _invariant(P, False)
    loops = {0: LoopSpec(inv, ghosts=(BL,), name="scan-loop")}
    pre = [NA >= 0, S0 >= 0, S0 <= NA, B0 >= 0, SPEC >= 0] + [t >= 0 for t in P.t]
    try:
        it = pyvc.Interp("gaddlemaps/components/_system.py", "System._find_all_molecules_and_replace", {}, loops, tag)
        blocks0 = Blocks(B0, [K0, ST0, CN0])
        ends = it.run({"self": SelfM(None), "index_mol_gro": P, "mol_index": S.SymReal(SPEC), "start_index": S.SymReal(S0)},
                      ghost={"attr:_available_mgro_ordered": Arr(AV0), BL: blocks0}, pre=pre)
    except (pyvc.PyvcUnsupported, S.SymError) as e:
        return [ob(f"{tag}/vc-generation", "undecided", engine="pyvc", reason=f"outside the pyvc subset: {type(e).__name__}: {e}")]
    out = [ob(f"{tag}/vc-generation", "discharged" if it.obls and ends else "undecided", engine="pyvc", backend="ast",
              sample={"obligations": len(it.obls), "exit_paths": len(ends)})]
    cex = {"kind": "vc", "fn": "d11:vc", "signature": "scan", "pattern_length": LM}
    for o in it.obls:
        v = discharge(o.name, o.hyps, o.goal, backends=("z3",), engine="pyvc", timeout_ms=20000, seed=seed, sample={"goal": core.short(o.goal, 140)})
        if v["status"] == "refuted":
            v["cex"] = dict(cex, obligation=o.name)
        out.append(v)
    b, i, x = z3.Ints("b!p i!p x!p")
    n = 0
    for ei, e in enumerate(ends):
        if e.sig != pyvc.RETURN:
            out.append(ob(f"{tag}/exit{ei}/no-exception", "undecided", engine="pyvc", reason=f"a path raises {e.val}"))
            continue
        n += 1
        av, bl = e.env.get("av_gro"), e.ghost[BL]
        if not isinstance(av, Arr):
            out.append(ob(f"{tag}/exit{ei}/array-alias", "undecided", engine="pyvc", reason="the array alias is not bound at exit"))
            continue
        kind, start, count = bl.arrays
        A = av.a
        posts = [("every_counted_instance_equalled_the_pattern_on_entry_and_is_marked",
                  z3.ForAll([b, i], z3.Implies(z3.And(B0 <= b, b < bl.length, 0 <= i, i < z3.Select(count, b)),
                                               z3.And(_match(AV0, z3.Select(start, b) + i * LM, P),
                                                      *[z3.Select(A, z3.Select(start, b) + i * LM + t) == -1 for t in range(LM)])))),
                 ("every_block_lies_inside_the_file",
                  z3.ForAll([b], z3.Implies(z3.And(B0 <= b, b < bl.length), z3.And(z3.Select(start, b) >= 0, z3.Select(start, b) + z3.Select(count, b) * LM <= NA)))),
                 ("blocks_of_this_species_are_disjoint_and_in_file_order",
                  z3.And(z3.ForAll([b], z3.Implies(z3.And(B0 <= b, b < bl.length), z3.And(z3.Select(kind, b) == SPEC, z3.Select(count, b) >= 1, z3.Select(start, b) >= S0))),
                         z3.ForAll([b], z3.Implies(z3.And(B0 <= b, b + 1 < bl.length), z3.Select(start, b) + z3.Select(count, b) * LM < z3.Select(start, b + 1))))),
                 ("no_run_equal_to_the_pattern_is_left_from_the_start_position_on",
                  z3.ForAll([x], z3.Implies(z3.And(S0 <= x, x + LM <= NA), z3.Not(_match(A, x, P))))),
                 ("residues_outside_recognised_instances_and_earlier_blocks_unchanged",
                  z3.And(z3.ForAll([x], z3.Or(z3.Select(A, x) == z3.Select(AV0, x), z3.And(z3.Select(A, x) == -1, S0 <= x))),
                         z3.ForAll([b], z3.Implies(z3.And(0 <= b, b < B0), z3.And(z3.Select(kind, b) == z3.Select(K0, b), z3.Select(start, b) == z3.Select(ST0, b),
                                                                               z3.Select(count, b) == z3.Select(CN0, b))))))]
        for name, goal in posts:
            v = discharge(f"{tag}/exit{ei}/ensures.{name}", e.pc, goal, backends=("z3",), engine="pyvc", timeout_ms=20000, seed=seed)
            if v["status"] == "refuted":
                v["cex"] = dict(cex, clause=name)
            out.append(v)
        # vacuity guard: explicit witness  file = [pattern..., 7], one instance recognised
        out.append(_witness(f"{tag}/exit{ei}/guard.hypotheses-satisfiable", e, av, bl, P))
    if not n:
        out.append(ob(f"{tag}/normal-exit-exists", "undecided", engine="pyvc", reason="no normal exit"))
    return out


def _witness(name, e, av, bl, P):
    LM = P.n
    K = lambda v: z3.K(I, z3.IntVal(v))
    file0 = K(7)
    for t in range(LM):
        file0 = z3.Store(file0, t, z3.IntVal(t + 1))
    final = K(7)
    for t in range(LM):
        final = z3.Store(final, t, z3.IntVal(-1))
    consts = {NA: z3.IntVal(LM + 1), S0: z3.IntVal(0), B0: z3.IntVal(0), SPEC: z3.IntVal(0), AV0: file0, K0: K(0), ST0: K(0), CN0: K(0)}
    for t in range(LM):
        consts[P.t[t]] = z3.IntVal(t + 1)
    if z3.is_const(av.a) and av.a.decl().kind() == z3.Z3_OP_UNINTERPRETED:
        consts[av.a] = final
    if z3.is_const(bl.length) and bl.length.decl().kind() == z3.Z3_OP_UNINTERPRETED:
        consts[bl.length] = z3.IntVal(1)
    vals = [K(0), K(0), z3.Store(K(0), 0, z3.IntVal(1))]
    for a_, v_ in zip(bl.arrays, vals):
        if z3.is_const(a_) and a_.decl().kind() == z3.Z3_OP_UNINTERPRETED:
            consts[a_] = v_
    for nm, c in core.free_consts(z3.And(*e.pc)).items():
        if c in consts or any(c.eq(k_) for k_ in consts):
            continue
        if nm.startswith("start_index"):
            consts[c] = z3.IntVal(LM + 1) if LM == 1 else z3.IntVal(LM + 1 - 0)
        elif nm.startswith("new_block"):
            consts[c] = z3.BoolVal(True)
    return core.witness_guard(name, e.pc, consts, [])


def deductive_tasks(prop, tier, seed):
    top = 3 if tier == "quick" else 5
    return [(f"System._find_all_molecules_and_replace/pyvc/L{LM}", task_scan, (prop, seed, LM), 600.0) for LM in range(1, top + 1)]
