"""Scratch main module for developing/testing the C13 helper contracts/b13_grofile.py on its own:
VERIF_PROPS_OVERRIDE="C13=contracts.b13_grofile_main" ./check C13 --tier quick"""
from contracts import b13_grofile as B


def info(prop):
    d = B.bounded_info()
    d.setdefault("level", "other")
    return d


def tasks(prop, tier, seed):
    return B.bounded_tasks(prop, tier, seed)


def replay(prop, cex):
    return B.replay(prop, cex)
