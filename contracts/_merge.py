"""glue between a property's main contract module and its agent-written bounded helper module"""


def merged_info(base: dict, helper) -> dict:
    h = helper.bounded_info()
    d = dict(base)
    for k in ("functions", "stubs", "assumptions", "trusted_base"):
        d[k] = list(d.get(k, [])) + [x for x in h.get(k, []) if x not in d.get(k, [])]
    if h.get("explanation"):
        d["explanation"] = (d.get("explanation", "") + " Bounded part: " + h["explanation"]).strip()
    if h.get("rule"):
        d["rule"] = (d.get("rule", "") + "; bounded part: " + h["rule"]).strip("; ")
    return d


def helper_replay(helper, prop, cex):
    try:
        return helper.replay(prop, cex)
    except Exception as e:       # the helper does not know this counterexample
        return None
