"""C17 -- rotation matrices are proper rotations; local frames are orthonormal.

Engine: symrun on the real gaddlemaps._auxilliary.rotation_matrix / calcule_base
(loop-free, fully symbolic inputs => complete), plus the bounded numeric twin
of the same clauses on the property's own input families.
"""
from __future__ import annotations

import math

import numpy as np
import z3

from vf import symrun as S, core, spec
from vf.core import ob, discharge, Proof
from . import k_aux

PROP = "C17"


def info(prop):
    return {
        "level": "proof",
        "functions": ["gaddlemaps/_auxilliary.py::rotation_matrix", "gaddlemaps/_auxilliary.py::calcule_base"],
        "stubs": ["gaddlemaps._auxilliary.np -> NumpyFacade (float dtype request -> object when data is symbolic)"],
        "trusted_base": ["z3 5.1 (Python API)", "sympy Groebner bases (gb back end)", "CPython 3.12 + numpy 2.5 executing the real function bodies on dtype=object arrays (A2, cross-checked concolically)",
                         "vf/symrun.py path explorer", "A1: float64 treated as exact reals", "A4: cos/sin uninterpreted with Pythagorean, parity and addition axioms"],
        "assumptions": ["A1 float64 arithmetic treated as mathematical reals; rounding not analysed (bounded numeric twin covers the stated float families at 1e-9)",
                        "A2 numpy object-dtype transparency (validated per path against a native float run)",
                        "A4 trigonometric axioms for uninterpreted cos/sin",
                        "'normal to the plane' is read as |v3.unit(p1-p0)| <= 1e-6, and exact for clearly non-collinear triples"],
        "explanation": ("Contract-based deductive verification of the real functions: the real function objects are executed on symbolic "
                        "reals, every path is enumerated (coverage of the precondition by the path conditions is itself an obligation), and each "
                        "postcondition clause taken from the property statement is discharged per path by z3 or by polynomial ideal membership (gb). "
                        "Bounded obligations (numeric twin of the same clauses on float inputs, labelled bounded) are extra and not counted as proved."),
        "rule": "deductive: one obligation per (function, clause, path); bounded: one evaluation per enumerated float input",
    }


# ---------------------------------------------------------------------------
# rotation_matrix


def _aux():
    import gaddlemaps._auxilliary as aux
    return aux


def _run_rot(axis, theta):
    aux = _aux()
    with S.patched(aux, np=S.NumpyFacade()):
        return aux.rotation_matrix(axis, theta)


AX = [z3.Real(f"axis_{i}") for i in range(3)]
TH = z3.Real("theta")


def _cex_rot(model):
    from vf.backends import model_value
    g = lambda n, d=0.0: model_value(model[n]) if n in model else d
    return {"fn": "rotation_matrix", "axis": [g(f"axis_{i}") for i in range(3)],
            "theta": g("theta"), "theta2": g("theta_b"), "k": g("k", 1.0)}


def task_rot_main(seed):
    pre = [z3.Or(*[a != 0 for a in AX])]
    out = []

    def run(c):
        axis = S.vec("axis")
        before = S.terms(axis)
        R = _run_rot(axis, S.real("theta"))
        return R, S.terms(axis), before

    paths = S.explore(run, assumptions=pre)
    out.append(ob(f"{PROP}/rotation_matrix/single-path", "discharged" if len(paths) == 1 else "undecided",
                  engine="symrun", backend="explorer", reason=f"{len(paths)} paths",
                  sample={"paths": len(paths)}))
    for pi, p in enumerate(paths):
        tag = f"{PROP}/rotation_matrix"
        if p.exc is not None:
            out.append(ob(f"{tag}/no-exception", "refuted", engine="symrun", reason=f"raises {p.exc!r}",
                          cex={"fn": "rotation_matrix", "axis": [1.0, 2.0, 3.0], "theta": 0.3, "signature": "raises"}))
            continue
        R, after, before = p.result
        Rt = spec.rows(S.terms(R), 3)
        c, s = S.COS(TH), S.SIN(TH)
        hy = p.hyps() + S.trig_axioms(TH)
        for name, cond, h in p.ctx.safety:
            out.append(discharge(f"{tag}/safety.{name}", h, cond, backends=("z3", "nlsat"), cex_builder=_cex_rot))
        cl = k_aux.rotation_matrix_post(AX, Rt, c, s, after, True)
        cl += spec.eqs("axis_fixed_row", spec.vecmat(AX, Rt), AX)
        groups = {}
        for k in cl:
            groups.setdefault(k.name.split("[")[0], []).append(k)
        for gname, ks in groups.items():
            out.append(discharge(f"{tag}/ensures.{gname}", hy, spec.conj(ks), backends=("gb", "z3"),
                                 cex_builder=_cex_rot, timeout_ms=20000))
        # must-fail guard: R is not the identity for every input
        out.append(core.must_fail(f"{tag}/guard.must-fail", hy, spec.det3(Rt) == -1))
        # vacuity guard: hypotheses satisfiable
        m = core.get_model(hy)
        out.append(ob(f"{tag}/guard.pre-satisfiable", "discharged" if m is not None else "refuted", kind="guard",
                      engine="symrun", backend="z3", expect="discharged"))
        # concolic (A2)
        if m is not None:
            ax = np.array([core.mval(m, a) for a in AX])
            th = core.mval(m, TH)
            nat = _aux().rotation_matrix(ax.copy(), th)
            # uninterpreted cos/sin: evaluate symbolic output with real cos/sin by substitution
            sub = [(c, z3.RealVal(repr(math.cos(th)))), (s, z3.RealVal(repr(math.sin(th))))]
            sym = np.array([[core.mval(m, z3.substitute(Rt[i][j], *sub)) for j in range(3)] for i in range(3)])
            ok = np.allclose(nat, sym, atol=1e-6)
            out.append(ob(f"{tag}/guard.concolic", "discharged" if ok else "refuted", kind="guard", engine="symrun",
                          backend="native-run", expect="discharged", concolic=1,
                          sample={"axis": ax.tolist(), "theta": th, "max_abs_diff": float(np.abs(nat - sym).max())}))
    return out


def task_rot_neg(seed):
    """R(axis, -theta) == R(axis, theta)^T"""
    pre = [z3.Or(*[a != 0 for a in AX])]

    def run(c):
        a1 = S.vec("axis")
        a2 = S.vec("axis")
        th = S.real("theta")
        return _run_rot(a1, th), _run_rot(a2, -th)

    out = []
    for p in S.explore(run, assumptions=pre):
        R1 = spec.rows(S.terms(p.result[0]), 3)
        R2 = spec.rows(S.terms(p.result[1]), 3)
        hy = p.hyps() + S.trig_axioms(TH)
        pr = Proof(f"{PROP}/rotation_matrix/ensures.neg_theta_is_transpose", hy, cex_builder=_cex_rot)
        # both runs normalise the same axis: the two square roots coincide
        sq = [d for d in p.ctx.defs if "sqrt!" in str(d)]
        rs = sorted({str(x): x for d in sq for x in _vars(d) if str(x).startswith("sqrt!")}.items())
        r1, r2 = rs[0][1], rs[1][1]
        pr.have("same_norm", r1 == r2, backends=("z3", "nlsat"))
        pr.have("transpose", spec.conj(spec.eqs("T", spec.flat(R2), spec.flat(spec.transpose(R1)))),
                backends=("gb", "z3"))
        out += pr.obs
    return out


def _vars(e):
    seen, out, st = set(), [], [e]
    while st:
        t = st.pop()
        if t.get_id() in seen:
            continue
        seen.add(t.get_id())
        if z3.is_const(t) and t.decl().kind() == z3.Z3_OP_UNINTERPRETED:
            out.append(t)
        st.extend(t.children())
    return out


def task_rot_compose(seed):
    """R(axis, a) . R(axis, b) == R(axis, a+b)"""
    pre = [z3.Or(*[a != 0 for a in AX])]
    TB = z3.Real("theta_b")

    def run(c):
        th, tb = S.real("theta"), S.real("theta_b")
        return _run_rot(S.vec("axis"), th), _run_rot(S.vec("axis"), tb), _run_rot(S.vec("axis"), th + tb)

    out = []
    for p in S.explore(run, assumptions=pre):
        Ra, Rb, Rab = [spec.rows(S.terms(r), 3) for r in p.result]
        hy = p.hyps() + S.trig_axioms(TH, TB)
        pr = Proof(f"{PROP}/rotation_matrix/ensures.composition", hy, cex_builder=_cex_rot)
        rs = sorted({str(x): x for d in p.ctx.defs for x in _vars(d) if str(x).startswith("sqrt!")}.items())
        r = [x for _, x in rs]
        pr.have("same_norm_12", r[0] == r[1], backends=("z3", "nlsat"))
        pr.have("same_norm_13", r[0] == r[2], backends=("z3", "nlsat"))
        pr.have("product", spec.conj(spec.eqs("P", spec.flat(spec.matmul(Ra, Rb)), spec.flat(Rab))),
                backends=("gb", "z3"))
        out += pr.obs
    return out


def task_rot_scale(seed):
    """R(k*axis, theta) == R(axis, theta) for k > 0"""
    K = z3.Real("k")
    pre = [z3.Or(*[a != 0 for a in AX]), K > 0]

    def run(c):
        th = S.real("theta")
        a1 = S.vec("axis")
        a2 = S.vec("axis") * S.real("k")
        return _run_rot(a1, th), _run_rot(a2, th)

    out = []
    for p in S.explore(run, assumptions=pre):
        R1, R2 = [spec.rows(S.terms(r), 3) for r in p.result]
        hy = p.hyps() + S.trig_axioms(TH)
        pr = Proof(f"{PROP}/rotation_matrix/ensures.independent_of_axis_length", hy, cex_builder=_cex_rot)
        rs = sorted({str(x): x for d in p.ctx.defs for x in _vars(d) if str(x).startswith("sqrt!")}.items(),
                    key=lambda kv: int(kv[0].split("!")[1]))
        r1, r2 = rs[0][1], rs[1][1]
        aa = spec.norm2(AX)
        pr.have("norm_scales", r2 == K * r1,
                by=[r1 >= 0, r2 >= 0, r1 * r1 == aa, K > 0, z3.Or(*[a != 0 for a in AX])] +
                   [d for d in p.ctx.defs if str(r2) in str(d) and "quot" not in str(d)],
                backends=("z3", "nlsat"))
        pr.have("k_nonzero", K != 0, by=[K > 0], backends=("z3",))
        pr.have("same_matrix", spec.conj(spec.eqs("S", spec.flat(R2), spec.flat(R1))), backends=("gb", "z3"))
        out += pr.obs
    return out


# ---------------------------------------------------------------------------
# calcule_base

P = [[z3.Real(f"p{k}_{i}") for i in range(3)] for k in range(3)]
CB_PRE = [z3.Or(*[P[0][i] != P[2][i] for i in range(3)])]


def _cex_cb(model):
    from vf.backends import model_value
    pts = [[model_value(model.get(f"p{k}_{i}", "0")) for i in range(3)] for k in range(3)]
    return {"fn": "calcule_base", "points": pts, "signature": _cb_signature(pts)}


def _cb_signature(pts):
    p0, p1, p2 = [np.array(p, dtype=float) for p in pts]
    d, e = p2 - p0, p1 - p0
    cr = np.cross(d, e)
    if np.linalg.norm(cr) <= 1e-12 * max(1e-300, np.linalg.norm(d) * np.linalg.norm(e)) or not e.any():
        return "collinear"
    return "generic"


def _cb_run(c):
    pts = [S.vec(f"p{k}") for k in range(3)]
    before = [S.terms(x) for x in pts]
    (v1, v2, v3), origin = _aux().calcule_base(pts)
    return ([S.terms(v) for v in (v1, v2, v3)], S.terms(origin), [S.terms(x) for x in pts], before)


def _cb_run_array(c):
    """second calling form used by the package (ExchangeMap, 1- and 2-atom references): ONE (3, 3) array"""
    arr = np.empty((3, 3), dtype=object)
    for k in range(3):
        for i in range(3):
            arr[k, i] = S.real(f"p{k}_{i}")
    before = S.terms(arr)
    (v1, v2, v3), origin = _aux().calcule_base(arr)
    return ([S.terms(v) for v in (v1, v2, v3)], S.terms(origin), S.terms(arr), before)


def task_cb_array_form(seed):
    """the frame clauses do not depend on the container; what can differ is aliasing: inputs unmodified, origin = first point"""
    aux = _aux()
    tag = f"{PROP}/calcule_base/array-argument"
    try:
        with S.patched(aux, np=S.NumpyFacade()):
            paths = S.explore(_cb_run_array, assumptions=CB_PRE, max_paths=64)
    except S.SymError as e:
        return [ob(f"{tag}/symbolic-run", "undecided", engine="symrun", reason=str(e))]
    out = []
    flatP = [x for row in P for x in row]
    for p in sorted(paths, key=lambda q: q.decisions):
        ptag = f"path[{_dec(p)}]"
        if p.exc is not None:
            out.append(ob(f"{tag}/no-exception/{ptag}", "refuted", engine="symrun", reason=f"real code raises {p.exc!r}",
                          cex={"fn": "calcule_base", "points": [[0.0, 0, 0], [1.0, 0.5, 0], [0.0, 0, 2.0]], "signature": "array-form", "as_array": True}))
            continue
        (v1, v2, v3), origin, after, before = p.result
        hy = p.hyps()
        cexb = lambda m: dict(_cex_cb(m), as_array=True, signature="array-form")
        out.append(discharge(f"{tag}/ensures.unmodified_input_array/{ptag}", hy, z3.And(*[a == b for a, b in zip(after, flatP)]),
                             backends=("z3",), cex_builder=cexb, timeout_ms=10000))
        out.append(discharge(f"{tag}/ensures.origin_is_first_point/{ptag}", hy, z3.And(*[a == b for a, b in zip(origin, P[0])]),
                             backends=("z3",), cex_builder=cexb, timeout_ms=10000))
        out.append(discharge(f"{tag}/ensures.unit_v1/{ptag}", hy, spec.norm2(v1) == 1, backends=("z3", "gb"), cex_builder=cexb, timeout_ms=10000))
    return out


def _cb_paths():
    aux = _aux()
    with S.patched(aux, np=S.NumpyFacade()):
        paths = S.explore(_cb_run, assumptions=CB_PRE, max_paths=64)
    paths.sort(key=lambda p: p.decisions)
    return paths


def _dec(p):
    return "".join("T" if d else "F" for d in p.decisions) or "-"


def task_cb_coverage(seed):
    paths = _cb_paths()
    out = []
    pcs = [z3.And(*p.ctx.pc) if p.ctx.pc else z3.BoolVal(True) for p in paths]
    # completeness of the path enumeration: pre => some path condition.  The path
    # conditions mention the run's fresh sqrt/quot symbols, so state it per decision tree
    # instead: the explorer only drops a branch when the solver proved it infeasible.
    out.append(ob(f"{PROP}/calcule_base/paths-enumerated", "discharged" if 1 <= len(paths) <= 24 else "undecided",
                  engine="symrun", backend="explorer", sample={"paths": [_dec(p) for p in paths]},
                  reason=f"{len(paths)} feasible paths"))
    out.append(ob(f"{PROP}/calcule_base/guard.pre-satisfiable", "discharged" if core.get_model(CB_PRE) else "refuted",
                  kind="guard", engine="symrun", backend="z3", expect="discharged"))
    return out


def calcule_base_script(tag, ptag, ctx, hy, p0, p1, p2, v1, v2, v3, origin, after, cex_builder=None, nice=None):
    """Staged proof of the calcule_base contract on one path of the real code.
    Steps marked optional are strategies: whichever succeeds is recorded, every
    recorded step is a discharged obligation, nothing is assumed."""
    cl = k_aux.calcule_base_post(p0, p1, p2, v1, v2, v3, origin, after[0], after[1], after[2], True)
    groups = {}
    for c_ in cl:
        groups.setdefault(c_.name.split("[")[0], []).append(c_)
    pr = Proof(tag, hy, cex_builder=cex_builder, nice=nice, timeout_ms=20000)
    frame = []
    for gname, ks in groups.items():
        if gname == "v3_normal_p0p1":
            continue
        nm = f"ensures.{gname}/{ptag}"
        eq_only = all(k_.rel == "eq" for k_ in ks)
        pr.have(nm, spec.conj(ks), backends=("z3", "gb") if eq_only else ("z3", "nlsat"))
        if gname.startswith(("unit", "orth", "right")):
            frame.append(nm)
    e = spec.sub(p1, p0)
    d = spec.sub(p2, p0)
    dxe = spec.cross(d, e)
    c = spec.cross(v1, e)                      # the un-normalised normal the code computes
    r1 = S.find_sqrt(ctx, spec.norm2(d))       # |p2-p0|
    n3 = S.find_sqrt(ctx, spec.norm2(c), hy)   # |v1 x e|
    ne = S.find_sqrt(ctx, spec.norm2(e))       # |p1-p0|
    k_norm = groups["v3_normal_p0p1"][0]
    guard, gcl = k_aux.calcule_base_generic(p0, p1, p2, v3, True)
    g_par = spec.conj([x for x in gcl if x.name.startswith("generic_v3_parallel")])
    g_dir = [x for x in gcl if x.name == "generic_v3_direction"][0].z3()
    n_norm, n_par, n_dir = (f"ensures.v3_normal_p0p1/{ptag}", f"ensures.generic_v3_parallel/{ptag}",
                            f"ensures.generic_v3_direction/{ptag}")
    done = set()
    have_internals = r1 is not None and n3 is not None and ne is not None
    # ---- strategy G (generic branch): v3 = (v1 x e)/|v1 x e|
    strat_g = pr.have(f"lemma.v3_dot_e_zero/{ptag}", spec.dot(v3, e) == 0, backends=("gb",), optional=True)
    if strat_g:
        if pr.have(n_norm, k_norm.z3(), by=[], use=[f"lemma.v3_dot_e_zero/{ptag}"], backends=("z3",), optional=True):
            done.add(n_norm)
    if strat_g and pr.have(f"lemma.v3_parallel_dxe/{ptag}", g_par, backends=("gb",), optional=True):
        if pr.have(n_par, z3.Implies(guard.z3(), g_par), by=[], use=[f"lemma.v3_parallel_dxe/{ptag}"],
                   backends=("z3",), optional=True):
            done.add(n_par)
    G = z3.Real("ghost_v3_dot_dxe")
    gdef = G == spec.dot(v3, dxe)
    prg = Proof(tag, hy + [gdef], cex_builder=cex_builder, nice=nice, timeout_ms=20000)
    prg.facts.update(pr.facts)
    if strat_g and have_internals and prg.have(f"lemma.v3_dot_dxe/{ptag}", G == r1 * n3, backends=("gb",), optional=True):
        prg.have(f"lemma.r1_pos/{ptag}", r1 > 0, backends=("z3",), timeout_ms=5000, optional=True)
        prg.have(f"lemma.ne_nonneg/{ptag}", ne >= 0, backends=("z3",), timeout_ms=5000, optional=True)
        prg.have(f"lemma.n3_pos/{ptag}", n3 > 0, by=list(ctx.pc), use=[f"lemma.ne_nonneg/{ptag}"],
                 backends=("z3",), timeout_ms=5000, optional=True)
        if prg.have(f"lemma.G_pos/{ptag}", G > 0, by=[],
                    use=[f"lemma.v3_dot_dxe/{ptag}", f"lemma.r1_pos/{ptag}", f"lemma.n3_pos/{ptag}"],
                    backends=("z3", "nlsat"), timeout_ms=10000, optional=True):
            if prg.have(n_dir, z3.Implies(guard.z3(), g_dir), by=[gdef], use=[f"lemma.G_pos/{ptag}"],
                        backends=("z3",), timeout_ms=10000, optional=True):
                done.add(n_dir)
    pr.obs += prg.obs
    # ---- strategy C (collinear-within-tolerance branch): |v1 x e| <= k |e| with k <= tolerances
    if have_internals and len(done) < 3:
        a_, b_ = z3.Real("ghost_v2e"), z3.Real("ghost_v3e")
        N = z3.Real("ghost_n3sq")
        gdefs = [a_ == spec.dot(v2, e), b_ == spec.dot(v3, e), N == spec.norm2(c)]
        pr2 = Proof(tag, hy + gdefs, cex_builder=cex_builder, nice=nice, timeout_ms=20000)
        pr2.facts.update(pr.facts)
        ok = pr2.have(f"lemma.decompose/{ptag}", N == a_ * a_ + b_ * b_, by=gdefs, use=frame, backends=("gb",), optional=True)
        ok = ok and pr2.have(f"lemma.n3sq/{ptag}", n3 * n3 == N, backends=("z3", "gb"), timeout_ms=5000, optional=True)
        ok = ok and pr2.have(f"lemma.ne_sq/{ptag}", ne * ne == spec.norm2(e), backends=("z3",), timeout_ms=5000, optional=True)
        ok = ok and pr2.have(f"lemma.r1_sq/{ptag}", r1 * r1 == spec.norm2(d), backends=("z3",), timeout_ms=5000, optional=True)
        tol2 = z3.RealVal(k_aux.Q_NORMAL_TOL2)
        ok = ok and pr2.have(f"lemma.sq_mono/{ptag}", n3 * n3 <= tol2 * ne * ne,
                             by=list(ctx.pc) + [n3 >= 0, ne >= 0], backends=("z3", "nlsat"), timeout_ms=10000, optional=True)
        if ok:
            EE = z3.Real("ghost_ee")
            if n_norm not in done and pr2.have(
                    n_norm, b_ * b_ <= tol2 * EE, by=[EE == ne * ne],
                    use=[f"lemma.decompose/{ptag}", f"lemma.n3sq/{ptag}", f"lemma.sq_mono/{ptag}"],
                    backends=("z3", "nlsat"), timeout_ms=10000, optional=True):
                # restate on the contract's own terms
                if pr2.have(n_norm + "#restated", k_norm.z3(), by=gdefs + [EE == ne * ne],
                            use=[n_norm, f"lemma.ne_sq/{ptag}"], backends=("z3",), timeout_ms=10000, optional=True):
                    done.add(n_norm)
            # the guard of the generic clauses is false here: |d x e|^2 = r1^2 n3^2 <= tol^2 |d|^2 |e|^2
            small = core.hyps_over(hy + gdefs, [r1] + [x for x in v1 if z3.is_const(x)] + [N])
            if pr2.have(f"lemma.dxe_sq/{ptag}", spec.norm2(dxe) == r1 * r1 * N, by=small, backends=("gb",), optional=True):
                X, D2, E2, A = z3.Real("ghost_dxe2"), z3.Real("ghost_dd"), z3.Real("ghost_ee2"), z3.Real("ghost_n3n3")
                gd2 = [X == spec.norm2(dxe), D2 == spec.norm2(d), E2 == spec.norm2(e), A == n3 * n3]
                pr3 = Proof(tag, pr2.hyps + gd2, cex_builder=cex_builder, nice=nice, timeout_ms=20000)
                pr3.facts.update(pr2.facts)
                g2 = z3.RealVal(k_aux.Q_GENERIC_SIN2)
                okg = pr3.have(f"lemma.ghost_X/{ptag}", X == D2 * A, by=gd2,
                               use=[f"lemma.dxe_sq/{ptag}", f"lemma.n3sq/{ptag}", f"lemma.r1_sq/{ptag}"],
                               backends=("z3", "gb"), timeout_ms=10000, optional=True)
                okg = okg and pr3.have(f"lemma.ghost_A/{ptag}", A <= tol2 * E2, by=gd2,
                                       use=[f"lemma.sq_mono/{ptag}", f"lemma.ne_sq/{ptag}"],
                                       backends=("z3",), timeout_ms=10000, optional=True)
                okg = okg and pr3.have(f"lemma.ghost_D2_nonneg/{ptag}", D2 >= 0, by=gd2, backends=("z3",),
                                       timeout_ms=10000, optional=True)
                okg = okg and pr3.have(f"lemma.ghost_bound/{ptag}", X <= g2 * D2 * E2, by=[],
                                       use=[f"lemma.ghost_X/{ptag}", f"lemma.ghost_A/{ptag}", f"lemma.ghost_D2_nonneg/{ptag}"],
                                       backends=("z3", "nlsat"), timeout_ms=10000, optional=True)
                okg = okg and pr3.have(f"lemma.guard_false/{ptag}", z3.Not(guard.z3()), by=gd2,
                                       use=[f"lemma.ghost_bound/{ptag}"], backends=("z3",), timeout_ms=10000, optional=True)
                pr2.obs += pr3.obs
                pr2.facts.update({k_: v_ for k_, v_ in pr3.facts.items() if k_.startswith("lemma.guard_false")})
                if okg:
                    for nmx, gx in ((n_par, g_par), (n_dir, g_dir)):
                        if nmx not in done and pr2.have(nmx, z3.Implies(guard.z3(), gx), by=[],
                                                        use=[f"lemma.guard_false/{ptag}"], backends=("z3",), optional=True):
                            done.add(nmx)
        pr.obs += pr2.obs
    # ---- whatever is still open: plain attempt on the full hypothesis set (gives the verdict / counter-model)
    for nmx, gx in ((n_norm, k_norm.z3()), (n_par, z3.Implies(guard.z3(), g_par)), (n_dir, z3.Implies(guard.z3(), g_dir))):
        if nmx not in done:
            pr.have(nmx, gx, backends=("z3", "nlsat"), timeout_ms=30000)
    return pr


def task_cb_path(k, seed):
    paths = _cb_paths()
    if k >= len(paths):
        return []
    p = paths[k]
    tag = f"{PROP}/calcule_base"
    ptag = f"path[{_dec(p)}]"
    out = []
    nice = [x for row in P for x in row]
    if p.exc is not None:
        m = core.get_model(p.hyps())
        cex = None
        if m is not None:
            pts = [[core.mval(m, x) for x in row] for row in P]
            cex = {"fn": "calcule_base", "points": pts, "signature": _cb_signature(pts)}
        out.append(ob(f"{tag}/no-exception/{ptag}", "refuted", engine="symrun", backend="explorer",
                      reason=f"real code raises {type(p.exc).__name__}: {p.exc}", cex=cex))
        return out
    (v1, v2, v3), origin, after, before = p.result
    hy = p.hyps()
    for i, (name, cond, h) in enumerate(p.ctx.safety):
        out.append(discharge(f"{tag}/safety.{name}#{i}/{ptag}", h, cond, backends=("z3", "nlsat"),
                             cex_builder=_cex_cb, nice=nice, timeout_ms=20000))
    pr = calcule_base_script(tag, ptag, p.ctx, hy, P[0], P[1], P[2], v1, v2, v3, origin, after,
                             cex_builder=_cex_cb, nice=nice)
    out += pr.obs
    # guards
    out.append(core.must_fail(f"{tag}/guard.must-fail/{ptag}", hy, spec.conj(spec.eqs("lh", spec.cross(v2, v1), v3))))
    m = core.get_model(hy)
    out.append(ob(f"{tag}/guard.path-satisfiable/{ptag}", "discharged" if m is not None else "undecided",
                  kind="guard", engine="symrun", backend="z3", expect="discharged"))
    if m is not None:
        pts = [np.array([core.mval(m, x) for x in row]) for row in P]
        with np.errstate(all="ignore"):
            (n1, n2, n3), no = _aux().calcule_base([x.copy() for x in pts])
        symv = np.array([[core.mval(m, x) for x in v] for v in (v1, v2, v3)])
        nat = np.array([n1, n2, n3])
        generic = not any(z3.is_eq(c_) for c_ in p.ctx.pc)
        okc = np.allclose(nat, symv, atol=1e-6)
        out.append(ob(f"{tag}/guard.concolic/{ptag}", "discharged" if (okc or not generic) else "refuted", kind="guard",
                      engine="symrun", backend="native-run", expect="discharged", concolic=1 if okc else 0,
                      sample={"points": [x.tolist() for x in pts], "agree": bool(okc), "generic_path": generic}))
    return out


# ---------------------------------------------------------------------------
# bounded numeric twin (same clauses, float interpretation)


def numeric_rot(axis, theta, theta2=0.3, k=2.0):
    aux = _aux()
    axis = np.array(axis, dtype=float)
    a0 = axis.copy()
    R = aux.rotation_matrix(axis, theta)
    Rl = [list(map(float, r)) for r in R]
    cl = k_aux.rotation_matrix_post(list(a0 / np.linalg.norm(a0)), Rl, math.cos(theta), math.sin(theta), list(axis), False)
    cl = [c for c in cl if not c.name.startswith("unmodified")] + spec.eqs("unmodified_axis", list(axis), list(a0))
    Rn = aux.rotation_matrix(a0.copy(), -theta)
    cl += spec.eqs("neg_theta_is_transpose", spec.flat(Rn.tolist()), spec.flat(R.T.tolist()))
    Rb = aux.rotation_matrix(a0.copy(), theta2)
    Rab = aux.rotation_matrix(a0.copy(), theta + theta2)
    cl += spec.eqs("composition", spec.flat((R @ Rb).tolist()), spec.flat(Rab.tolist()))
    Rk = aux.rotation_matrix(a0 * k, theta)
    cl += spec.eqs("independent_of_axis_length", spec.flat(Rk.tolist()), spec.flat(R.tolist()))
    return [c for c in cl if not c.holds(1e-9)]


def numeric_cb(points, tol=1e-9, as_array=False):
    aux = _aux()
    if as_array:
        arr = np.array(points, dtype=float)
        pts = [arr[0], arr[1], arr[2]]              # views: a write through the (3, 3) argument shows up here
        orig = [p.copy() for p in pts]
        with np.errstate(all="ignore"):
            (v1, v2, v3), o = aux.calcule_base(arr)
        o = np.array(o, dtype=float)
    else:
        pts = [np.array(p, dtype=float) for p in points]
        orig = [p.copy() for p in pts]
        with np.errstate(all="ignore"):
            (v1, v2, v3), o = aux.calcule_base(pts)
    L = lambda a: [float(x) for x in a]
    sc = max(1.0, float(np.linalg.norm(orig[2] - orig[0])), float(np.linalg.norm(orig[1] - orig[0])))
    cl = k_aux.calcule_base_post(L(orig[0]), L(orig[1]), L(orig[2]), L(v1), L(v2), L(v3), L(o),
                                 L(pts[0]), L(pts[1]), L(pts[2]), False)
    guard, gcl = k_aux.calcule_base_generic(L(orig[0]), L(orig[1]), L(orig[2]), L(v3), False)
    bad = [c for c in cl if not c.holds(tol, sc)]
    d, e = orig[2] - orig[0], orig[1] - orig[0]
    sine = np.linalg.norm(np.cross(d, e)) / max(np.linalg.norm(d) * np.linalg.norm(e), 1e-300)
    if sine > 1e-5:        # clearly not collinear (float64 resolves the normal to ~1e-16/sine)
        un = np.cross(d, e)
        un = un / np.linalg.norm(un)
        bad += [c for c in spec.eqs("generic_v3_is_unit_normal", L(v3), L(un)) if not c.holds(1e-7 if sine > 1e-3 else 1e-6)]
    return bad


def _cb_families(tier, seed):
    rng = np.random.default_rng(1234 + seed)
    fam = []
    n = 300 if tier == "quick" else 3000
    for sc in (1e-3, 1.0, 1e3):
        for _ in range(n // 10):
            fam.append(("generic", (rng.normal(size=(3, 3)) * sc).tolist()))
    axes = [(1, 0, 0), (0, 1, 0), (0, 0, 1), (-1, 0, 0), (0, -1, 0), (0, 0, -1),
            (1, 1, 0), (1, 0, 1), (0, 1, 1), (1, 1, 1), (-1, 1, 1), (1, -1, 1), (1, 1, -1), (-1, -1, -1), (1, -1, 0)]
    for dv in axes:
        for a, b in ((0.5, 1.0), (2.0, 1.0), (-1.0, 1.0), (0.0, 1.0), (1.0, -1.0), (0.25, -2.0)):
            for sc in (1e-3, 1.0, 1e3):
                p0 = rng.integers(-4, 5, 3) * 0.25 * sc
                dd = np.array(dv, dtype=float) * sc
                fam.append(("collinear-axis/diagonal", [p0.tolist(), (p0 + a * dd).tolist(), (p0 + b * dd).tolist()]))
    # exactly collinear along a direction that is NEARLY (not exactly) a coordinate axis or diagonal: tilts 1e-9 .. 1e-2
    for dv in axes:
        for tilt in (1e-9, 3e-7, 1e-6, 4e-5, 1e-3, 7e-3):
            tv = np.array([0.6, -0.8, 0.3]) * tilt
            dd = np.array(dv, dtype=float) + tv
            for a, b in ((0.5, 1.0), (-1.0, 1.0), (2.0, -1.5)):
                p0 = rng.integers(-4, 5, 3) * 0.25
                fam.append(("collinear-near-axis", [p0.tolist(), (p0 + a * dd).tolist(), (p0 + b * dd).tolist()]))
    # special magnitudes: |p2-p0|, |p1-p0| equal or very close to 1 (and 0.5, 2): where a "skip the normalisation" shortcut would bite
    for _ in range(n // 3):
        u = rng.normal(size=3)
        u /= np.linalg.norm(u)
        w = rng.normal(size=3)
        w /= np.linalg.norm(w)
        l1 = float(rng.choice([1.0, 0.5, 2.0])) * (1.0 + float(rng.choice([0.0, 1e-7, -1e-7, 3e-6, -3e-6, 9e-6, -9e-6])))
        l2 = float(rng.choice([1.0, 0.5, 2.0, 0.37])) * (1.0 + float(rng.choice([0.0, 3e-6, -9e-6])))
        p0 = rng.integers(-4, 5, 3) * 0.25
        fam.append(("special-magnitudes", [p0.tolist(), (p0 + l2 * w).tolist(), (p0 + l1 * u).tolist()]))
    # nearly straight (NOT collinear) triples at several scales: bend 1e-5 .. 2e-2
    for sc in (1e-3, 1e-2, 1.0, 1e2):
        for _ in range(n // 12):
            u = rng.normal(size=3)
            u /= np.linalg.norm(u)
            perp = np.cross(u, rng.normal(size=3))
            perp /= np.linalg.norm(perp)
            bend = float(rng.choice([3e-5, 1e-4, 1e-3, 2e-2]))
            p0 = rng.integers(-4, 5, 3) * 0.25 * sc
            fam.append(("nearly-straight", [p0.tolist(), (p0 - 0.7 * sc * u + 0.7 * sc * bend * perp).tolist(), (p0 + sc * u).tolist()]))
    for _ in range(n):
        dd = rng.integers(-9, 10, 3).astype(float)
        if not dd.any():
            continue
        p0 = rng.integers(-5, 6, 3) * 0.25
        a, b = rng.integers(-8, 9, 2) * 0.5
        if b == 0:
            continue
        fam.append(("collinear-integer-direction", [p0.tolist(), (p0 + a * dd).tolist(), (p0 + b * dd).tolist()]))
    return fam


def task_numeric_cb(tier, seed):
    fam = _cb_families(tier, seed)
    out = []
    per = {}
    for name, pts in fam:
        per.setdefault(name, []).append(pts)
    for name, lst in per.items():
        bad_first = None
        nbad = 0
        for ci, pts in enumerate(lst):
            bad = numeric_cb(pts, as_array=(ci % 2 == 1))
            if bad:
                nbad += 1
                if bad_first is None:
                    bad_first = (pts, bad, ci % 2 == 1)
        if bad_first:
            pts, bad, arrform = bad_first
            out.append(ob(f"{PROP}/calcule_base/bounded.{name}", "refuted", kind="bounded", engine="smallscope",
                          backend="numeric-contract", evaluations=len(lst),
                          reason=f"{nbad}/{len(lst)} inputs violate the contract; first: " + "; ".join(c.describe() for c in bad[:4]),
                          cex={"fn": "calcule_base", "points": pts, "signature": _cb_signature(pts), "as_array": arrform}, sample={"points": pts}))
        else:
            out.append(ob(f"{PROP}/calcule_base/bounded.{name}", "discharged", kind="bounded", engine="smallscope",
                          backend="numeric-contract", evaluations=len(lst), sample={"points": lst[0]}))
    return out


def task_numeric_rot_forms(tier, seed):
    """Axes in the forms a caller may use (list / tuple of ints, integer ndarray, read-only float array, a strided view) and special angles
    (0, +-pi/2, +-pi, 2pi, integer angles): the same clauses, and the same matrix whatever the form; the argument is never modified."""
    aux = _aux()
    rng = np.random.default_rng(299 + seed)
    n = 40 if tier == "quick" else 400
    first, nbad, nev = None, 0, 0
    angles = [0, 1, -3, 0.0, math.pi / 2, -math.pi / 2, math.pi, -math.pi, 2 * math.pi, 7]
    for t in range(n):
        ints = [int(x) for x in rng.integers(-6, 7, 3)]
        if not any(ints):
            ints = [0, 0, 2]
        th = angles[t % len(angles)]
        ref = np.array(aux.rotation_matrix(np.array(ints, dtype=float), float(th)), dtype=float)
        big = np.zeros((3, 2))
        big[:, 0] = ints
        ro = np.array(ints, dtype=float)
        ro.setflags(write=False)
        forms = {"list of ints": list(ints), "tuple of ints": tuple(ints), "integer ndarray": np.array(ints), "read-only float array": ro,
                 "strided view": big[:, 0]}
        bad = [c.describe() for c in numeric_rot([float(x) for x in ints], float(th), 0.3)]
        for name, ax in forms.items():
            keep = list(ax) if not isinstance(ax, np.ndarray) else ax.copy()
            try:
                R = np.array(aux.rotation_matrix(ax, th), dtype=float)
            except Exception as e:      # noqa
                bad.append(f"axis {ints} given as {name}, theta {th!r}: raises {type(e).__name__}: {e}")
                continue
            nev += 1
            if R.shape != (3, 3) or np.abs(R - ref).max() > 1e-12:
                bad.append(f"axis {ints} given as {name}, theta {th!r}: matrix differs from the one for the float array by {float(np.abs(R - ref).max()) if R.shape == (3, 3) else R.shape}")
            if list(ax) != list(keep):
                bad.append(f"axis given as {name} was modified: {list(ax)} (was {list(keep)})")
        if bad:
            nbad += 1
            first = first or bad
    oid = f"{PROP}/rotation_matrix/bounded.axis-forms-and-special-angles"
    if first:
        return [ob(oid, "refuted", kind="bounded", engine="smallscope", backend="numeric-contract", evaluations=nev,
                   reason=f"{nbad}/{n} cases violate; first: " + "; ".join(first[:3]), cex={"fn": "rotation_forms", "tier": tier, "seed": seed, "signature": "forms"})]
    return [ob(oid, "discharged", kind="bounded", engine="smallscope", backend="numeric-contract", evaluations=nev, sample={"cases": n})]


def task_numeric_rot(tier, seed):
    rng = np.random.default_rng(99 + seed)
    n = 200 if tier == "quick" else 3000
    bad_first, nbad = None, 0
    cases = []
    for i in range(n):
        mag = 10.0 ** rng.uniform(-6, 6)
        ax = rng.normal(size=3)
        ax = ax / np.linalg.norm(ax) * mag
        if i < 6:
            ax = np.eye(3)[i % 3] * mag * (1 if i < 3 else -1)
        th = float(rng.uniform(-20, 20))
        th2 = float(rng.uniform(-20, 20))
        cases.append((ax.tolist(), th, th2))
    for ax, th, th2 in cases:
        bad = numeric_rot(ax, th, th2)
        if bad:
            nbad += 1
            bad_first = bad_first or ((ax, th, th2), bad)
    if bad_first:
        (ax, th, th2), bad = bad_first
        return [ob(f"{PROP}/rotation_matrix/bounded.random-axes-angles", "refuted", kind="bounded", engine="smallscope",
                   backend="numeric-contract", evaluations=n,
                   reason=f"{nbad}/{n} inputs violate; first: " + "; ".join(c.describe() for c in bad[:4]),
                   cex={"fn": "rotation_matrix", "axis": ax, "theta": th, "theta2": th2, "k": 2.0})]
    return [ob(f"{PROP}/rotation_matrix/bounded.random-axes-angles", "discharged", kind="bounded", engine="smallscope",
               backend="numeric-contract", evaluations=n, sample={"axis": cases[0][0], "theta": cases[0][1]})]


# ---------------------------------------------------------------------------


def tasks(prop, tier, seed):
    t = [
        ("rotation_matrix/main", task_rot_main, (seed,), 300.0),
        ("rotation_matrix/neg", task_rot_neg, (seed,), 300.0),
        ("rotation_matrix/compose", task_rot_compose, (seed,), 300.0),
        ("rotation_matrix/scale", task_rot_scale, (seed,), 300.0),
        ("calcule_base/coverage", task_cb_coverage, (seed,), 300.0),
        ("calcule_base/array-form", task_cb_array_form, (seed,), 600.0),
    ]
    for k in range(24):
        t.append((f"calcule_base/path{k}", task_cb_path, (k, seed), 600.0))
    t.append(("calcule_base/numeric", task_numeric_cb, (tier, seed), 600.0))
    t.append(("rotation_matrix/numeric", task_numeric_rot, (tier, seed), 600.0))
    t.append(("rotation_matrix/numeric-forms", task_numeric_rot_forms, (tier, seed), 600.0))
    return t


def replay(prop, cex):
    if cex.get("fn") == "rotation_forms":
        r = task_numeric_rot_forms(cex.get("tier", "quick"), cex.get("seed", 0))
        bad = [o for o in r if o.get("status") == "refuted"]
        return {"reproduced": bool(bad), "observed": bad[0].get("reason") if bad else None, "inputs": cex}
    if cex.get("fn") == "rotation_matrix":
        ax = cex["axis"]
        if not any(ax):
            return {"reproduced": False, "note": "axis is zero (outside the precondition)"}
        try:
            bad = numeric_rot(ax, cex["theta"], cex.get("theta2", 0.3), cex.get("k", 2.0) or 2.0)
        except Exception as e:
            return {"reproduced": True, "observed": f"raises {type(e).__name__}: {e}", "inputs": cex}
        return {"reproduced": bool(bad), "violated": [c.describe() for c in bad[:10]], "inputs": cex}
    pts = cex["points"]
    try:
        bad = numeric_cb(pts, as_array=bool(cex.get("as_array")))
        if not bad:
            bad = numeric_cb(pts, as_array=not bool(cex.get("as_array")))
    except Exception as e:
        return {"reproduced": True, "observed": f"raises {type(e).__name__}: {e}", "inputs": cex}
    return {"reproduced": bool(bad), "violated": [c.describe() for c in bad[:10]], "inputs": cex}
