"""C05 -- system extrapolation conserves molecules, order, numbering, box and title.

Engine: smallscope.  Bounded run-time contract checks on the real
gaddlemaps.Manager (extrapolate_system, complete_correspondence,
add_end_molecule, calculate_exchange_maps) with the real System, Alignment,
ExchangeMap and GroFile.  The exchange maps are initialised directly from the
start/end molecules as placed in the generated files (no Monte-Carlo
alignment), so every run is deterministic except for the rotation the map
leaves free for references of fewer than three atoms; for those only the
invariants the statement allows are checked.

Oracle: the input system is generated here and written by this module's own
formatter; the output file is read back by this module's own fixed-width
parser and compared with the generated model (title, box, which molecules,
order, numbering, residue numbers, target names).  Coordinates are compared
with the species' exchange map applied to the same input molecule, as the
statement says.  The output is additionally cross-read with GroFile.
"""
from __future__ import annotations

import contextlib
import io
import itertools
import math
import os
import shutil
import tempfile
import time
import warnings

import numpy as np

from vf.core import ob

PROP = "C05"
FN = f"{PROP}/Manager.extrapolate_system"

# clause names -------------------------------------------------------------
RAISES_NONE = "raises.error_and_no_file_when_no_species_has_both_resolutions"
RAISES_MAP = "raises.error_and_no_file_when_a_map_is_missing"
RETURNS = "ensures.returns_and_writes_file_when_maps_exist"
WELLFORMED = "ensures.output_is_wellformed_gro"
TITLE = "ensures.title_copied"
BOX = "ensures.box_copied"
COUNT = "ensures.atom_count_is_sum_of_target_sizes"
NUMBERS = "ensures.atom_numbers_consecutive_from_1"
ORDER = "ensures.one_mapped_molecule_per_complete_input_molecule_in_file_order"
RESIDS = "ensures.residue_numbers_of_input_molecule"
COORDS = "ensures.coordinates_equal_exchange_map_of_input_molecule"
SMALLREF = "ensures.small_reference_distances_scaled"
CROSS = "ensures.grofile_crossread_agrees"
AGAIN = "ensures.second_extrapolation_on_the_same_manager_satisfies_the_same_contract"
CC_KEYS = "complete_correspondence.keys_are_species_with_both_resolutions"
MAPS_SET = "calculate_exchange_maps.every_complete_species_gets_a_map"
ADD_END = "add_end_molecule.accepts_species_of_the_system"

OUTPUT_CLAUSES = [WELLFORMED, TITLE, BOX, COUNT, NUMBERS, ORDER, RESIDS, COORDS, SMALLREF]

CLAUSE_FN = {
    CC_KEYS: f"{PROP}/Manager.complete_correspondence/ensures.keys_are_species_with_both_resolutions",
    MAPS_SET: f"{PROP}/Manager.calculate_exchange_maps/ensures.every_complete_species_gets_a_map",
    ADD_END: f"{PROP}/Manager.add_end_molecule/ensures.accepts_species_of_the_system",
}


def _oid(clause, family):
    base = CLAUSE_FN.get(clause) or f"{FN}/{clause}"
    return f"{base}/{family}"


def info(prop):
    from . import d05_extrapolate_vc
    d = _info_bounded(prop)
    h = d05_extrapolate_vc.deductive_info()
    d["functions"] = h["functions"] + d["functions"]
    d["stubs"] = h["stubs"] + d.get("stubs", [])
    d["assumptions"] = h["assumptions"] + d.get("assumptions", [])
    d["explanation"] = h["explanation"] + d.get("explanation", "")
    d["trusted_base"] = ["z3 5.1", "vf/pyvc.py + vf/seq.py"] + d.get("trusted_base", [])
    return d


def _info_bounded(prop):
    return {
        "level": "other",
        "functions": ["gaddlemaps/_manager.py::Manager.extrapolate_system",
                      "gaddlemaps/_manager.py::Manager.complete_correspondence",
                      "gaddlemaps/_manager.py::Manager.add_end_molecule",
                      "gaddlemaps/_manager.py::Manager.calculate_exchange_maps",
                      "gaddlemaps/_exchage_map.py::ExchangeMap.__call__ (residue numbers of the argument)"],
        "stubs": [],
        "trusted_base": ["CPython 3.12 + numpy", "this module's generator, .gro formatter and fixed-width .gro parser",
                         "real System/Molecule.from_files used to build the inputs (their own contracts are C11/C15)",
                         "real ExchangeMap as the coordinate oracle for references of >= 3 atoms (its contracts are C01-C04)"],
        "assumptions": ["over-demand policy: exception type of the refusals, Manager.complete_correspondence / Alignment.exchange_map state, "
                        "the GroFile cross-read, a title differing in trailing white space only and coordinate deviations between half a unit "
                        "and one unit of the last decimal are informational (undecided), never violations",
                        "coordinates: 'to the precision of the coordinate format': a deviation from the map (evaluated in float64) of more than one "
                        "unit of the last written decimal is a violation; within half a unit (+1e-9) holds; in between is undecided",
                        "references of fewer than three atoms: only the distance of every image atom to the reference atom "
                        "(= scale x construction distance) and the scaled pairwise distances are required (rotation left free, C02)",
                        "box compared to 5e-6 in the .gro order of the nine box numbers; title compared modulo the line terminator"],
        "explanation": ("Bounded (never counted as proved): run-time contract checks on the real Manager/System/Alignment/ExchangeMap/GroFile. "
                        "Scope: every sequence of <= 3 (quick) / <= 5 (thorough) molecules over four species "
                        "(P single residue 3 atoms, Q one atom, R three residues X,Y,X with gapped residue numbers, W solvent never given a topology) "
                        "containing at least one loadable species; every subset of the loaded species given an end molecule (the empty subset and "
                        "the states 'maps not calculated' / 'one map missing' must raise an error (any type; the code raises SystemError) and create no file); rectangular and triclinic box (triclinic kinds rotated over the cases: mixed-sign, all-negative, hexagonal v2x=-a/2, all-positive, one tiny negative tilt term); "
                        "scale factors 0.5, 1.0, 1.7; titles rotated over the cases (plain, trailing blanks, blank line, spaces only, multi-byte characters); two topology loading orders; plus the shipped BMIM/BF4 box. "
                        "Exchange maps are initialised directly (no Monte-Carlo).  The output is parsed by an independent fixed-width parser.  "
                        "One obligation per (function, clause, scope family); a family is (first species of the sequence[, second], box kind, "
                        "title variant) -- the families partition the scope and are what the pool runs in parallel."),
        "rule": ("one evaluation per (species sequence, subset with end molecule, box kind, scale, title variant); all are distinct inputs; "
                 "'nontrivial' counts per clause the evaluations that exercise it (e.g. >= 2 written molecules for numbering, "
                 ">= 2 written molecules or a skipped molecule for order)"),
        "exhaustive": True,
    }


# ---------------------------------------------------------------------------
# generator (own formatter)

SCALES = (0.5, 1.0, 1.7)
BOXES = {
    "rect": "   7.51234   4.50021   4.20500",
    # GROMACS-valid triclinic cells (v1y = v1z = v2z = 0); .gro order v1x v2y v3z v1y v1z v2x v2z v3x v3y
    "tric": "   7.51234   4.50021   4.20500   0.00000   0.00000   1.20345   0.00000   0.70012  -0.90170",       # mixed signs
    "tric-neg": "   7.51234   4.50021   4.20500   0.00000   0.00000  -1.20345   0.00000  -0.70012  -0.90170",   # all tilt terms negative
    "tric-hex": "   7.51234   6.50588   4.20500   0.00000   0.00000  -3.75617   0.00000   0.00000   0.00000",   # hexagonal, v2x = -a/2 only
    "tric-pos": "   7.51234   4.50021   4.20500   0.00000   0.00000   1.20345   0.00000   0.70012   0.90170",   # all positive
    "tric-tiny": "   7.51234   4.50021   4.20500   0.00000   0.00000   0.00000   0.00000  -0.00002   0.00000",  # one small negative term
}
# the triclinic scope family rotates over these kinds (one per (sequence, subset) in turn) instead of multiplying the scope
BOX_ROTATION = {"rect": ("rect",), "tric": ("tric", "tric-neg", "tric-hex", "tric-pos", "tric-tiny")}
TITLES = ("C05 generated coarse-grained system", "C05 generated system, t= 0.00000   ",
          "",                                                   # blank title line
          "    ",                                               # spaces only
          "C05 syst\u00e8me \u00e0 gros grains \u2014 \u7cfb\u7edf \u00b5=1")   # multi-byte characters
# the two title families (which also fix the topology loading order) rotate over these titles, one per
# (sequence, subset) in turn, instead of multiplying the scope
TITLE_ROTATION = {0: (0, 2, 4), 1: (1, 3, 2)}

# molecule name -> CG and AA descriptions; atom templates in nm
SPEC = {
    "P": {"name": "MolP",
          "cg": {"res": [("PPP", ["A1", "A2", "A3"])],
                 "xyz": [(0.0, 0.0, 0.0), (0.30, 0.10, 0.0), (0.45, 0.40, 0.10)],
                 "bonds": [(1, 2), (2, 3)]},
          "aa": {"res": [("PA", ["C1", "C2", "C3", "C4", "H5"])],
                 "xyz": [(-0.05, 0.02, 0.03), (0.12, 0.08, -0.04), (0.31, 0.05, 0.06), (0.40, 0.28, 0.02), (0.50, 0.43, 0.15)],
                 "bonds": [(1, 2), (2, 3), (3, 4), (4, 5)]}},
    "Q": {"name": "MolQ",
          "cg": {"res": [("QQQ", ["B1"])], "xyz": [(0.0, 0.0, 0.0)], "bonds": []},
          "aa": {"res": [("QA", ["O1", "H2", "H3"])],
                 "xyz": [(0.02, -0.03, 0.01), (0.10, 0.02, -0.05), (-0.06, 0.08, 0.04)],
                 "bonds": [(1, 2), (1, 3)]}},
    "R": {"name": "MolR",
          "cg": {"res": [("RX", ["C1", "C2"]), ("RY", ["D1", "D2"]), ("RX", ["C1", "C2"])],
                 "xyz": [(0.0, 0.0, 0.0), (0.25, 0.12, 0.0), (0.50, 0.0, 0.10), (0.75, 0.15, 0.05), (1.0, 0.02, -0.05), (1.25, 0.14, 0.08)],
                 "bonds": [(1, 2), (2, 3), (3, 4), (4, 5), (5, 6)]},
          "aa": {"res": [("RXA", ["N", "CA", "C"]), ("RYA", ["N", "CA"]), ("RXA", ["N", "CA", "C"])],
                 "xyz": [(-0.04, 0.03, 0.02), (0.10, 0.09, -0.03), (0.27, 0.10, 0.04), (0.47, 0.03, 0.08), (0.70, 0.12, 0.03),
                         (0.95, 0.05, -0.02), (1.10, 0.10, 0.05), (1.28, 0.12, 0.10)],
                 "bonds": [(1, 2), (2, 3), (3, 4), (4, 5), (5, 6), (6, 7), (7, 8)]}},
    "W": {"name": None,
          "cg": {"res": [("SOL", ["OW"])], "xyz": [(0.0, 0.0, 0.0)], "bonds": []}},
}
LOADABLE = "PQR"
AA_RESID0 = 1          # residue numbers in the end-molecule files (differ from every system residue number)
AA_ATOMNR0 = 11        # atom numbers in the end-molecule files do not start at 1


def _rotation(axis, ang):
    x, y, z = np.array(axis, dtype=float) / math.sqrt(sum(a * a for a in axis))
    c, s = math.cos(ang), math.sin(ang)
    C = 1 - c
    return np.array([[c + x * x * C, x * y * C - z * s, x * z * C + y * s],
                     [y * x * C + z * s, c + y * y * C, y * z * C - x * s],
                     [z * x * C - y * s, z * y * C + x * s, c + z * z * C]])


def _placement(i):
    rot = _rotation((1.0 + (i % 2), 0.5 + (i % 3), 1.5 - 0.4 * i), 0.4 + 0.9 * i)
    shift = np.array([0.8 + 1.0 * i, 0.9 + 0.3 * (i % 3), 1.0 + 0.25 * ((2 * i) % 5)])
    return rot, shift


def _jitter(i, n):
    return np.array([[0.02 * math.sin(7 * i + 3 * j + k + 1) for k in range(3)] for j in range(n)])


def _fmt_gro(title, recs, boxline):
    out = [title, "%5d" % len(recs)]
    for resid, resname, name, nr, xyz in recs:
        out.append("%5d%-5s%5s%5d%8.3f%8.3f%8.3f" % (resid, resname, name, nr, xyz[0], xyz[1], xyz[2]))
    out.append(boxline)
    return "\n".join(out) + "\n"


def _fmt_itp(molname, residues, bonds):
    lines = ["; generated by the C05 contract module", "[ moleculetype ]", "; name nrexcl", f"{molname} 1", "", "[ atoms ]",
             "; nr type resnr residue atom cgnr charge mass"]
    nr = 1
    for ri, (resname, names) in enumerate(residues, 1):
        for nm in names:
            lines.append(f"{nr:5d} T{nr:<3d} {ri:5d} {resname:6s} {nm:5s} {nr:5d}   0.000  12.000")
            nr += 1
    if bonds:
        lines += ["", "[ bonds ]", "; ai aj funct c0 c1"]
        lines += [f"{a:5d} {b:5d} 1 0.300 1000.0" for a, b in bonds]
    return "\n".join(lines) + "\n"


def build_texts(seq, box, title_idx):
    """File contents for a species sequence: system .gro, CG .itp per loadable species present,
    end-molecule .gro/.itp placed on the first CG instance of the species."""
    title = TITLES[title_idx]
    recs, mol_ranges = [], []
    nr = 1
    first = {}
    for i, s in enumerate(seq):
        cg = SPEC[s]["cg"]
        rot, shift = _placement(i)
        tmpl = np.array(cg["xyz"], dtype=float) + _jitter(i, len(cg["xyz"]))
        xyz = tmpl @ rot.T + shift
        base = 3 + 11 * i
        gaps = [0, 2, 5]
        k = 0
        start = len(recs)
        resids = []
        for ri, (resname, names) in enumerate(cg["res"]):
            resids.append(base + gaps[ri])
            for nm in names:
                recs.append((base + gaps[ri], resname, nm, nr, xyz[k]))
                nr += 1
                k += 1
        mol_ranges.append((s, start, len(recs), resids))
        first.setdefault(s, i)
    texts = {"sys": _fmt_gro(title, recs, BOXES[box]), "cg_itp": {}, "aa_gro": {}, "aa_itp": {}}
    for s in LOADABLE:
        if s not in first:
            continue
        name = SPEC[s]["name"]
        texts["cg_itp"][name] = _fmt_itp(name, SPEC[s]["cg"]["res"], SPEC[s]["cg"]["bonds"])
        aa = SPEC[s]["aa"]
        rot, shift = _placement(first[s])
        xyz = np.array(aa["xyz"], dtype=float) @ rot.T + shift
        arecs, k = [], 0
        for ri, (resname, names) in enumerate(aa["res"]):
            for nm in names:
                arecs.append((AA_RESID0 + ri, resname, nm, AA_ATOMNR0 + k, xyz[k]))
                k += 1
        texts["aa_gro"][name] = _fmt_gro(f"end molecule {name}", arecs, "   3.00000   3.00000   3.00000")
        texts["aa_itp"][name] = _fmt_itp(name, aa["res"], aa["bonds"])
    return texts, mol_ranges


def write_files(d, texts):
    files = {"sys": os.path.join(d, "system_cg.gro"), "cg_itp": {}, "aa_gro": {}, "aa_itp": {}}
    with open(files["sys"], "w", encoding="utf-8") as f:
        f.write(texts["sys"])
    for key, suffix in (("cg_itp", "_CG.itp"), ("aa_gro", "_AA.gro"), ("aa_itp", "_AA.itp")):
        for name, txt in texts[key].items():
            p = os.path.join(d, name + suffix)
            with open(p, "w", encoding="utf-8") as f:
                f.write(txt)
            files[key][name] = p
    return files


# ---------------------------------------------------------------------------
# independent fixed-width .gro parser


def parse_gro(text):
    """Own reader of the .gro layout.  Returns title, declared count, records
    (resid, resname, atomname, atomnr, xyz, decimals), the nine box numbers in
    file order (missing ones 0) and a list of format problems."""
    out = {"title": None, "n_declared": None, "recs": [], "box": None, "problems": [], "fatal": False}
    lines = text.split("\n")
    while lines and lines[-1].strip() == "":      # a missing final terminator or trailing blank lines are not a defect
        lines = lines[:-1]
    if len(lines) < 3:
        out["problems"].append(f"only {len(lines)} lines")
        out["fatal"] = True
        return out
    out["title"] = lines[0]
    try:
        n = int(lines[1])
    except ValueError:
        out["problems"].append(f"second line is not an integer: {lines[1]!r}")
        out["fatal"] = True
        return out
    out["n_declared"] = n
    body = lines[2:-1]
    if len(body) != n:
        out["problems"].append(f"{n} atoms declared, {len(body)} atom lines before the last line")
    for ln in body:
        try:
            rest = ln[20:]
            nd = rest.count(".")
            if nd not in (3, 6) or len(rest) % nd:
                raise ValueError("bad coordinate fields")
            w = len(rest) // nd
            vals = [float(rest[k * w:(k + 1) * w]) for k in range(3)]
            dec = len(rest[:w].split(".")[1])
            out["recs"].append((int(ln[0:5]), ln[5:10].strip(), ln[10:15].strip(), int(ln[15:20]), vals, dec))
        except (ValueError, IndexError) as e:
            out["problems"].append(f"atom line not in .gro layout: {ln!r} ({e})")
            out["fatal"] = True
            return out
    try:
        b = [float(x) for x in lines[-1].split()]
        if len(b) not in (3, 9):
            raise ValueError(f"{len(b)} numbers")
        out["box"] = b + [0.0] * (9 - len(b))
    except ValueError as e:
        out["problems"].append(f"box line {lines[-1]!r}: {e}")
        out["fatal"] = True
    return out


def model_from_synthetic(texts, mol_ranges):
    p = parse_gro(texts["sys"])
    assert not p["problems"], p["problems"]
    mols = []
    for s, a, b, resids in mol_ranges:
        mols.append({"name": SPEC[s]["name"], "species": s, "resids": list(resids),
                     "xyz": np.array([r[4] for r in p["recs"][a:b]])})
    targets = {}
    for name, txt in texts["aa_gro"].items():
        targets[name] = _target_from_text(name, txt, mols)
    return {"title": p["title"], "box": p["box"], "mols": mols, "targets": targets}


def _target_from_text(name, aa_text, mols):
    q = parse_gro(aa_text)
    assert not q["problems"], q["problems"]
    atoms, ri, prev = [], -1, None
    for r in q["recs"]:
        if (r[0], r[1]) != prev:
            ri += 1
            prev = (r[0], r[1])
        atoms.append((r[1], r[2], ri))
    firstmol = next(m for m in mols if m["name"] == name)
    return {"atoms": atoms, "aa_xyz": np.array([r[4] for r in q["recs"]]), "n_ref": len(firstmol["xyz"]),
            "ref_first_xyz": firstmol["xyz"], "n_res": ri + 1}


# ---------------------------------------------------------------------------
# the contract on the output file (pure function of model + observation)


def evaluate_output(model, complete, text, expected, scale):
    """complete: set of molecule names with both resolutions.  expected: per input
    molecule that must be written, the positions given by the species' exchange map
    applied to that molecule (None for references of fewer than three atoms).
    Returns {clause: (ok, detail, nontrivial)}; ok is True, False (violation) or None (not decided by
    the statement: reported as undecided, never as a violation)."""
    R = {}
    p = parse_gro(text)
    R[WELLFORMED] = (not p["problems"], "; ".join(p["problems"][:3]), True)
    if p["fatal"]:
        return R
    t_ok = True if p["title"] == model["title"] else (None if p["title"].rstrip() == model["title"].rstrip() else False)
    R[TITLE] = (t_ok, f"title {p['title']!r}, input title {model['title']!r}"
                + (" (differ in trailing white space only: not decided by the statement)" if t_ok is None else ""), True)
    dbox = max(abs(a - b) for a, b in zip(p["box"], model["box"]))
    R[BOX] = (dbox <= 5e-6, f"box {p['box']}, input box {model['box']}", True)
    targets = model["targets"]
    written = [m for m in model["mols"] if m["name"] in complete]
    skipped = len(model["mols"]) - len(written)
    exp_struct = [(rn, an) for m in written for (rn, an, _) in targets[m["name"]]["atoms"]]
    recs = p["recs"]
    R[COUNT] = (len(recs) == len(exp_struct) and p["n_declared"] == len(exp_struct),
                f"{len(recs)} records, {p['n_declared']} declared, expected {len(exp_struct)} = sum of target sizes of "
                f"{[m['name'] for m in written]}", True)
    nrs = [r[3] for r in recs]
    bad = next((k for k, v in enumerate(nrs) if v != k + 1), None)
    R[NUMBERS] = (bad is None, "" if bad is None else f"record {bad} has atom number {nrs[bad]}, expected {bad + 1}",
                  len(written) >= 2)
    obs_struct = [(r[1], r[2]) for r in recs]
    if obs_struct != exp_struct:
        k = next((k for k, (a, b) in enumerate(zip(obs_struct, exp_struct)) if a != b), min(len(obs_struct), len(exp_struct)))
        R[ORDER] = (False, f"records differ from the concatenation of the targets of {[m['name'] for m in written]} at record {k}: "
                           f"observed {obs_struct[k] if k < len(obs_struct) else None}, expected {exp_struct[k] if k < len(exp_struct) else None}",
                    True)
        return R
    R[ORDER] = (True, "", len(written) >= 2 or skipped > 0)
    k = 0
    res_bad = crd_bad = small_bad = crd_gray = small_gray = None
    n_big = n_small = 0
    worst = 0.0
    for mi, m in enumerate(written):
        t = targets[m["name"]]
        chunk = recs[k:k + len(t["atoms"])]
        k += len(t["atoms"])
        want_res = [m["resids"][ri] for (_, _, ri) in t["atoms"]]
        got_res = [r[0] for r in chunk]
        if got_res != want_res and res_bad is None:
            res_bad = f"written molecule {mi} ({m['name']}): residue numbers {got_res}, input molecule has {m['resids']} -> expected {want_res}"
        half = 0.5 * 10.0 ** (-chunk[0][5])
        got = np.array([r[4] for r in chunk])
        if t["n_ref"] >= 3:
            n_big += 1
            exp = expected[mi]
            if exp is None:
                continue
            dev = float(np.abs(got - np.asarray(exp)).max())
            worst = max(worst, dev)
            if dev > half + 1e-9 and (crd_bad is None or crd_gray is None):
                j = int(np.abs(got - np.asarray(exp)).max(axis=1).argmax())
                msg = (f"written molecule {mi} ({m['name']}) atom {j}: written {got[j].tolist()}, exchange map of the input molecule gives "
                       f"{np.asarray(exp)[j].tolist()} (|diff| {dev:.6f}; half a unit of the last decimal is {half}, one unit {2 * half})")
                if dev > 2 * half + 1e-9:
                    crd_bad = crd_bad or msg
                else:
                    crd_gray = crd_gray or msg
        else:
            n_small += 1
            tol = math.sqrt(3.0) * half + 1e-9            # rounding to the nearest unit; twice that (truncation) is the violation limit
            ref = m["xyz"][0]
            cons = np.linalg.norm(t["aa_xyz"] - t["ref_first_xyz"][0], axis=1)
            d = np.linalg.norm(got - ref, axis=1)
            err = np.abs(d - scale * cons)
            if err.max() > tol:
                j = int(err.argmax())
                msg = (f"written molecule {mi} ({m['name']}) atom {j}: distance to the reference atom {d[j]:.5f}, "
                       f"expected scale*construction distance = {scale}*{cons[j]:.5f} = {scale * cons[j]:.5f} "
                       f"(rounding tol {tol:.5f}, limit {2 * tol:.5f})")
                if err.max() > 2 * tol:
                    small_bad = small_bad or msg
                else:
                    small_gray = small_gray or msg
            for a, b in itertools.combinations(range(len(got)), 2):
                e2 = abs(np.linalg.norm(got[a] - got[b]) - scale * np.linalg.norm(t["aa_xyz"][a] - t["aa_xyz"][b]))
                if e2 > 2 * tol:
                    msg = (f"written molecule {mi} ({m['name']}): distance between image atoms {a},{b} differs from the scaled "
                           f"target distance by {e2:.5f} (rounding tol {2 * tol:.5f}, limit {4 * tol:.5f})")
                    if e2 > 4 * tol:
                        small_bad = small_bad or msg
                    else:
                        small_gray = small_gray or msg
    R[RESIDS] = (res_bad is None, res_bad or "", True)
    if n_big:
        R[COORDS] = (False if crd_bad else (None if crd_gray else True), crd_bad or crd_gray or f"max |diff| {worst:.6f}", True)
    if n_small:
        R[SMALLREF] = (False if small_bad else (None if small_gray else True), small_bad or small_gray or "", True)
    return R


# ---------------------------------------------------------------------------
# running the real code


def _call(fn, *a):
    with warnings.catch_warnings():
        warnings.simplefilter("ignore")
        with contextlib.redirect_stdout(io.StringIO()):
            try:
                return fn(*a), None
            except Exception as e:  # noqa
                return None, e


class Harness(Exception):
    pass


def _info(ok):
    """Observations the statement does not speak about (public helper properties, attributes, the library's own
    reader): a mismatch is reported as undecided, never as a violation."""
    return True if ok else None


def _rm(p):
    try:
        os.remove(p)
    except OSError:
        pass


def _expect_refusal(manager, path):
    _rm(path)
    _, e = _call(manager.extrapolate_system, path)
    exists = os.path.exists(path)
    _rm(path)
    ok = e is not None and not exists        # the statement says "raises an error": any exception type is accepted
    return ok, f"exception={type(e).__name__ if e is not None else None}({e}) output_file_created={exists}; expected an error and no file"


def run_case(files, model, load_order, subset, scale, workdir, keep=None):
    """One contract evaluation sequence on a fresh System/Manager.
    Returns {clause: (ok, detail, nontrivial)}; raises Harness for set-up problems."""
    from gaddlemaps import Manager
    from gaddlemaps.components import System, Molecule
    R = {}
    system, e = _call(lambda: System(files["sys"], *[files["cg_itp"][n] for n in load_order]))
    if e is not None:
        raise Harness(f"System(...) raised {type(e).__name__}: {e}")
    manager, e = _call(Manager, system)
    if e is not None:
        raise Harness(f"Manager(system) raised {type(e).__name__}: {e}")
    try:
        # ---- no species with both resolutions
        cc, e = _call(lambda: dict(manager.complete_correspondence))
        R[CC_KEYS] = (_info(e is None and set(cc) == set()), f"no end molecule attached: keys {sorted(cc) if cc is not None else e!r}, expected none", True)
        R[RAISES_NONE] = _expect_refusal(manager, os.path.join(workdir, "out_none.gro")) + (True,)
        if not subset:
            return R
        ends = {}
        for name in subset:
            m, e = _call(Molecule.from_files, files["aa_gro"][name], files["aa_itp"][name])
            if e is not None:
                raise Harness(f"Molecule.from_files for the end molecule of {name} raised {type(e).__name__}: {e}")
            ends[name] = m
        # ---- attach all but the last, calculate their maps, attach the last: one map is missing
        for name in subset[:-1]:
            _, e = _call(manager.add_end_molecule, ends[name])
            if e is not None:
                R[ADD_END] = (False, f"add_end_molecule({name}) raised {type(e).__name__}: {e}", True)
                return R
        if len(subset) >= 2:
            _, e = _call(manager.calculate_exchange_maps, scale)
            if e is not None:
                R[MAPS_SET] = (False, f"calculate_exchange_maps({scale}) raised {type(e).__name__}: {e}", True)
                return R
        # the last species gets its end molecule either through add_end_molecule or -- every other case -- the other documented way,
        # assignment to molecule_correspondence[name].end (the correspondence table has been read above: nothing may be remembered from it)
        if (len(model["mols"]) + len(subset) + int(round(scale * 10))) % 2 == 0:
            _, e = _call(manager.add_end_molecule, ends[subset[-1]])
        else:
            def _assign():
                manager.molecule_correspondence[subset[-1]].end = ends[subset[-1]]
            _, e = _call(_assign)
        if e is not None:
            R[ADD_END] = (False, f"attaching the end molecule of {subset[-1]} raised {type(e).__name__}: {e}", True)
            return R
        R[ADD_END] = (True, "", True)
        cc, e = _call(lambda: dict(manager.complete_correspondence))
        R[CC_KEYS] = (_info(R[CC_KEYS][0] is True and e is None and set(cc) == set(subset)),
                      R[CC_KEYS][1] if R[CC_KEYS][0] is not True else f"end molecules attached for {sorted(subset)}: keys {sorted(cc) if cc is not None else e!r}", True)
        ok, det = _expect_refusal(manager, os.path.join(workdir, "out_nomap.gro"))
        R[RAISES_MAP] = (ok, f"map of {subset[-1]} not calculated ({len(subset) - 1} other maps exist): " + det, True)
        # ---- all maps
        _, e = _call(manager.calculate_exchange_maps, scale)
        if e is not None:
            R[MAPS_SET] = (False, f"calculate_exchange_maps({scale}) raised {type(e).__name__}: {e}", True)
            return R
        try:
            have = sorted(n for n, a in manager.molecule_correspondence.items() if a.exchange_map is not None)
        except Exception as e:  # noqa
            raise Harness(f"cannot read Alignment.exchange_map: {type(e).__name__}: {e}")
        R[MAPS_SET] = (_info(have == sorted(subset)), f"species with a map {have}, species with both resolutions {sorted(subset)}", True)
        out = os.path.join(workdir, "out.gro")
        _rm(out)
        _, e = _call(manager.extrapolate_system, out)
        exists = os.path.isfile(out)
        R[RETURNS] = (e is None and exists, f"exception={type(e).__name__ if e is not None else None}({e}) file_written={exists}", True)
        if R[RETURNS][0] is not True:
            _rm(out)
            return R
        with open(out, encoding="utf-8", errors="replace") as f:
            text = f.read()
        # ---- the input molecules as the real System yields them must be the generated ones
        mols, e = _call(lambda: list(manager.system))
        if e is not None:
            raise Harness(f"iterating the System raised {type(e).__name__}: {e}")
        loaded = [m for m in model["mols"] if m["name"] in load_order]
        if len(mols) != len(loaded):
            raise Harness(f"System yields {len(mols)} molecules, the generated file has {len(loaded)} of the loaded species")
        # the System may hand its molecules out in another order than the file (that would be a defect of the System, C11, and shows
        # below as a violation of 'in input-file order'): pair them with the generated molecules by identity, not by position
        by_id = {(m_.name, tuple(m_.resids)): m_ for m_ in mols}
        paired = []
        for gm in loaded:
            sm = by_id.get((gm["name"], tuple(gm["resids"])))
            if sm is None or np.abs(sm.atoms_positions - gm["xyz"]).max() > 1e-9:
                raise Harness(f"the System has no molecule matching the generated molecule {gm['name']} {gm['resids']}")
            paired.append(sm)
        expected = []
        for sm, gm in zip(paired, loaded):
            if gm["name"] not in subset:
                continue
            if model["targets"][gm["name"]]["n_ref"] >= 3:
                new, e = _call(manager.molecule_correspondence[gm["name"]].exchange_map, sm)
                if e is not None:
                    raise Harness(f"exchange_map(mol) of {gm['name']} raised {type(e).__name__}: {e}")
                expected.append(np.array(new.atoms_positions, dtype=float))
            else:
                expected.append(None)
        if keep is not None:
            keep.update(text=text, expected=expected)
        R.update(evaluate_output(model, set(subset), text, expected, scale))
        c_ok, c_det = _crossread(out, text)
        R[CROSS] = (_info(c_ok), c_det, True)        # GroFile's reader has its own contracts (C13/C14): informational here
        _rm(out)
        # ---- the statement holds for EVERY extrapolation: a second one on the same manager (same maps) must satisfy the same contract
        #      (atom numbers from 1 again, same molecules, same title and box) -- state kept between calls would show here
        out2 = os.path.join(workdir, "out_again.gro")
        _rm(out2)
        _, e = _call(manager.extrapolate_system, out2)
        if e is not None or not os.path.isfile(out2):
            R[AGAIN] = (False, f"second call: exception={type(e).__name__ if e is not None else None}({e}) file_written={os.path.isfile(out2)}", True)
        else:
            with open(out2, encoding="utf-8", errors="replace") as f:
                text2 = f.read()
            R2 = evaluate_output(model, set(subset), text2, expected, scale)
            bad2 = [(cl, v[1]) for cl, v in R2.items() if v[0] is False and R.get(cl, (True,))[0] is not False]
            R[AGAIN] = (not bad2, "second call on the same manager: " + "; ".join(f"{cl}: {d_}" for cl, d_ in bad2[:2]), True)
        _rm(out2)
        return R
    finally:
        del manager, system


def _crossread(path, text):
    from gaddlemaps.parsers import GroFile
    p = parse_gro(text)
    if p["fatal"]:
        return False, "own parser could not read the output"
    try:
        with warnings.catch_warnings():
            warnings.simplefilter("ignore")
            g = GroFile(path)
            try:
                recs = list(g)
                nat, com, bm = g.natoms, g.comment, np.array(g.box_matrix, dtype=float)
            finally:
                g.close()
    except Exception as e:  # noqa
        return False, f"GroFile cannot read the written file: {type(e).__name__}: {e}"
    if nat != len(p["recs"]) or len(recs) != len(p["recs"]):
        return False, f"GroFile sees {nat} atoms / {len(recs)} records, own parser {len(p['recs'])}"
    if com.rstrip("\n") != p["title"]:
        return False, f"GroFile comment {com!r}, own parser {p['title']!r}"
    idx = (0, 4, 8, 1, 2, 3, 5, 6, 7)
    gb = [float(bm.ravel()[i]) for i in idx]
    if max(abs(a - b) for a, b in zip(gb, p["box"])) > 1e-9:
        return False, f"GroFile box {gb}, own parser {p['box']}"
    for k, (a, b) in enumerate(zip(recs, p["recs"])):
        if tuple(a[:4]) != tuple(b[:4]) or max(abs(x - y) for x, y in zip(a[4:7], b[4])) > 1e-12:
            return False, f"record {k}: GroFile {a}, own parser {b}"
    return True, ""


# ---------------------------------------------------------------------------
# enumeration


def sequences(maxlen):
    for L in range(1, maxlen + 1):
        for seq in itertools.product("PQRW", repeat=L):
            if any(c in LOADABLE for c in seq):
                yield "".join(seq)


def subsets(names):
    for r in range(len(names) + 1):
        for c in itertools.combinations(names, r):
            yield list(c)


def load_order_for(seq, title_family):
    order = [SPEC[s]["name"] for s in LOADABLE if s in seq]
    return order if title_family == 0 else order[::-1]


def synthetic_case(seq, box, title_idx, subset, scale, workdir, keep=None, order=None):
    texts, ranges = build_texts(seq, box, title_idx)
    model = model_from_synthetic(texts, ranges)
    files = write_files(workdir, texts)
    order = list(order) if order else load_order_for(seq, title_idx % 2)
    sub = [n for n in order if n in subset]
    return run_case(files, model, order, sub, scale, workdir, keep=keep), texts, model


class Agg:
    def __init__(self, family):
        self.family = family
        self.n, self.nt, self.nbad, self.first, self.sample, self.gray = {}, {}, {}, {}, {}, {}
        self.harness = []

    def add(self, results, case):
        for clause, (ok, detail, nontriv) in results.items():
            self.n[clause] = self.n.get(clause, 0) + 1
            self.nt[clause] = self.nt.get(clause, 0) + (1 if nontriv else 0)
            if clause not in self.sample or _size(case) > _size(self.sample[clause]):
                self.sample[clause] = case              # the evidence shows the largest enumerated case
            if ok is False:
                self.nbad[clause] = self.nbad.get(clause, 0) + 1
                self.first.setdefault(clause, (case, detail))
            elif ok is None:
                self.gray.setdefault(clause, (case, detail))

    def obligations(self, secs):
        out = []
        for clause in self.n:
            oid = _oid(clause, self.family)
            if clause in self.first:
                case, detail = self.first[clause]
                cex = dict(case)
                cex["clause"] = clause
                cex["signature"] = f"{case['kind']}:{clause}"
                out.append(ob(oid, "refuted", kind="bounded", engine="smallscope", backend="runtime-contract", secs=secs,
                              evaluations=self.n[clause], nontrivial=self.nt[clause],
                              reason=f"{self.nbad[clause]}/{self.n[clause]} evaluations fail; first: {_short(case)} :: {detail}",
                              cex=cex, sample=_short(self.sample[clause])))
            elif clause in self.gray:
                case, detail = self.gray[clause]
                out.append(ob(oid, "undecided", kind="bounded", engine="smallscope", backend="runtime-contract", secs=secs,
                              evaluations=self.n[clause], nontrivial=self.nt[clause],
                              reason=f"not decided by the statement; first: {_short(case)} :: {detail}",
                              sample=_short(self.sample[clause])))
            else:
                out.append(ob(oid, "discharged", kind="bounded", engine="smallscope", backend="runtime-contract", secs=secs,
                              evaluations=self.n[clause], nontrivial=self.nt[clause], sample=_short(self.sample[clause])))
            secs = 0.0
        for k, (case, msg) in enumerate(self.harness[:3]):
            out.append(ob(f"{PROP}/harness/{self.family}/setup#{k}", "undecided", kind="bounded", engine="smallscope",
                          backend="runtime-contract", reason=f"{_short(case)}: {msg}"))
        return out


def _case_seed(case, seed):
    import zlib
    key = "|".join(str(case.get(k)) for k in ("kind", "seq", "subset", "box", "scale", "title")) + f"|{seed}"
    return zlib.crc32(key.encode()) & 0x7FFFFFFF


def _size(case):
    return len(case.get("seq", "")) + len(case["subset"])


def _short(case):
    return {k: v for k, v in case.items() if k not in ("system_gro",)}


def family_name(maxlen, first, second, box, ti):
    f = f"seq<={maxlen}/first={first}"
    if second is not None:
        f += f",second={second or 'none'}"
    return f + f",box={box},title={'plain' if ti == 0 else 'trailing-blanks'}"


def task_synthetic(maxlen, first, second, box, ti, seed):
    """All sequences of the scope that start with `first` (and, when `second` is given, continue with
    `second`; '' = length one), one box kind, one title variant (which also fixes the topology loading order)."""
    np.random.seed(12345 + seed)
    t0 = time.time()
    agg = Agg(family_name(maxlen, first, second, box, ti))
    d = tempfile.mkdtemp(prefix="c05_")
    nseq = -1
    try:
        for seq in sequences(maxlen):
            if seq[0] != first or (second is not None and seq[1:2] != second):
                continue
            nseq += 1
            order = load_order_for(seq, ti)
            kinds = BOX_ROTATION[box]
            for si, sub in enumerate(subsets(order)):
                kind = kinds[(nseq + si) % len(kinds)]
                tix = TITLE_ROTATION[ti][(nseq + si) % len(TITLE_ROTATION[ti])]
                texts, ranges = build_texts(seq, kind, tix)
                model = model_from_synthetic(texts, ranges)
                files = write_files(d, texts)
                for scale in (SCALES if sub else SCALES[:1]):
                    case = {"kind": "synthetic", "seq": seq, "subset": sub, "box": kind, "scale": scale,
                            "title": tix, "load_order": order, "system_gro": texts["sys"]}
                    case["rseed"] = _case_seed(case, seed)
                    np.random.seed(case["rseed"])      # the free rotation of small references is replayable per case
                    try:
                        agg.add(run_case(files, model, order, sub, scale, d), case)
                    except Harness as e:
                        agg.harness.append((case, str(e)))
    finally:
        shutil.rmtree(d, ignore_errors=True)
    return agg.obligations(time.time() - t0)


# ---------------------------------------------------------------------------
# shipped BMIM/BF4 box

SHIPPED = {"BMIM": ("BMIM_CG.itp", "BMIM_AA.gro", "BMIM_AA.itp"), "BF4": ("BF4_CG.itp", "BF4_AA.gro", "BF4_AA.itp")}


def _data_dir():
    import gaddlemaps
    return os.path.join(os.path.dirname(gaddlemaps.__file__), "data")


def shipped_setup():
    dd = _data_dir()
    files = {"sys": os.path.join(dd, "system_bmimbf4_cg.gro"), "cg_itp": {}, "aa_gro": {}, "aa_itp": {}}
    for n, (cg, ag, ai) in SHIPPED.items():
        files["cg_itp"][n] = os.path.join(dd, cg)
        files["aa_gro"][n] = os.path.join(dd, ag)
        files["aa_itp"][n] = os.path.join(dd, ai)
    with open(files["sys"]) as f:
        p = parse_gro(f.read())
    if p["problems"]:
        raise Harness(f"own parser cannot read the shipped system: {p['problems'][:2]}")
    mols, prev = [], None
    for r in p["recs"]:
        if (r[0], r[1]) != prev:
            prev = (r[0], r[1])
            mols.append({"name": r[1], "resids": [r[0]], "xyz": []})
        mols[-1]["xyz"].append(r[4])
    for m in mols:
        m["xyz"] = np.array(m["xyz"])
    targets = {}
    for n in SHIPPED:
        with open(files["aa_gro"][n]) as f:
            targets[n] = _target_from_text(n, f.read(), mols)
    return files, {"title": p["title"], "box": p["box"], "mols": mols, "targets": targets}


def task_shipped(subset_list, scales, seed):
    np.random.seed(777 + seed)
    t0 = time.time()
    agg = Agg("shipped-bmimbf4/" + ("+".join(subset_list[0]) if len(subset_list) == 1 and subset_list[0] else "subsets"))
    d = tempfile.mkdtemp(prefix="c05s_")
    try:
        try:
            files, model = shipped_setup()
        except (Harness, OSError, AssertionError) as e:
            return [ob(f"{PROP}/harness/shipped-bmimbf4/setup", "undecided", kind="bounded", engine="smallscope",
                       backend="runtime-contract", reason=str(e))]
        order = ["BMIM", "BF4"]
        for sub in subset_list:
            for scale in (scales if sub else scales[:1]):
                case = {"kind": "shipped", "subset": sub, "scale": scale, "load_order": order}
                case["rseed"] = _case_seed(case, seed)
                np.random.seed(case["rseed"])
                try:
                    agg.add(run_case(files, model, order, sub, scale, d), case)
                except Harness as e:
                    agg.harness.append((case, str(e)))
    finally:
        shutil.rmtree(d, ignore_errors=True)
    return agg.obligations(time.time() - t0)


# ---------------------------------------------------------------------------
# guards: the clauses must reject deliberately corrupted observations


def _corruptions(text, model, complete):
    lines = text.split("\n")
    n = int(lines[1])
    body = lines[2:2 + n]
    written = [m for m in model["mols"] if m["name"] in complete]
    sizes = [len(model["targets"][m["name"]]["atoms"]) for m in written]

    def join(title=None, b=None, box=None):
        b = body if b is None else b
        return "\n".join([lines[0] if title is None else title, "%5d" % len(b)] + b + [lines[2 + n] if box is None else box]) + "\n"

    out = {}
    # atom counter restarted for every molecule
    b, k = [], 0
    for s in sizes:
        for j in range(s):
            b.append(body[k][:15] + "%5d" % (j + 1) + body[k][20:])
            k += 1
    out[NUMBERS] = join(b=b)
    out[COUNT] = join(b=body[:-sizes[-1]])                       # last molecule dropped
    out[ORDER] = join(b=body[sizes[0]:] + body[:sizes[0]])       # first molecule moved to the end
    out[TITLE] = join(title="Gro file genereted with 'Gromacs Tools' python module.")
    out[BOX] = join(box=lines[2 + n][:30])                       # tilt terms dropped: the cell silently becomes rectangular
    # residue numbers of the end-molecule file instead of the input molecule's
    out[RESIDS] = join(b=[("%5d" % AA_RESID0) + l[5:] for l in body[:sizes[0]]] + body[sizes[0]:])
    # one coordinate moved by two units of the last decimal, in a molecule with a >= 3 atom reference
    k = 0
    for m, s in zip(written, sizes):
        if model["targets"][m["name"]]["n_ref"] >= 3:
            l = body[k + s - 1]
            out[COORDS] = join(b=body[:k + s - 1] + [l[:20] + "%8.3f" % (float(l[20:28]) + 0.002) + l[28:]] + body[k + s:])
            break
        k += s
    k = 0
    for m, s in zip(written, sizes):
        if model["targets"][m["name"]]["n_ref"] < 3:
            l = body[k + s - 1]
            out[SMALLREF] = join(b=body[:k + s - 1] + [l[:20] + "%8.3f" % (float(l[20:28]) + 0.05) + l[28:]] + body[k + s:])
            break
        k += s
    out[WELLFORMED] = "\n".join(lines[:2] + body[:-1] + [lines[2 + n]]) + "\n"   # count line not updated
    return out


def _reference_observation(model, complete, scale, boxline):
    """An output text that satisfies the contract, built by this module alone (no repo code):
    big references get the target translated onto the input molecule (taken as 'the map'),
    small references the target scaled about the reference atom."""
    recs, expected, nr = [], [], 1
    for m in model["mols"]:
        if m["name"] not in complete:
            continue
        t = model["targets"][m["name"]]
        if t["n_ref"] >= 3:
            xyz = t["aa_xyz"] + (m["xyz"][0] - t["ref_first_xyz"][0]) + 0.00013
            expected.append(xyz)
        else:
            xyz = m["xyz"][0] + scale * (t["aa_xyz"] - t["ref_first_xyz"][0])
            expected.append(None)
        for (rn, an, ri), x in zip(t["atoms"], xyz):
            recs.append((m["resids"][ri], rn, an, nr, x))
            nr += 1
    return _fmt_gro(model["title"], recs, boxline), expected


class _FakeManager:
    """Stand-ins for the must-fail guards of the refusal clauses."""

    def __init__(self, mode):
        self.mode = mode

    def extrapolate_system(self, path):
        if self.mode in ("writes", "file-then-error"):
            with open(path, "w") as f:
                f.write("x\n")
        if self.mode in ("file-then-error",):
            raise SystemError("late")
        if self.mode == "ValueError":
            raise ValueError("wrong exception type")


def task_guards(seed):
    out = []
    d = tempfile.mkdtemp(prefix="c05g_")
    try:
        seq, box, ti, scale = "RPQWR", "tric-neg", 1, 1.7
        texts, ranges = build_texts(seq, box, ti)
        model = model_from_synthetic(texts, ranges)
        complete = set(load_order_for(seq, ti))
        text, expected = _reference_observation(model, complete, scale, BOXES[box])
        R = evaluate_output(model, complete, text, expected, scale)
        sane = all(v[0] is True for v in R.values()) and set(OUTPUT_CLAUSES) <= set(R)
        out.append(ob(f"{FN}/guard.conforming-observation-accepted", "discharged" if sane else "refuted", kind="guard",
                      engine="smallscope", backend="runtime-contract", expect="discharged",
                      sample={"seq": seq, "box": box, "scale": scale, "clauses": sorted(R)},
                      reason="" if sane else "; ".join(f"{c}: {v[1]}" for c, v in R.items() if v[0] is not True)[:500]))
        cor = _corruptions(text, model, complete)
        for clause in OUTPUT_CLAUSES:
            if clause not in cor:
                out.append(ob(f"{FN}/guard.must-fail/{clause}", "undecided", kind="guard", engine="smallscope",
                              backend="runtime-contract", expect="refuted", reason="no corruption built"))
                continue
            r = evaluate_output(model, complete, cor[clause], expected, scale)
            caught = clause in r and r[clause][0] is False
            out.append(ob(f"{FN}/guard.must-fail/{clause}", "refuted" if caught else "discharged", kind="guard",
                          engine="smallscope", backend="runtime-contract", expect="refuted", evaluations=1,
                          reason=(r.get(clause) or (None, "clause not evaluated"))[1][:300]))
        # cross-read guard: a file GroFile must not agree with (count line says one atom more)
        p = os.path.join(d, "broken.gro")
        lines = text.split("\n")
        with open(p, "w") as f:
            f.write("\n".join([lines[0], "%5d" % (int(lines[1]) + 1)] + lines[2:]))
        ok, det = _crossread(p, text)
        good = os.path.join(d, "good.gro")
        with open(good, "w") as f:
            f.write(text)
        ok2, det2 = _crossread(good, text)
        out.append(ob(f"{FN}/guard.must-fail/{CROSS}", "refuted" if (not ok and ok2) else "discharged", kind="guard",
                      engine="smallscope", backend="runtime-contract", expect="refuted", evaluations=2,
                      reason=(det + " | conforming file: " + (det2 or "agrees"))[:300]))
        # refusal clauses: must reject 'returns and writes' and 'file created before the error';
        # must accept an error of any type (the statement names none) that leaves no file
        for mode in ("writes", "file-then-error"):
            ok, det = _expect_refusal(_FakeManager(mode), os.path.join(d, "guard.gro"))
            out.append(ob(f"{FN}/guard.must-fail/raises.error_and_no_file/{mode}", "refuted" if not ok else "discharged",
                          kind="guard", engine="smallscope", backend="runtime-contract", expect="refuted", evaluations=1,
                          reason=det[:250]))
        ok, det = _expect_refusal(_FakeManager("ValueError"), os.path.join(d, "guard.gro"))
        out.append(ob(f"{FN}/guard.any-error-type-accepted", "discharged" if ok else "refuted", kind="guard", engine="smallscope",
                      backend="runtime-contract", expect="discharged", evaluations=1, reason=det[:250]))
        # truncation-style rounding (off by between half a unit and one unit) must come back undecided, not refuted
        lines = text.split("\n")
        l = lines[2]
        shifted = "\n".join(lines[:2] + [l[:20] + "%8.3f" % (float(l[20:28]) + 0.001) + l[28:]] + lines[3:])
        r = evaluate_output(model, complete, shifted, expected, scale)
        out.append(ob(f"{FN}/guard.one-unit-rounding-not-a-violation", "discharged" if r[COORDS][0] is None else "refuted",
                      kind="guard", engine="smallscope", backend="runtime-contract", expect="discharged", evaluations=1,
                      reason=str(r[COORDS][1])[:250]))
        # vacuity: the quick scope contains solvent, repeats, interleaving, the multi-residue and the one-atom species
        seqs = list(sequences(3))
        cover = {"solvent": any("W" in s for s in seqs), "repeat": any(len(set(s)) < len(s) for s in seqs),
                 "interleaved": "PRP" in seqs, "multi-residue": any("R" in s for s in seqs),
                 "one-atom-reference": any("Q" in s for s in seqs), "sequences": len(seqs),
                 "box-kinds": sorted(k for v in BOX_ROTATION.values() for k in v),
                 "titles": [TITLES[i] for i in sorted({i for v in TITLE_ROTATION.values() for i in v})] or None}
        out.append(ob(f"{FN}/guard.scope-not-vacuous", "discharged" if all(cover.values()) else "refuted", kind="guard",
                      engine="smallscope", backend="enumeration", expect="discharged", sample=cover))
    finally:
        shutil.rmtree(d, ignore_errors=True)
    return out


# ---------------------------------------------------------------------------


def tasks(prop, tier, seed):
    thorough = tier == "thorough"
    maxlen = 5 if thorough else 3
    from . import d05_extrapolate_vc
    t = list(d05_extrapolate_vc.deductive_tasks(prop, tier, seed))
    for first in "PQRW":
        for second in (("", "P", "Q", "R", "W") if thorough else (None,)):
            if first == "W" and second == "":
                continue                      # the one-molecule sequence 'W' has no loadable species
            for box in ("rect", "tric"):
                for ti in (0, 1):
                    t.append(("synthetic/" + family_name(maxlen, first, second, box, ti), task_synthetic,
                              (maxlen, first, second, box, ti, seed), 1800.0 if thorough else 300.0))
    if thorough:
        for sub in ([], ["BMIM"], ["BF4"], ["BMIM", "BF4"]):
            t.append((f"shipped-bmimbf4/{'+'.join(sub) or 'none'}", task_shipped, ([sub], SCALES, seed), 1800.0))
    else:
        t.append(("shipped-bmimbf4/BMIM+BF4", task_shipped, ([["BMIM", "BF4"]], (0.5,), seed), 300.0))
    t.append(("guards", task_guards, (seed,), 300.0))
    return t


def replay(prop, cex):
    if cex.get("kind") == "vc":
        # a failed proof obligation of the loop: search the bounded scope of the real code for a failing run
        for name, fn, args, _lim in tasks(prop, "quick", 0)[1:9]:
            try:
                obs = fn(*args)
            except Exception:
                continue
            for o in obs:
                if o.get("status") == "refuted" and o.get("kind") != "guard" and o.get("cex"):
                    r = replay(prop, o["cex"])
                    if r and r.get("reproduced"):
                        r["note"] = f"failed obligation {cex.get('obligation') or cex.get('signature')} manifests on the real Manager.extrapolate_system"
                        return r
        return {"reproduced": False, "inputs": cex, "note": "no failing run found in the bounded scope"}
    np.random.seed(int(cex.get("rseed", 2024)))
    clause = cex.get("clause")
    d = tempfile.mkdtemp(prefix="c05r_")
    try:
        try:
            if cex.get("kind") == "shipped":
                files, model = shipped_setup()
                R = run_case(files, model, list(cex.get("load_order") or ["BMIM", "BF4"]), list(cex["subset"]),
                             float(cex["scale"]), d)
            else:
                R, _, _ = synthetic_case(cex["seq"], cex["box"], int(cex["title"]), list(cex["subset"]), float(cex["scale"]), d,
                                            order=cex.get("load_order"))
        except Harness as e:
            return {"reproduced": False, "note": f"set-up problem on replay: {e}", "inputs": cex}
        failed = {c: v[1] for c, v in R.items() if v[0] is False}
        rep = clause in failed if clause else bool(failed)
        return {"reproduced": bool(rep), "observed": failed.get(clause) if clause in failed else failed,
                "expected": f"clause {clause} of the contract on Manager.extrapolate_system holds",
                "violated": sorted(failed), "inputs": cex}
    finally:
        shutil.rmtree(d, ignore_errors=True)
