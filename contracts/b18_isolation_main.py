"""Scratch main module for developing contracts/b18_isolation.py before contracts/c18_copies.py exists:
VERIF_PROPS_OVERRIDE="C18=contracts.b18_isolation_main" ./check C18 --tier quick
"""
from contracts import b18_isolation as B


def info(prop):
    d = B.bounded_info()
    d.setdefault("level", "other")
    return d


def tasks(prop, tier, seed):
    return B.bounded_tasks(prop, tier, seed)


def replay(prop, cex):
    return B.replay(prop, cex)
