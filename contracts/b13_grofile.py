"""B13 -- bounded, file-level part of C13 ("Writing then reading a .gro file returns the same system").

Run-time contract checks (kind="bounded", engine="smallscope") on the real
gaddlemaps.parsers.GroFile in write mode and then in read mode, on real files:

    f = GroFile(path, "w"); f.position_format = (w, d); f.comment = title; f.box_matrix = box;
    [f.natoms = n]; f.writeline(rec) ... / f.writelines(recs); f.close()
    g = GroFile(path); g.readlines(), g.box_matrix, g.comment, g.natoms, g.position_format

Oracle (both must hold): (a) an independent fixed-width reading of the bytes of the written file
(this module's own parser, GROMACS column layout and box order), compared with the records that
were generated; (b) what the real reader returns, compared with the same generated records.
Expected values are always derived from the generated input, never from the object under check.

The deductive per-record part (layout, wrap arithmetic) lives in the main C13 module; this helper
exposes bounded_info / bounded_tasks / replay.
"""
from __future__ import annotations

import contextlib
import io
import math
import numbers
import os
import random
import re
import shutil
import tempfile
import time
import warnings
import zlib
from fractions import Fraction

from vf.core import ob

PFX = "b13:"
F_FILE = "GroFile.write+read"
F_ALIST = "GroFile.parse_atomlist"
F_ALINE = "GroFile.parse_atomline"
F_DFMT = "GroFile.determine_format"
F_BOX = "dump_lattice_gro+extract_lattice_gro"
KW = dict(kind="bounded", engine="smallscope", backend="runtime-contract")
# The empty title "" is a title ("every title"): its family lives in its own task/obligations (tag title=empty) so that it cannot mask
# the other families.  On repo HEAD 01da268 it is a genuine finding (comment setter and _setup_write_file index value[-1]).
EMPTY_TITLE_FAMILY = True
# The statement does not speak of re-reading the position format; the two determine_format clauses (reader's position_format == (w, d),
# determine_format(line) == writer's format) rest on "every position format (width = decimals + 5)" and on the task description only.
# Set to False to drop them (the re-read VALUES do not depend on the inferred number of decimals).
CHECK_READER_FORMAT = True


# ---------------------------------------------------------------------------
# info


def bounded_info():
    return {
        "functions": [
            "gaddlemaps/parsers/__init__.py::GroFile.__init__", "gaddlemaps/parsers/__init__.py::GroFile.writeline",
            "gaddlemaps/parsers/__init__.py::GroFile.writelines", "gaddlemaps/parsers/__init__.py::GroFile._setup_write_file",
            "gaddlemaps/parsers/__init__.py::GroFile.close", "gaddlemaps/parsers/__init__.py::GroFile._write_closing_info",
            "gaddlemaps/parsers/__init__.py::GroFile.natoms", "gaddlemaps/parsers/__init__.py::GroFile.comment",
            "gaddlemaps/parsers/__init__.py::GroFile.box_matrix", "gaddlemaps/parsers/__init__.py::GroFile.position_format",
            "gaddlemaps/parsers/__init__.py::GroFile._load_and_verify", "gaddlemaps/parsers/__init__.py::GroFile.readlines",
            "gaddlemaps/parsers/__init__.py::GroFile.parse_atomlist", "gaddlemaps/parsers/__init__.py::GroFile.parse_atomline",
            "gaddlemaps/parsers/__init__.py::GroFile.determine_format", "gaddlemaps/parsers/__init__.py::dump_lattice_gro",
            "gaddlemaps/parsers/__init__.py::extract_lattice_gro",
        ],
        "stubs": [],
        "assumptions": [
            "B13-a: names are printable ASCII (one byte per character); 'non-blank' = no whitespace; a title is one line of text "
            "(at most one trailing line terminator, which is not part of the title) that the default text encoding -- the one GroFile's "
            "open(path, mode) uses -- can encode; titles with multi-byte characters are in scope and compared as text; the byte-length clause "
            "concerns atom lines only",
            "B13-b: 'fits the field width' is computed by this module as len(format(x, '{w}.{k}f')) <= w with k = d for coordinates and "
            "k = d+1 for velocities (the GROMACS convention; a value that fits with d+1 decimals also fits with d)",
            "B13-c: 'their last written decimal' is read off the written file: the number of digits after the '.' in each field (no "
            "particular number of decimals is demanded of positions, velocities or box entries; justification inside a field is free)",
            "B13-d: the fixed-width column layout of atom lines (5+5+5+5 columns, then 3 or 6 fields of width w) is the statement's own "
            "vocabulary ('five columns', 'field width', 'width = decimals + 5') and is demanded of the written file; justification of the name "
            "columns is NOT checked (names are compared after stripping blanks). Of the box line only 'parses as numbers' is demanded; whether "
            "it is in the GROMACS component order v1(x) v2(y) v3(z) v1(y) v1(z) v2(x) v2(z) v3(x) v3(y) is recorded as informational in the "
            "evidence sample, never as a violation (the statement only speaks of reading back with the library). A missing final line "
            "terminator or a blank tail is not an alarm",
            "B13-e: in the pre-formatted-string family the strings are produced by this module's own C-style formatter in the file's "
            "effective format, without line terminator, with numbers <= 99999 (a caller who pre-formats has already chosen the five columns)",
            "B13-f: float comparison slack on the reader side is one ulp of the re-read value on top of the half unit; the file side is exact "
            "(fractions)",
        ],
        "explanation": (
            "Bounded contract checking of the real GroFile write session followed by the real GroFile read session on real files "
            "(tmpfs when available). Quick: per (position format in {default,(6,1),(7,2),(8,3),(9,4),(10,5),(11,6)}) x (velocities on/off) x "
            "(count declared/back-filled) x (records as lists/tuples/pre-formatted strings): 448 record lists of 1..4 records drawn from a "
            "64-record pool that covers all 64 (residue number, atom number) pairs of {0,1,7,99998,99999,100000,100001,10^7}, 16 names of "
            "1..5 non-blank characters (digit-leading included) in both name columns and every boundary coordinate/velocity that fits the "
            "width in each of the x,y,z columns; titles (10 kinds incl. unset and 3 with multi-byte UTF-8 characters), boxes (19: 3-vector, diagonal, GROMACS-valid triclinic incl. "
            "negative-only and mixed-sign tilt terms, and general 3x3 arrays -- upper-triangular only, one box per single off-diagonal "
            "position, dense with and without negative entries; lists/numpy/ints), "
            "the four ways of handing the records over (writeline per record, one writelines, writelines in two chunks, writelines then writeline) and box set before/after the records rotate so that every (title, box, way) triple and every (way, timing) pair occurs in every task; "
            "the empty title is a separate family (48 files). Thorough adds lists of 5..8 records, three 300-record files per configuration "
            "(one per record form) and 10000 VERIF_SEED-seeded random record lists of 1..8 records per configuration (random printable names, "
            "numbers in [0,10^7], coordinates over the whole representable range and at rounding boundaries). Function-level contracts "
            "(parse_atomlist against this module's fixed-column reading, determine_format, parse_atomline against the same reading of the line "
            "it is given, dump/extract_lattice_gro) are evaluated on every pool record (thorough: + 20000 random records per format) and on "
            "206 boxes incl. general 3x3 (thorough: + 25000 random). The quick tier does not depend on the seed. "
            "Nothing here is a proof: every obligation is kind=bounded."),
        "rule": ("one evaluation = one complete write session + independent reading of the bytes + read session (file level), or one "
                 "record/box through the class/module function (function level); distinct = distinct (configuration, record list) key; "
                 "non-trivial = the record list has a non-zero coordinate or number"),
    }


# ---------------------------------------------------------------------------
# scope

NAMES = ["A", "C1", "1HW", "SOL", "ABCDE", "12345", "H_2", "a+", "-", "0", "2H1'", "O*", "N#x", "Zn2+", ".", "xY9zQ"]
NUMS = [0, 1, 7, 99998, 99999, 100000, 100001, 10 ** 7]
FORMATS = [None, (6, 1), (7, 2), (8, 3), (9, 4), (10, 5), (11, 6)]
DEFAULT_FMT = (8, 3)       # documented default of the .gro format / GroFile
COUNTS = ["declared", "backfilled"]
FORMS = ["list", "tuple", "str"]
TITLES = [
    ("plain", "Water box 216"),
    ("trailing-spaces", "title with trailing spaces   "),
    ("newline-terminated", "title ending with newline\n"),
    ("long", ("long title " * 28) + "end of a 318 character title!!"),
    ("leading-spaces", "  t=   0.00000 step= 0 ; #x"),
    ("digits-only", "216"),
    ("utf8-latin", "t\u00edtulo \u00b5-sistema"),
    ("utf8-cjk", "\u7cfb\u7edf \u03b1"),
    ("utf8-newline-terminated", "\u00c5ngstr\u00f6m box \u2014 216 H\u2082O\n"),
    ("unset", None),
]
BOXES = [
    {"kind": "vector", "value": [1.5, 2.5, 3.123456], "numpy": False},
    {"kind": "vector", "value": [0.000004, 123.456785, 31.62277], "numpy": True},
    {"kind": "vector-int", "value": [3, 4, 5], "numpy": False},
    {"kind": "diagonal", "value": [[3.12345, 0.0, 0.0], [0.0, 4.98765, 0.0], [0.0, 0.0, 5.55555]], "numpy": False},
    {"kind": "triclinic", "value": [[3.12345, 0.0, 0.0], [0.5, 2.98765, 0.0], [-1.23456, 0.77777, 4.00001]], "numpy": False},
    {"kind": "triclinic-v3x", "value": [[5.0, 0.0, 0.0], [0.0, 5.0, 0.0], [2.5, 0.0, 5.0]], "numpy": True},
    {"kind": "triclinic-v2x", "value": [[5.0, 0.0, 0.0], [1.25, 6.0, 0.0], [0.0, 0.0, 7.0]], "numpy": False},
    {"kind": "triclinic-hexagonal-negative-v2x", "value": [[5.0, 0.0, 0.0], [-2.5, 4.33013, 0.0], [0.0, 0.0, 6.0]], "numpy": False},
    {"kind": "triclinic-all-tilts-negative", "value": [[4.0, 0.0, 0.0], [-1.0, 4.5, 0.0], [-0.75, -1.25, 5.0]], "numpy": True},
    {"kind": "triclinic-mixed-sign-tilts", "value": [[4.0, 0.0, 0.0], [-1.5, 4.5, 0.0], [0.75, -0.00002, 5.0]], "numpy": False},
    # general 3x3 arrays: the box_matrix setter and dump/extract accept any 3x3 array, "the same box" holds for them too
    {"kind": "general-upper-triangular", "value": [[4.0, 0.5, 0.25], [0.0, 5.0, -0.75], [0.0, 0.0, 6.0]], "numpy": False},
    {"kind": "general-only-v1y", "value": [[4.0, 0.75, 0.0], [0.0, 5.0, 0.0], [0.0, 0.0, 6.0]], "numpy": False},
    {"kind": "general-only-v1z", "value": [[4.0, 0.0, -1.25], [0.0, 5.0, 0.0], [0.0, 0.0, 6.0]], "numpy": True},
    {"kind": "general-only-v2x", "value": [[4.0, 0.0, 0.0], [-1.25, 5.0, 0.0], [0.0, 0.0, 6.0]], "numpy": False},
    {"kind": "general-only-v2z", "value": [[4.0, 0.0, 0.0], [0.0, 5.0, 0.75], [0.0, 0.0, 6.0]], "numpy": False},
    {"kind": "general-only-v3x", "value": [[4.0, 0.0, 0.0], [0.0, 5.0, 0.0], [0.75, 0.0, 6.0]], "numpy": True},
    {"kind": "general-only-v3y", "value": [[4.0, 0.0, 0.0], [0.0, 5.0, 0.0], [0.0, -1.25, 6.0]], "numpy": False},
    {"kind": "general-dense", "value": [[3.1, 0.21, 0.32], [0.43, 4.1, 0.54], [0.65, 0.76, 5.1]], "numpy": False},
    {"kind": "general-dense-negative-entries", "value": [[3.12345, -0.2, 0.3], [0.4, 4.1, -0.5], [-0.6, 0.7, 5.55555]], "numpy": True},
]
APIS = ["writeline", "writelines", "writelines-in-two-chunks", "writelines-then-writeline", "writeline-with-refused-records-in-between"]
BOX_WHEN = ["before", "after"]


def eff_fmt(fmt):
    return tuple(fmt) if fmt is not None else DEFAULT_FMT


def fmt_tag(fmt):
    return "default" if fmt is None else f"{fmt[0]}.{fmt[1]}"


def fits(x, w, k):
    """the statement's precondition, computed here: the value formatted with k decimals occupies at most w columns"""
    return len("%*.*f" % (w, k, x)) <= w


def float_candidates(w, k):
    """boundary values for a field of width w with k decimals (before the fit filter)"""
    u = 10.0 ** -k
    big = 10.0 ** (w - k - 1)          # first positive magnitude whose integer part no longer fits
    c = [0.0, -0.0, 1.0, -1.0, u, -u, 0.5 * u, -0.5 * u, 0.49999 * u, -0.49999 * u, 0.50001 * u, 1.5 * u, 2.5 * u, -1.5 * u,
         2.0 - 0.5 * u, -(2.0 - 0.5 * u), 2.0 - 0.49999 * u, 1.0 / 3.0, -2.0 / 3.0, 0.1, 0.7, 4.35, 2.675, 1.005, 0.125, 0.375,
         123.456789012, -12.3456789012, 1e-9, -1e-9, big - u, big - 0.6 * u, big - 0.5 * u, big - 0.50001 * u, big / 10.0,
         -(big / 10.0 - u), -(big / 10.0 - 0.6 * u), -(big / 10.0 - 0.5 * u), -(big / 100.0), 9.5 * u, 99.5 * u]
    return c


def float_pool(w, k):
    out = []
    for x in float_candidates(w, k):
        if fits(x, w, k) and not any(y == x and math.copysign(1, y) == math.copysign(1, x) for y in out):
            out.append(x)
    return out


def record_pool(fmt, vel, K=64):
    """K records covering every number pair, every name in both columns and every pool value in each coordinate column"""
    w, d = eff_fmt(fmt)
    C = float_pool(w, d)
    V = float_pool(w, d + 1)
    P, Q, N = len(C), len(V), len(NAMES)
    recs = []
    for k in range(K):
        r = [NUMS[k % 8], NAMES[k % N], NAMES[(k + 3 * (k // N) + 1) % N], NUMS[(k // 8 + k) % 8],
             C[k % P], C[(k + P // 3) % P], C[(k + 2 * P // 3) % P]]
        if vel:
            r += [V[k % Q], V[(k + Q // 3) % Q], V[(k + 2 * Q // 3) % Q]]
        recs.append(r)
    return recs


WINDOWS = {1: [(0,)], 2: [(0, 17), (0, 1)], 3: [(0, 5, 23), (0, 1, 2)], 4: [(0, 9, 18, 27), (0, 1, 2, 3)],
           5: [(0, 1, 2, 3, 4)], 6: [(0, 7, 14, 21, 28, 35)], 7: [(0, 1, 2, 3, 4, 5, 6)], 8: [(0, 8, 16, 24, 32, 40, 48, 56)]}


def pool_lists(pool, maxn):
    K = len(pool)
    for n in range(1, maxn + 1):
        for offs in WINDOWS[n]:
            for k in range(K):
                yield [pool[(k + o) % K] for o in offs]


def fit5(n, k):
    return n if n <= 99999 else 99999 - (k % 3)


def for_form(records, form):
    """originals of the case: in the string family the caller has numbers that already fit five columns (B13-e)"""
    if form != "str":
        return [list(r) for r in records]
    return [[fit5(r[0], i)] + list(r[1:3]) + [fit5(r[3], i + 1)] + list(r[4:]) for i, r in enumerate(records)]


def my_format(rec, w, d):
    """this module's own .gro atom line (C-style, as in the GROMACS manual: "%5d%-5s%5s%5d%8.3f%8.3f%8.3f%8.4f%8.4f%8.4f")"""
    s = "%5d%-5s%5s%5d" % (rec[0], rec[1], rec[2], rec[3])
    s += "".join("%*.*f" % (w, d, x) for x in rec[4:7])
    if len(rec) == 10:
        s += "".join("%*.*f" % (w, d + 1, x) for x in rec[7:10])
    return s


def make_case(records, fmt, count, form, title_i, box_i, api, box_when):
    recs = for_form(records, form)
    if not title_writable(TITLES[title_i][1]):      # the platform's default text encoding cannot hold this title: outside the scope
        title_i = 0
    return {"fn": PFX + "file", "records": recs, "title_kind": TITLES[title_i][0], "title": TITLES[title_i][1],
            "box": BOXES[box_i], "fmt": list(fmt) if fmt is not None else None, "count": count, "form": form,
            "api": api, "box_when": box_when}


N_ROT = len(TITLES) * len(BOXES) * len(APIS) * len(BOX_WHEN)


def rotate(j):
    nt, nb = len(TITLES), len(BOXES)
    return j % nt, (j // nt) % nb, APIS[(j // (nt * nb)) % len(APIS)], BOX_WHEN[(j // nt + j // (nt * nb * len(APIS))) % 2]


def text_encoding():
    """the default text encoding, i.e. the one GroFile's open(path, mode) uses"""
    import locale
    return locale.getpreferredencoding(False)


def title_writable(title):
    if title is None:
        return True
    try:
        title.encode(text_encoding())
        return True
    except (UnicodeEncodeError, LookupError):
        return False


# ---------------------------------------------------------------------------
# the real code


def _parsers():
    import gaddlemaps.parsers as P
    return P


def _mkdtemp():
    d = "/dev/shm"
    try:
        if os.path.isdir(d) and os.access(d, os.W_OK):
            return tempfile.mkdtemp(prefix="b13_", dir=d)
    except Exception:
        pass
    return tempfile.mkdtemp(prefix="b13_")


def _box_arg(box):
    if box.get("numpy"):
        import numpy as np
        return np.array(box["value"])
    return [list(r) if isinstance(r, (list, tuple)) else r for r in box["value"]]


def _as_arg(rec, form, w, d):
    if form == "list":
        return list(rec)
    if form == "tuple":
        return tuple(rec)
    return my_format(rec, w, d)


class Raised(Exception):
    def __init__(self, stage, exc):
        super().__init__(f"{stage} raises {type(exc).__name__}: {exc}")
        self.stage, self.exc = stage, exc


def write_session(path, case):
    """the write-mode session of the statement on the real GroFile; returns the title the writer announces when none is set"""
    P = _parsers()
    w, d = eff_fmt(case["fmt"])
    recs = case["records"]
    stage = "GroFile(path,'w')"
    f = None
    announced = None
    try:
        f = P.GroFile(path, "w")
        if case["fmt"] is not None:
            stage = f"position_format={tuple(case['fmt'])}"
            f.position_format = tuple(case["fmt"])
        if case["title"] is not None:
            stage = "comment=title"
            f.comment = case["title"]
        else:
            stage = "comment (getter, write mode)"
            announced = f.comment
        if case["box_when"] == "before":
            stage = "box_matrix=box"
            f.box_matrix = _box_arg(case["box"])
        if case["count"] == "declared":
            stage = "natoms=n"
            f.natoms = len(recs)
        args = [_as_arg(r, case["form"], w, d) for r in recs]
        if case["api"] == "writelines":
            stage = "writelines(records)"
            f.writelines(args)
        elif case["api"] == "writelines-in-two-chunks":
            k_ = max(1, len(args) // 2)
            stage = f"writelines(first {k_} records)"
            f.writelines(args[:k_])
            stage = f"writelines(remaining {len(args) - k_} records)"
            f.writelines(args[k_:])
        elif case["api"] == "writelines-then-writeline":
            stage = "writelines(all but the last record)"
            f.writelines(args[:-1])
            stage = "writeline(last record)"
            f.writeline(args[-1])
        elif case["api"] == "writeline-with-refused-records-in-between":
            # after the first record the caller also offers records the writer refuses (wrong number of fields, a non-numeric coordinate),
            # catches the error and goes on: "every list of atom records" is the list of the records the writer ACCEPTED
            bad = [(1, "RES", "X", 1, 0.0, 0.0), (1, "RES", "X", 1, "a", 0.0, 0.0)]
            for i, a in enumerate(args):
                if i >= 1:
                    try:
                        f.writeline(list(bad[i % 2]))
                    except Exception:      # noqa: the refusal
                        pass
                    else:
                        raise Raised(f"writeline(malformed record {bad[i % 2]!r}) before record {i}", AssertionError("was accepted"))
                stage = f"writeline(record {i})"
                f.writeline(a)
        else:
            for i, a in enumerate(args):
                stage = f"writeline(record {i})"
                f.writeline(a)
        if case["box_when"] == "after":
            stage = "box_matrix=box"
            f.box_matrix = _box_arg(case["box"])
        stage = "close()"
        f.close()
        f = None
    except Exception as e:
        raise Raised(stage, e)
    finally:
        if f is not None:
            try:
                f._file.close()     # harness cleanup only: do not leak the handle of a failed session
            except Exception:
                pass
    return announced


def read_session(path):
    P = _parsers()
    stage = "GroFile(path)"
    g = None
    try:
        g = P.GroFile(path)
        stage = "GroFile(path).readlines()"
        recs = g.readlines()
        stage = "GroFile(path).box_matrix"
        box = g.box_matrix
        stage = "GroFile(path).comment"
        comment = g.comment
        stage = "GroFile(path).natoms"
        natoms = g.natoms
        stage = "GroFile(path).position_format"
        pf = g.position_format
        stage = "GroFile(path).close()"
        g.close()
        g = None
    except Exception as e:
        raise Raised(stage, e)
    finally:
        if g is not None:
            try:
                g._file.close()
            except Exception:
                pass
    return {"records": recs, "box": box, "comment": comment, "natoms": natoms, "position_format": pf}


# ---------------------------------------------------------------------------
# independent reading of the bytes

_INT5 = re.compile(r"^\s*[0-9]{1,5}\s*$")                   # at most five digits anywhere in the five columns
_FLT = re.compile(r"^\s*([+-]?[0-9]*\.([0-9]+))\s*$")         # a decimal point and at least one written decimal, any justification
GRO_BOX_ORDER = [(0, 0), (1, 1), (2, 2), (0, 1), (0, 2), (1, 0), (1, 2), (2, 0), (2, 1)]


def indep_atom(line, w, vel):
    """(record dict, problem) of one atom line read at the fixed .gro columns"""
    L = 20 + 3 * w * (2 if vel else 1)
    if len(line) != L:
        return None, f"atom line has {len(line)} characters, the format gives {L}: {line!r}"
    num = []
    for a, b, what in ((0, 5, "residue number"), (15, 20, "atom number")):
        if not _INT5.match(line[a:b]):
            return None, f"{what} columns {a}-{b} hold {line[a:b]!r}, not a number of at most five digits: {line!r}"
        num.append(int(line[a:b]))
    vals, decs = [], []
    for i in range(3 * (2 if vel else 1)):
        fld = line[20 + i * w:20 + (i + 1) * w]
        m = _FLT.match(fld)
        if not m:
            return None, f"field {i} (columns {20 + i * w}-{20 + (i + 1) * w}) holds {fld!r}, not a fixed-point number: {line!r}"
        vals.append(Fraction(m.group(1)))
        decs.append(len(m.group(2)))
    return {"resid": num[0], "resname": line[5:10].strip(), "name": line[10:15].strip(), "atnum": num[1],
            "vals": vals, "decs": decs}, None


def indep_box(line):
    """the box line as numbers (any decimal notation, any number of decimals), laid out in the GROMACS component order.
    Only 'the line parses' is demanded by the contract; the component order is informational (see gro_order_note)."""
    toks = line.split()
    if len(toks) < 3:
        return None, f"box line has {len(toks)} numbers (at least 3 expected): {line!r}"
    M = [[Fraction(0)] * 3 for _ in range(3)]
    for k, t in enumerate(toks):
        try:
            v = Fraction(t)
        except (ValueError, ZeroDivisionError):
            return None, f"box entry {t!r} is not a number: {line!r}"
        if k < 9:
            i, j = GRO_BOX_ORDER[k]
            M[i][j] = v
    return M, None


def gro_order_note(Mi, eb):
    """informational, never an alarm: does the written line hold the box in the component order of the GROMACS manual?  The statement only
    speaks of reading back with the library, so a writer/reader pair that agrees on another order still satisfies it."""
    if Mi is None:
        return None
    if all(abs(Mi[i][j] - eb[i][j]) <= BOX_TOL for i in range(3) for j in range(3)):
        return None
    return "box line not in the GROMACS component order v1(x) v2(y) v3(z) v1(y) v1(z) v2(x) v2(z) v3(x) v3(y) (informational)"


def indep_file(raw, n, w, d, vel):
    """independent reading of a complete .gro file of n atoms; returns (parts, [layout problems])"""
    parts = {"title": None, "count": None, "atom_lines": None, "atoms": None, "box": None}
    probs = []
    blines = raw.split(b"\n")
    while len(blines) > n + 3 and blines[-1].strip() == b"":      # a missing/extra final terminator or blank tail is not an alarm
        blines.pop()
    lines = []
    for k, bl in enumerate(blines):
        try:
            lines.append(bl.decode(text_encoding() if k == 0 else "ascii"))
        except UnicodeDecodeError as e:
            probs.append(f"line {k} is not {'text in the default encoding' if k == 0 else 'ASCII'}: {bl!r} ({e})")
            lines.append(bl.decode("ascii", "replace"))
    if len(lines) != n + 3:
        probs.append(f"file has {len(lines)} lines, {n + 3} expected (title, count, {n} atoms, box)")
    if lines:
        parts["title"] = lines[0]
    if len(lines) > 1:
        if re.match(r"^\s*[0-9]+\s*$", lines[1]):
            parts["count"] = int(lines[1])
            if parts["count"] != n:
                probs.append(f"count line says {parts['count']}, {n} records were written")
        else:
            probs.append(f"second line is not an atom count: {lines[1]!r}")
    if len(lines) == n + 3:
        parts["atom_lines"] = lines[2:2 + n]
        atoms = []
        for ln in parts["atom_lines"]:
            a, p = indep_atom(ln, w, vel)
            atoms.append(a)
            if p:
                probs.append(p)
        parts["atoms"] = atoms
        parts["box"], p = indep_box(lines[-1])
        if p:
            probs.append(p)
    return parts, probs


# ---------------------------------------------------------------------------
# the contract (clauses of the statement)

C_EXC = (F_FILE, "ensures.no_exception")
C_LAYOUT = (F_FILE, "ensures.written_file_is_fixed_width_gro")
C_COUNT = (F_FILE, "ensures.same_number_of_records")
C_NAMES = (F_FILE, "ensures.names_identical")
C_NUM = (F_FILE, "ensures.numbers_that_fit_five_digits_unchanged")
C_WRAP = (F_FILE, "ensures.larger_numbers_wrapped_into_five_columns")
C_COORD = (F_FILE, "ensures.coordinates_within_half_unit_of_last_decimal")
C_VEL = (F_FILE, "ensures.velocities_within_half_unit_of_last_decimal")
C_BOX = (F_FILE, "ensures.box_equal_to_5e-6")
C_TITLE = (F_FILE, "ensures.title_equal")
C_BYTES = (F_FILE, "ensures.atom_lines_same_byte_length")
C_RFMT = (F_DFMT, "ensures.reader_recovers_position_format")
FILE_CLAUSES = [C_EXC, C_LAYOUT, C_COUNT, C_NAMES, C_NUM, C_WRAP, C_COORD, C_VEL, C_BOX, C_TITLE, C_BYTES, C_RFMT]

BOX_TOL = Fraction(5, 10 ** 6)


def _frac(y):
    if isinstance(y, bool) or not isinstance(y, (int, float)) and not hasattr(y, "__float__"):
        raise ValueError(f"{y!r} is not a number")
    y = float(y)
    return Fraction(y)          # raises on nan/inf


def expected_box(box):
    v = box["value"]
    if not isinstance(v[0], (list, tuple)):
        return [[Fraction(v[i]) if i == j else Fraction(0) for j in range(3)] for i in range(3)]
    return [[Fraction(x) for x in row] for row in v]


def expected_title(title, announced):
    t = announced if title is None else title
    if t is None:
        return None
    return t[:-1] if t.endswith("\n") else t


def _half(dec):
    return Fraction(1, 2 * 10 ** dec)


def compare_records(orig, got, side, d, decs_of):
    """orig: generated records; got: list of (resid, resname, name, atnum, values...) per record as read on `side`;
    decs_of(i, j): number of written decimals of value j of record i.  Returns {clause: (message, signature)} (first failure each)."""
    bad = {}

    def put(c, msg, sig):
        if c not in bad:
            bad[c] = (f"[{side}] {msg}", sig)

    for i, (o, g) in enumerate(zip(orig, got)):
        if g is None:
            continue
        if len(g) != len(o):
            put(C_COORD if len(o) == 7 else C_VEL, f"record {i} has {len(g)} fields, {len(o)} were written: {g!r}", "field-count")
            continue
        for what, k in (("residue name", 1), ("atom name", 2)):
            if not (isinstance(g[k], str) and g[k] == o[k]):
                put(C_NAMES, f"record {i}: {what} {o[k]!r} comes back as {g[k]!r}", f"name:{what}")
        for what, k in (("residue number", 0), ("atom number", 3)):
            n, m = o[k], g[k]
            isint = isinstance(m, numbers.Integral) and not isinstance(m, bool)
            if n <= 99999:
                if not (isint and m == n):
                    put(C_NUM, f"record {i}: {what} {n} comes back as {m!r}", f"number:{n}->{m!r}")
            elif not (isint and 0 <= m <= 99999):
                put(C_WRAP, f"record {i}: {what} {n} comes back as {m!r}, which is not a number of at most five digits", f"wrap:{n}->{m!r}")
        for j in range(4, len(o)):
            c = C_COORD if j < 7 else C_VEL
            what = "xyz"[j - 4] if j < 7 else "v" + "xyz"[j - 7]
            dec = decs_of(i, j - 4)
            try:
                y = g[j] if isinstance(g[j], Fraction) else _frac(g[j])
                slack = Fraction(0) if isinstance(g[j], Fraction) else Fraction(math.ulp(float(g[j])))
            except (ValueError, OverflowError, TypeError) as e:
                put(c, f"record {i}: {what} = {o[j]!r} comes back as {g[j]!r} ({e})", f"{what}:not-a-number")
                continue
            err = abs(y - Fraction(o[j]))
            if err > _half(dec) + slack:
                put(c, f"record {i}: {what} = {o[j]!r} comes back as {float(y)!r} (written with {dec} decimals): |difference| = {float(err):.3e} "
                       f"> half a unit of the last written decimal = {float(_half(dec)):.1e}", f"{'coord' if j < 7 else 'vel'}:off>{dec}dec")
    return bad


def evaluate(case, raw, rd, announced, read_exc=None):
    """all clauses of the statement on one written file (bytes `raw`) and one read session `rd` (None if it raised)"""
    recs = case["records"]
    n = len(recs)
    w, d = eff_fmt(case["fmt"])
    vel = len(recs[0]) == 10
    bad, done = {}, {c: False for c in FILE_CLAUSES}

    def put(c, msg, sig):
        if c not in bad:
            bad[c] = (msg, sig)

    done[C_EXC] = True
    if read_exc is not None:
        put(C_EXC, f"{read_exc} (the file was written without error)", f"{read_exc.stage}:{type(read_exc.exc).__name__}")
    # ---- (a) independent reading of the bytes
    parts, probs = indep_file(raw, n, w, d, vel)
    done[C_LAYOUT] = True
    if probs:
        put(C_LAYOUT, "[written file] " + probs[0], "layout")
    for c in (C_COUNT, C_NAMES, C_COORD, C_BOX, C_TITLE, C_BYTES):
        done[c] = True
    done[C_VEL] = vel
    small = any(r[k] <= 99999 for r in recs for k in (0, 3))
    large = any(r[k] > 99999 for r in recs for k in (0, 3))
    done[C_NUM], done[C_WRAP] = small, large
    Lexp = 20 + 3 * w * (2 if vel else 1)
    if parts["count"] is not None and parts["count"] != n:
        put(C_COUNT, f"[written file] count line says {parts['count']}, {n} records were written", "count-line")
    lines = parts["atom_lines"]
    if lines is None:
        put(C_COUNT, "[written file] " + (probs[0] if probs else "no atom lines"), "line-count")
    else:
        sizes = sorted({len(ln.encode("ascii")) + 1 for ln in lines})
        if len(sizes) > 1:
            put(C_BYTES, f"[written file] atom lines have byte lengths {sizes}: {lines!r}", "byte-length")
        for i, (r, ln) in enumerate(zip(recs, lines)):
            if (r[0] > 99999 or r[3] > 99999) and len(ln) != Lexp:
                put(C_WRAP, f"[written file] record {i} with numbers {r[0]}, {r[3]} occupies {len(ln)} columns instead of {Lexp}: {ln!r}", "wrap:line-widened")
        atoms = parts["atoms"]
        got = [None if a is None else (a["resid"], a["resname"], a["name"], a["atnum"]) + tuple(a["vals"]) for a in atoms]
        b = compare_records(recs, got, "written file", d, lambda i, j: atoms[i]["decs"][j])
        for c, v in b.items():
            put(c, *v)
    eb = expected_box(case["box"])
    note = gro_order_note(parts["box"], eb)      # the box values are judged through the reader below; the order on disk is informational
    if note:
        done["_notes"] = [note]
    et = expected_title(case["title"], announced)
    if parts["title"] is not None and et is not None and parts["title"] != et:
        put(C_TITLE, f"[written file] title {et!r} is written as {parts['title']!r}", "title")
    # ---- (b) what the real reader returns
    if rd is not None:
        done[C_RFMT] = CHECK_READER_FORMAT
        try:
            ok = int(rd["natoms"]) == n and rd["natoms"] == n and not isinstance(rd["natoms"], bool)
        except Exception:
            ok = False
        if not ok:
            put(C_COUNT, f"[GroFile(path)] natoms = {rd['natoms']!r}, {n} records were written", "natoms")
        rr = rd["records"]
        if isinstance(rr, tuple):
            rr = list(rr)
        if not isinstance(rr, list) or len(rr) != n:
            put(C_COUNT, f"[GroFile(path)] readlines() returns {len(rr) if hasattr(rr, '__len__') else rr!r} records, {n} were written", "readlines-count")
        if isinstance(rr, list):
            atoms = parts["atoms"]

            def decs_of(i, j):
                if atoms is not None and i < len(atoms) and atoms[i] is not None:
                    return atoms[i]["decs"][j]
                return d            # no independent reading available: nominal decimals (loosest legitimate choice)
            got = [tuple(x) if isinstance(x, (tuple, list)) else None for x in rr[:n]]
            for i, x in enumerate(got):
                if x is None:
                    put(C_COUNT, f"[GroFile(path)] record {i} is {rr[i]!r}, not a record", "record-type")
            b = compare_records(recs, got, "GroFile(path).readlines()", d, decs_of)
            for c, v in b.items():
                put(c, *v)
        try:
            import numpy as np
            B = np.asarray(rd["box"], dtype=float)
            if B.shape != (3, 3):
                put(C_BOX, f"[GroFile(path)] box_matrix has shape {B.shape}", "box-shape")
            else:
                for i in range(3):
                    for j in range(3):
                        if abs(_frac(B[i, j]) - eb[i][j]) > BOX_TOL + Fraction(math.ulp(float(B[i, j]))):
                            put(C_BOX, f"[GroFile(path)] box_matrix[{i}][{j}] = {float(B[i, j])!r}, written box has {float(eb[i][j])!r}", f"box[{i}][{j}]")
        except Exception as e:
            put(C_BOX, f"[GroFile(path)] box_matrix = {rd['box']!r} ({type(e).__name__}: {e})", "box-type")
        cm = rd["comment"]
        if et is not None:
            cm1 = cm[:-1] if isinstance(cm, str) and cm.endswith("\n") else cm
            if cm1 != et:
                put(C_TITLE, f"[GroFile(path)] comment = {cm!r}, the title written is {et!r}", "title")
        pf = rd["position_format"]
        try:
            okf = tuple(pf) == (w, d)
        except TypeError:
            okf = False
        if not okf:
            put(C_RFMT, f"[GroFile(path)] position_format = {pf!r}, the file was written with {(w, d)}", f"reader-format:{pf!r}")
    return bad, done


def run_case(case, tmp, corrupt=None):
    """one complete evaluation; returns (bad {clause: (msg, sig)}, done {clause: bool}, written text or None)"""
    path = os.path.join(tmp, "case.gro")
    done = {c: False for c in FILE_CLAUSES}
    done[C_EXC] = True
    try:
        os.unlink(path)
    except OSError:
        pass
    with warnings.catch_warnings(), contextlib.redirect_stdout(io.StringIO()):
        warnings.simplefilter("ignore")
        try:
            announced = write_session(path, case)
        except Raised as e:
            sig = f"{e.stage.split('(')[0].split('=')[0]}:{type(e.exc).__name__}"
            if case["fmt"] is not None and "writeline" in e.stage:
                sig += ":position_format-set"
            return {C_EXC: (str(e), sig)}, done, None
        with open(path, "rb") as fh:
            raw = fh.read()
        if corrupt is not None:
            raw = corrupt(raw)
            with open(path, "wb") as fh:
                fh.write(raw)
        rd, rexc = None, None
        try:
            rd = read_session(path)
        except Raised as e:
            rexc = e
    bad, done = evaluate(case, raw, rd, announced, rexc)
    return bad, done, raw.decode(text_encoding(), "replace")


def case_key(case):
    return zlib.crc32(repr((case["records"], case["title_kind"], case["box"]["kind"], case["box"]["value"], case["fmt"], case["count"],
                            case["form"], case["api"], case["box_when"])).encode())


def nontrivial_case(case):
    return any((r[0] or r[3] or any(x != 0 for x in r[4:])) for r in case["records"])


class Agg:
    """per-(function, clause) aggregation of evaluations into obligations"""

    def __init__(self, clauses):
        self.per = {c: [0, 0, None] for c in clauses}
        self.keys = set()
        self.nontrivial = 0
        self.sample = None
        self.notes = {}

    def add(self, key, nontrivial, bad, done, cex, sample=None):
        for nt in done.get("_notes", ()):
            k = nt.split(":")[0]
            self.notes.setdefault(k, [0, nt])[0] += 1
        if key not in self.keys:
            self.keys.add(key)
            if nontrivial:
                self.nontrivial += 1
        if sample is not None and (self.sample is None or (not bad and sample.get("_rank", 0) > self.sample.get("_rank", 0))):
            self.sample = sample
        for c, rec in self.per.items():
            if not done.get(c):
                continue
            rec[0] += 1
            if c in bad:
                rec[1] += 1
                if rec[2] is None:
                    x = dict(cex)
                    x["clause"] = c[1]
                    x["signature"] = bad[c][1]
                    rec[2] = (x, bad[c][0])

    def obligations(self, prop, tag, secs=0.0, unit="files"):
        out = []
        smp = None
        if self.sample is not None:
            smp = {k: v for k, v in self.sample.items() if k != "_rank"}
        if self.notes:
            smp = dict(smp or {}, informational={k: {"count": v[0], "first": v[1]} for k, v in self.notes.items()})
        for (fn, cl), (n, nbad, first) in self.per.items():
            oid = f"{prop}/{fn}/{cl}/{tag}"
            if n == 0:
                continue
            if first is None:
                out.append(ob(oid, "discharged", secs=secs / len(self.per), evaluations=n, nontrivial=min(n, self.nontrivial),
                              sample=dict(smp or {}, **{unit: len(self.keys)}), **KW))
            else:
                cex, msg = first
                out.append(ob(oid, "refuted", secs=secs / len(self.per), evaluations=n, nontrivial=min(n, self.nontrivial),
                              reason=f"{nbad}/{n} {unit} violate; first: {msg}", cex=cex, sample=cex, **KW))
        return out


def _strip(d):
    return {(f"{c[0]}/{c[1]}" if isinstance(c, tuple) else c): v for c, v in d.items()}


# ---------------------------------------------------------------------------
# seeded random records (thorough)

_PRINTABLE = "".join(chr(c) for c in range(33, 127))


def rnd_float(rng, w, k, pool):
    u = 10.0 ** -k
    lim_p = 10.0 ** (w - k - 1)
    lim_n = lim_p / 10.0
    for _ in range(50):
        t = rng.random()
        if t < 0.2:
            x = rng.choice(pool)
        elif t < 0.45:
            x = rng.uniform(-lim_n, lim_p)
        elif t < 0.7:
            x = 10.0 ** rng.uniform(-k - 3, math.log10(lim_p)) * rng.choice((1, 1, -1))
        else:
            m = rng.randrange(0, int(min(lim_n / u, 10 ** 9)))
            x = (m + 0.5) * u * (1 + rng.choice((0, 1e-15, -1e-15, 1e-9, -1e-9, 1e-6, -1e-6))) * rng.choice((1, -1))
        if fits(x, w, k):
            return x
    return 0.0


def rnd_record(rng, fmt, vel, C, V):
    w, d = eff_fmt(fmt)

    def num():
        t = rng.random()
        if t < 0.35:
            return rng.choice(NUMS)
        if t < 0.7:
            return rng.randrange(0, 10 ** 7 + 1)
        return rng.choice((99990, 100000, 200000, 10 ** 6)) + rng.randrange(-12, 12)

    def name():
        if rng.random() < 0.3:
            return rng.choice(NAMES)
        return "".join(rng.choice(_PRINTABLE) for _ in range(rng.randrange(1, 6)))
    r = [num(), name(), name(), num()] + [rnd_float(rng, w, d, C) for _ in range(3)]
    if vel:
        r += [rnd_float(rng, w, d + 1, V) for _ in range(3)]
    return r


# ---------------------------------------------------------------------------
# tasks


def task_files(prop, fmt, vel, count, tier, seed):
    """file-level contract for one (position format, velocities, count mode): all record forms, pool lists, rotating
    title/box/api/box timing"""
    t0 = time.time()
    quick = tier != "thorough"
    maxn = 4 if quick else 8
    agg = Agg(FILE_CLAUSES)
    pool = record_pool(fmt, vel)
    tmp = _mkdtemp()
    try:
        j = 0
        lists = list(pool_lists(pool, maxn))
        for recs in lists:
            for form in FORMS:
                ti, bi, api, bw = rotate(j)
                j += 1
                case = make_case(recs, fmt, count, form, ti, bi, api, bw)
                bad, done, text = run_case(case, tmp)
                agg.add(case_key(case), nontrivial_case(case), bad, done, case,
                        sample={"case": case, "written_file": text, "_rank": len(recs)} if (j % 97 == 5 or agg.sample is None) else None)
        tag = f"fmt={fmt_tag(fmt)}/vel={int(vel)}/count={count}/recs<={maxn}"
        out = agg.obligations(prop, tag, time.time() - t0)
        if not quick:
            out += _big_and_random(prop, fmt, vel, count, seed, tmp, pool)
    finally:
        shutil.rmtree(tmp, ignore_errors=True)
    return out


def _big_and_random(prop, fmt, vel, count, seed, tmp, pool):
    out = []
    w, d = eff_fmt(fmt)
    C, V = float_pool(w, d), float_pool(w, d + 1)
    tagbase = f"fmt={fmt_tag(fmt)}/vel={int(vel)}/count={count}"
    rng = random.Random(zlib.crc32(tagbase.encode()) ^ (seed * 2654435761 & 0xFFFFFFFF))
    # one 300-record file per record form
    t0 = time.time()
    agg = Agg(FILE_CLAUSES)
    for fi, form in enumerate(FORMS):
        recs = [pool[k % len(pool)] if k % 3 else rnd_record(rng, fmt, vel, C, V) for k in range(300)]
        ti, bi, api, bw = rotate(fi * 5 + (3 if count == "declared" else 60))
        case = make_case(recs, fmt, count, form, ti, bi, api, bw)
        bad, done, text = run_case(case, tmp)
        agg.add(case_key(case), True, bad, done, case, sample={"case": dict(case, records=case["records"][:3] + ["... 300 records"]), "_rank": 1})
    out += agg.obligations(prop, f"{tagbase}/recs=300", time.time() - t0)
    # seeded random record lists of 1..8 records
    t0 = time.time()
    agg = Agg(FILE_CLAUSES)
    N = int(os.environ.get("VERIF_B13_RANDOM", "10000"))
    for j in range(N):
        n = 1 + (j % 8)
        recs = [rnd_record(rng, fmt, vel, C, V) for _ in range(n)]
        ti, bi, api, bw = rotate(rng.randrange(0, N_ROT))
        case = make_case(recs, fmt, count, FORMS[j % 3], ti, bi, api, bw)
        bad, done, text = run_case(case, tmp)
        agg.add(case_key(case), nontrivial_case(case), bad, done, case,
                sample={"case": case, "written_file": text, "_rank": n} if j < 8 else None)
    out += agg.obligations(prop, f"{tagbase}/random-seeded/recs<=8", time.time() - t0)
    return out


# ---- function level

R_LINE = (F_ALIST, "ensures.fixed_width_line_holds_the_record")
R_DFMT = (F_DFMT, "ensures.inverts_the_writer_format")
R_PARSE = (F_ALINE, "ensures.returns_the_record_the_line_holds")
R_EXC = (F_ALIST, "ensures.no_exception")
REC_CLAUSES = [R_EXC, R_LINE, R_DFMT, R_PARSE]


def check_record(rec, fmt, corrupt=None, corrupt_back=None):
    """parse_atomlist -> (independent reading) -> determine_format -> parse_atomline on one record.
    fmt None: the format_dict argument is omitted (documented default (8,3))."""
    P = _parsers()
    G = P.GroFile
    w, d = eff_fmt(fmt)
    vel = len(rec) == 10
    bad, done = {}, {c: False for c in REC_CLAUSES}
    done[R_EXC] = True

    def put(c, msg, sig):
        if c not in bad:
            bad[c] = (msg, sig)
    fd = None if fmt is None else {"position": (w, d), "velocities": vel}
    with warnings.catch_warnings(), contextlib.redirect_stdout(io.StringIO()):
        warnings.simplefilter("ignore")
        try:
            line = G.parse_atomlist(list(rec), format_dict=fd) if fd is not None else G.parse_atomlist(tuple(rec))
        except Exception as e:
            put(R_EXC, f"parse_atomlist({rec!r}, {fd!r}) raises {type(e).__name__}: {e}", f"parse_atomlist:{type(e).__name__}")
            return bad, done, None
        if corrupt is not None:
            line = corrupt(line)
        done[R_LINE] = True
        if not isinstance(line, str):
            put(R_LINE, f"parse_atomlist returns {line!r}", "not-a-string")
            return bad, done, line
        a, prob = indep_atom(line, w, vel)
        if prob:
            put(R_LINE, prob, "layout")
        else:
            got = [(a["resid"], a["resname"], a["name"], a["atnum"]) + tuple(a["vals"])]
            b = compare_records([rec], got, "parse_atomlist line", d, lambda i, j: a["decs"][j])
            if b:
                c0 = sorted(b, key=FILE_CLAUSES.index)[0]
                put(R_LINE, f"{b[c0][0]} in {line!r}", b[c0][1])
        done[R_DFMT] = CHECK_READER_FORMAT
        try:
            f2 = G.determine_format(line)
            if not (isinstance(f2, dict) and tuple(f2.get("position", ())) == (w, d) and bool(f2.get("velocities")) == vel
                    and isinstance(f2.get("velocities"), (bool, int))):
                put(R_DFMT, f"determine_format({line!r}) = {f2!r}, written with position {(w, d)}, velocities {vel}", f"format:{f2.get('position') if isinstance(f2, dict) else f2!r}")
            f3 = G.determine_format(line + "\n")
            if f3 != f2:
                put(R_DFMT, f"determine_format differs with the line terminator: {f3!r} vs {f2!r}", "terminator")
        except Exception as e:
            put(R_DFMT, f"determine_format({line!r}) raises {type(e).__name__}: {e}", f"determine_format:{type(e).__name__}")
        # parse_atomline is judged against the independent reading of the very line it is given
        if a is not None:
            done[R_PARSE] = True
            held = [a["resid"], a["resname"], a["name"], a["atnum"]] + list(a["vals"])
            for how, call in (("format inferred", lambda: G.parse_atomline(line)),
                              ("format given", lambda: G.parse_atomline(line, {"position": (w, d), "velocities": vel})),
                              ("with terminator", lambda: G.parse_atomline(line + "\n"))):
                try:
                    back = call()
                    if corrupt_back is not None:
                        back = corrupt_back(back)
                except Exception as e:
                    put(R_PARSE, f"parse_atomline({line!r}) [{how}] raises {type(e).__name__}: {e}", f"parse_atomline:{type(e).__name__}")
                    continue
                if not isinstance(back, (tuple, list)) or len(back) != len(held):
                    put(R_PARSE, f"parse_atomline({line!r}) [{how}] returns {back!r}: not a record of {len(held)} fields", "not-a-record")
                    continue
                for j, (h, g) in enumerate(zip(held, back)):
                    if j < 4:
                        ok = (isinstance(g, str) if isinstance(h, str) else isinstance(g, numbers.Integral) and not isinstance(g, bool)) and g == h
                    else:
                        try:
                            ok = abs(_frac(g) - h) <= Fraction(math.ulp(float(g)))
                        except (ValueError, OverflowError, TypeError):
                            ok = False
                    if not ok:
                        names = ["residue number", "residue name", "atom name", "atom number", "x", "y", "z", "vx", "vy", "vz"]
                        put(R_PARSE, f"parse_atomline({line!r}) [{how}]: {names[j]} is {g!r}, the line holds {(h if j < 4 else float(h))!r} "
                                     f"(columns {[(0, 5), (5, 10), (10, 15), (15, 20)][j] if j < 4 else (20 + (j - 4) * w, 20 + (j - 3) * w)})",
                            f"parse_atomline:{names[j]}")
    return bad, done, line


def task_records(prop, fmt, tier, seed):
    t0 = time.time()
    agg = Agg(REC_CLAUSES)
    w, d = eff_fmt(fmt)
    n = 0
    for vel in (False, True):
        recs = [list(r) for r in record_pool(fmt, vel)]
        if tier == "thorough":
            C, V = float_pool(w, d), float_pool(w, d + 1)
            rng = random.Random(zlib.crc32(f"records/{fmt_tag(fmt)}/{int(vel)}".encode()) ^ (seed * 2654435761 & 0xFFFFFFFF))
            recs += [rnd_record(rng, fmt, vel, C, V) for _ in range(20000)]
        for rec in recs:
            bad, done, line = check_record(rec, fmt)
            cex = {"fn": PFX + "record", "record": rec, "fmt": list(fmt) if fmt is not None else None}
            n += 1
            agg.add(zlib.crc32(repr(rec).encode()), any(rec[0:1] + rec[3:]), bad, done, cex,
                    sample={"record": rec, "fmt": fmt, "line": line, "_rank": 1} if n == 38 or agg.sample is None else None)
    return agg.obligations(prop, f"fmt={fmt_tag(fmt)}/pool" + ("+random-seeded" if tier == "thorough" else ""), time.time() - t0, unit="records")


X_RT = (F_BOX, "ensures.extract_of_dump_equal_to_5e-6")
X_LINE = (F_BOX, "ensures.dump_line_parses_as_numbers")
X_EXC = (F_BOX, "ensures.no_exception")
BOX_CLAUSES = [X_EXC, X_RT, X_LINE]


def check_box(M, corrupt=None):
    """M: 3x3 nested list (lattice vector per row)"""
    import numpy as np
    P = _parsers()
    bad, done = {}, {c: False for c in BOX_CLAUSES}
    done[X_EXC] = True
    eb = [[Fraction(x) for x in row] for row in M]
    line = None
    try:
        line = P.dump_lattice_gro(np.array(M, dtype=float))
        if corrupt is not None:
            line = corrupt(line)
        done[X_LINE] = True
        Mi, prob = indep_box(line)
        if prob:
            bad[X_LINE] = (prob, "box-line")
        back = P.extract_lattice_gro(line if line.endswith("\n") else line + "\n")     # the reader hands over terminated lines
    except Exception as e:
        bad[X_EXC] = (f"dump/extract_lattice_gro({M!r}) raises {type(e).__name__}: {e}", f"box:{type(e).__name__}")
        return bad, done, line
    done[X_RT] = True
    B = np.asarray(back, dtype=float)
    if B.shape != (3, 3):
        bad[X_RT] = (f"extract_lattice_gro({line!r}) = {back!r}: not a 3x3 matrix", "box-shape")
    else:
        for i in range(3):
            for j in range(3):
                if X_RT not in bad and abs(_frac(B[i, j]) - eb[i][j]) > BOX_TOL + Fraction(math.ulp(float(B[i, j]))):
                    bad[X_RT] = (f"extract(dump(M))[{i}][{j}] = {float(B[i, j])!r}, M[{i}][{j}] = {M[i][j]!r}; line {line!r}", f"box[{i}][{j}]")
    if not prob:
        note = gro_order_note(Mi, eb)            # informational only
        if note:
            done["_notes"] = [note + f": {line!r}"]
    return bad, done, line


def box_scope(tier, seed):
    Ms = []
    for b in BOXES:
        Ms.append([[float(x) for x in r] for r in expected_box(b)])
    vals = [0.0, 1.0, 2.5, 3.12345, 0.000004, 0.000006, 12.345675, 99.99999, 1234.56789, -0.5, -1.23456]
    for a in vals[1:9]:
        for b in vals[1:9:3]:
            Ms.append([[a, 0.0, 0.0], [0.0, b, 0.0], [0.0, 0.0, a + b]])
    for k, a in enumerate(vals):
        for m, b in enumerate(vals):
            c = vals[(k + m) % len(vals)]
            Ms.append([[3.0 + k, 0.0, 0.0], [a, 4.0 + m, 0.0], [b, c, 5.0 + 0.11111 * k]])
    for (i, j) in ((0, 1), (0, 2), (1, 0), (1, 2), (2, 0), (2, 1)):        # one off-diagonal entry at a time, any position, any sign
        for v in (0.75, -1.25, 0.000006, -0.00001, 123.45678):
            M = [[4.0, 0.0, 0.0], [0.0, 5.0, 0.0], [0.0, 0.0, 6.0]]
            M[i][j] = v
            Ms.append(M)
    for k in range(6):                                                      # upper-triangular only, dense, signs varied
        sg = [1 if (k >> b) & 1 else -1 for b in range(3)]
        Ms.append([[4.0, 0.5 * sg[0], 0.25 * sg[1]], [0.0, 5.0, 0.75 * sg[2]], [0.0, 0.0, 6.0]])
        Ms.append([[3.0 + k, 0.21 * sg[0], -0.32 * sg[1]], [0.43 * sg[2], 4.0 + k, 0.54 * sg[0]], [-0.65 * sg[1], 0.76 * sg[2], 5.0 + k]])
    if tier == "thorough":
        rng = random.Random(seed + 1313)
        for _ in range(5000):
            Ms.append([[rng.choice((0.0, rng.uniform(-20, 20), round(rng.uniform(-5, 5), 5))) if i != j else rng.uniform(0.001, 200.0)
                        for j in range(3)] for i in range(3)])
        for _ in range(20000):
            t = [rng.choice((0.0, rng.uniform(-50, 50), round(rng.uniform(-5, 5), 5) + rng.choice((0, 5e-6, 4.9e-6)))) for _ in range(3)]
            dg = [rng.uniform(0.001, 200.0) for _ in range(3)]
            Ms.append([[dg[0], 0.0, 0.0], [t[0], dg[1], 0.0], [t[1], t[2], dg[2]]])
    return Ms


def task_boxes(prop, tier, seed):
    t0 = time.time()
    agg = Agg(BOX_CLAUSES)
    for n, M in enumerate(box_scope(tier, seed)):
        bad, done, line = check_box(M)
        agg.add(zlib.crc32(repr(M).encode()), any(M[i][j] for i in range(3) for j in range(3) if i != j), bad, done,
                {"fn": PFX + "box", "matrix": M}, sample={"matrix": M, "line": line, "_rank": 1} if n == 4 else None)
    return agg.obligations(prop, "3-vector+diagonal+triclinic+general-3x3" + ("+random-seeded" if tier == "thorough" else ""), time.time() - t0, unit="boxes")


def task_title_empty(prop, tier, seed):
    """the empty title (a .gro title line may be empty): separate family so that it cannot mask the others"""
    t0 = time.time()
    agg = Agg(FILE_CLAUSES)
    tmp = _mkdtemp()
    try:
        j = 0
        for fmt in (None, (10, 5)):
            for vel in (False, True):
                pool = record_pool(fmt, vel)
                for count in COUNTS:
                    for form in FORMS:
                        for recs in (pool[1:2], pool[2:5]):
                            _, bi, api, bw = rotate(j)
                            j += 1
                            case = make_case(recs, fmt, count, form, 0, bi, api, bw)
                            case["title_kind"], case["title"] = "empty", ""
                            bad, done, text = run_case(case, tmp)
                            agg.add(case_key(case), True, bad, done, case, sample={"case": case, "written_file": text, "_rank": 1})
    finally:
        shutil.rmtree(tmp, ignore_errors=True)
    return agg.obligations(prop, "title=empty/recs<=3", time.time() - t0)


# ---- guards


def _sub_line(raw, lineno, fn):
    lines = raw.decode("ascii").split("\n")
    lines[lineno] = fn(lines[lineno])
    return "\n".join(lines).encode("ascii")


def _bump_last_digit(s, a, b):
    """add one unit in the last place of the fixed-point field s[a:b] (digit 9 -> 8)"""
    ch = s[b - 1]
    return s[:b - 1] + ("8" if ch == "9" else str(int(ch) + 1)) + s[b:]


def _guard_undecided(gid, e):
    """the corruption could not be applied (the file/line produced by the code under check is already malformed)"""
    return ob(gid, "undecided", kind="guard", engine="smallscope", backend="runtime-contract", expect="refuted",
              reason=f"corruption not applicable: {type(e).__name__}: {e}")


def task_guards(prop, seed):
    """must-fail guards: each clause, evaluated on a deliberately corrupted file / line, has to be refuted; plus scope guards"""
    out = []
    tmp = _mkdtemp()
    t0 = time.time()
    try:
        recs_v = [[99999, "SOL", "1HW", 7, 1.0, -2.5, 0.125, 0.5, -0.25, 1.0], [100001, "ABCDE", "12345", 10 ** 7, 3.0, 0.0005, -999.999, 0.0, 99.9999, -0.00005]]
        base = {"fn": PFX + "file", "records": recs_v, "title_kind": "plain", "title": "Guard title", "box": BOXES[4],
                "fmt": None, "count": "backfilled", "form": "list", "api": "writeline", "box_when": "before"}
        w = 8
        corruptions = [
            (C_COORD, "coordinate-last-decimal+1", lambda raw: _sub_line(raw, 2, lambda s: _bump_last_digit(s, 20, 28))),
            (C_VEL, "velocity-last-decimal+1", lambda raw: _sub_line(raw, 2, lambda s: _bump_last_digit(s, 44, 52))),
            (C_NAMES, "atom-name-character-changed", lambda raw: _sub_line(raw, 2, lambda s: s[:14] + "X" + s[15:])),
            (C_NAMES, "residue-name-last-character-lost", lambda raw: _sub_line(raw, 3, lambda s: s[:9] + " " + s[10:])),
            (C_NUM, "99999-written-as-0", lambda raw: _sub_line(raw, 2, lambda s: "    0" + s[5:])),
            (C_WRAP, "wrapped-number-widens-the-line", lambda raw: _sub_line(raw, 3, lambda s: "100001" + s[5:])),
            (C_BYTES, "one-line-one-byte-longer", lambda raw: _sub_line(raw, 3, lambda s: s + " ")),
            (C_BOX, "box-last-decimal+1", lambda raw: _sub_line(raw, 4, lambda s: _bump_last_digit(s, 0, 9))),
            (C_BOX, "box-entries-permuted", lambda raw: _sub_line(raw, 4, lambda s: " ".join(s.split()[:3] + s.split()[4:] + s.split()[3:4]))),
            (C_TITLE, "title-character-changed", lambda raw: _sub_line(raw, 0, lambda s: s[:-1] + "?")),
            (C_TITLE, "title-trailing-space-added", lambda raw: _sub_line(raw, 0, lambda s: s + " ")),
            (C_COUNT, "count-line-says-1", lambda raw: _sub_line(raw, 1, lambda s: "        1")),
            (C_COUNT, "last-record-dropped", lambda raw: "\n".join(raw.decode().split("\n")[:3] + raw.decode().split("\n")[4:]).replace("        2", "        1", 1).encode()),
            (C_LAYOUT, "count-backfilled-one-byte-late", lambda raw: raw.replace(b"        2\n", b"         2", 1)),
            (C_LAYOUT, "coordinate-field-not-a-number", lambda raw: _sub_line(raw, 2, lambda s: s[:20] + "   x.000" + s[28:])),
            (C_RFMT, "first-line-reformatted-to-(9,4)-velocities-lost", None),
        ]
        # the uncorrupted base case must hold (otherwise the guards say nothing)
        bad0, done0, text0 = run_case(base, tmp)
        out.append(ob(f"{prop}/{F_FILE}/guard.base-case-holds", "discharged" if not bad0 else "refuted", kind="guard", engine="smallscope",
                      backend="runtime-contract", expect="discharged", reason=str(_strip(bad0))[:500], sample={"case": base, "written_file": text0}))
        for clause, name, cor in corruptions:
            if cor is None:
                continue
            gid = f"{prop}/{clause[0]}/guard.must-fail.{clause[1].split('.', 1)[1]}/{name}"
            try:
                bad, done, text = run_case(base, tmp, corrupt=cor)
            except Exception as e:
                out.append(_guard_undecided(gid, e))
                continue
            caught = clause in bad or (clause is C_COUNT and C_EXC in bad)
            out.append(ob(gid, "refuted" if caught else "discharged",
                          kind="guard", engine="smallscope", backend="runtime-contract", expect="refuted",
                          reason=(bad.get(clause) or bad.get(C_EXC) or ("not caught", ""))[0][:300],
                          sample={"corrupted_file": text, "violated": sorted(f"{c[1]}" for c in bad)}))
        # multi-byte title: the count back-filled at a character offset instead of a file offset eats the end of the title line
        u8 = dict(base, title_kind="utf8-cjk", title="\u7cfb\u7edf \u03b1", records=[r[:7] for r in recs_v])
        if title_writable(u8["title"]):
            def charoffset(raw):
                k = len(u8["title"]) + 1
                return raw[:k] + b"        2\n" + raw[k + 10:]
            gid = f"{prop}/{F_FILE}/guard.must-fail.title_equal/multi-byte-title-count-backfilled-at-character-offset"
            try:
                bad0u, _, _ = run_case(u8, tmp)
                bad, done, text = run_case(u8, tmp, corrupt=charoffset)
                out.append(ob(gid, "refuted" if (not bad0u and (C_TITLE in bad or C_LAYOUT in bad)) else "discharged", kind="guard",
                              engine="smallscope", backend="runtime-contract", expect="refuted",
                              reason=(bad.get(C_TITLE) or bad.get(C_LAYOUT) or ("not caught", ""))[0][:300], sample={"corrupted_file": text}))
            except Exception as e:
                out.append(_guard_undecided(gid, e))
        # reader format guard: a file whose lines are (9,4) while (8,3) was requested
        case94 = dict(base, records=[[1, "SOL", "OW", 1, 1.0, -2.5, 0.125], [2, "SOL", "HW1", 2, 3.0, 0.0005, -99.999]])

        def to94(raw):
            ls = raw.decode().split("\n")
            for k in (2, 3):
                s = ls[k]
                ls[k] = s[:20] + "".join(" " + s[20 + 8 * i:28 + 8 * i].strip().rjust(7) + "0" for i in range(3))
            return "\n".join(ls).encode()
        gid = f"{prop}/{F_DFMT}/guard.must-fail.reader_recovers_position_format/lines-rewritten-as-(9,4)"
        try:
            bad, done, text = run_case(case94, tmp, corrupt=to94)
            out.append(ob(gid, "refuted" if C_RFMT in bad else "discharged", kind="guard", engine="smallscope", backend="runtime-contract",
                          expect="refuted", reason=(bad.get(C_RFMT) or ("not caught", ""))[0][:300], sample={"corrupted_file": text}))
        except Exception as e:
            out.append(_guard_undecided(gid, e))
        # deliberately wrong clause: "numbers > 99999 come back unchanged" must be refuted by the real code
        P = _parsers()
        g_ok = False
        try:
            back = P.GroFile.parse_atomline(P.GroFile.parse_atomlist([100001, "A", "B", 1, 0.0, 0.0, 0.0]))
            g_ok = back[0] != 100001
        except Exception:
            g_ok = True
        out.append(ob(f"{prop}/{F_FILE}/guard.must-fail.wrong-clause-large-numbers-unchanged", "refuted" if g_ok else "discharged",
                      kind="guard", engine="smallscope", backend="runtime-contract", expect="refuted"))
        # function-level guards
        rec = [99999, "SOL", "1HW", 7, 1.0, -2.5, 0.125]
        for clause, name, cor, corb in ((R_LINE, "residue-name-character-changed", lambda s: s[:5] + "X" + s[6:], None),
                                  (R_LINE, "number-99999-as-0", lambda s: "    0" + s[5:], None),
                                  (R_LINE, "line-one-column-wider", lambda s: s[:20] + " " + s[20:], None),
                                  (R_PARSE, "returned-y-is-the-x-field", None, lambda b: tuple(b[:5]) + (b[4],) + tuple(b[6:])),
                                  (R_PARSE, "returned-atom-name-lost-its-last-character", None, lambda b: tuple(b[:2]) + (b[2][:-1],) + tuple(b[3:])),
                                  (R_DFMT, "line-rewritten-as-(9,4)", lambda s: s[:20] + "".join(" " + s[20 + 8 * i:28 + 8 * i] for i in range(3)), None)):
            gid = f"{prop}/{clause[0]}/guard.must-fail.{clause[1].split('.', 1)[1]}/{name}"
            try:
                bad, done, line = check_record(rec, (8, 3), corrupt=cor, corrupt_back=corb)
            except Exception as e:
                out.append(_guard_undecided(gid, e))
                continue
            caught = clause in bad
            out.append(ob(gid, "refuted" if caught else "discharged",
                          kind="guard", engine="smallscope", backend="runtime-contract", expect="refuted",
                          reason=(bad.get(clause) or ("not caught", ""))[0][:300], sample={"line": line}))
        for clause, name, cor in ((X_RT, "box-entry-off-by-1e-5", lambda s: _bump_last_digit(s, 0, 9)),
                                  (X_RT, "box-order-permuted", lambda s: " ".join(s.split()[:3] + s.split()[4:] + s.split()[3:4])),
                                  (X_RT, "four-decimals-lose-precision", lambda s: " ".join(t[:t.index(".") + 5] for t in s.split())),
                                  (X_LINE, "entry-not-a-number", lambda s: s.replace("2.98765", "2.9876x"))):
            gid = f"{prop}/{F_BOX}/guard.must-fail.{clause[1].split('.', 1)[1]}/{name}"
            try:
                bad, done, line = check_box(BOXES[4]["value"], corrupt=cor)
            except Exception as e:
                out.append(_guard_undecided(gid, e))
                continue
            out.append(ob(gid, "refuted" if clause in bad else "discharged",
                          kind="guard", engine="smallscope", backend="runtime-contract", expect="refuted",
                          reason=(bad.get(clause) or ("not caught", ""))[0][:300], sample={"line": line}))
        # scope guards: the enumerated scope really contains what the statement quantifies over
        cov = scope_coverage()
        for k, v in cov.items():
            out.append(ob(f"{prop}/{F_FILE}/guard.scope.{k}", "discharged" if v else "refuted", kind="guard", engine="smallscope",
                          backend="runtime-contract", expect="discharged"))
    finally:
        shutil.rmtree(tmp, ignore_errors=True)
    for o in out:
        o["secs"] = (time.time() - t0) / max(1, len(out))
    return out


def scope_coverage():
    cov = {}
    allrec = []
    for fmt in FORMATS:
        for vel in (False, True):
            pool = record_pool(fmt, vel)
            allrec += pool
            w, d = eff_fmt(fmt)
            C = float_pool(w, d)
            u = 10.0 ** -d
            cov[f"fmt={fmt_tag(fmt)}.vel={int(vel)}.every-pool-value-in-every-column"] = all(
                {repr(r[c]) for r in pool} >= {repr(x) for x in C} for c in (4, 5, 6))
            cov[f"fmt={fmt_tag(fmt)}.vel={int(vel)}.all-values-fit"] = all(fits(x, w, d) for r in pool for x in r[4:7]) and \
                all(fits(x, w, d + 1) for r in pool for x in r[7:])
            cov[f"fmt={fmt_tag(fmt)}.vel={int(vel)}.boundaries-present"] = (
                any(x < 0 for x in C) and 0.5 * u in C and -0.5 * u in C and 0.49999 * u in C and (2.0 - 0.5 * u) in C
                and max(C) >= 10.0 ** 4 - 1.01 * u and min(C) <= -(10.0 ** 3 - 1.01 * u))
    cov["all-64-number-pairs"] = len({(r[0], r[3]) for r in allrec}) == 64
    cov["numbers-99999-100000-1e7"] = {99999, 100000, 10 ** 7} <= {r[0] for r in allrec} & {r[3] for r in allrec}
    cov["name-lengths-1-to-5-in-both-columns"] = all({len(r[c]) for r in allrec} == {1, 2, 3, 4, 5} for c in (1, 2))
    cov["digit-leading-names-in-both-columns"] = all(any(r[c][0].isdigit() for r in allrec) for c in (1, 2))
    cov["names-non-blank-ascii"] = all(1 <= len(s) <= 5 and s.isascii() and not any(ch.isspace() for ch in s) for s in NAMES)
    cov["box-kinds"] = {b["kind"].split("-")[0] for b in BOXES} == {"vector", "diagonal", "triclinic", "general"} and all(
        b["value"][0][1] == 0 and b["value"][0][2] == 0 and b["value"][1][2] == 0 for b in BOXES if b["kind"].startswith(("diagonal", "triclinic")))
    gen = [b["value"] for b in BOXES if b["kind"].startswith("general")]
    offd = [(0, 1), (0, 2), (1, 0), (1, 2), (2, 0), (2, 1)]
    cov["general-3x3-one-box-per-single-off-diagonal-position"] = all(
        any(m[i][j] != 0 and all(m[a][b] == 0 for a, b in offd if (a, b) != (i, j)) for m in gen) for i, j in offd)
    cov["general-3x3-upper-triangular-only"] = any(all(m[i][j] != 0 for i, j in offd if i < j) and all(m[i][j] == 0 for i, j in offd if i > j) for m in gen)
    cov["general-3x3-dense-with-negative-entries"] = any(all(x != 0 for r in m for x in r) and any(x < 0 for r in m for x in r) for m in gen) \
        and any(all(x > 0 for r in m for x in r) for m in gen)
    combos = {rotate(j) for j in range(448 * 3)}
    # every (title, box) pair with every way of handing the records over, and every (api, box timing) pair, occur in every task
    cov["title-box-api-timing-all-combinations-per-task"] = (
        {(c[0], c[1], c[2]) for c in combos} == {(t_, b_, a_) for t_ in range(len(TITLES)) for b_ in range(len(BOXES)) for a_ in APIS}
        and {(c[2], c[3]) for c in combos} == {(a_, w_) for a_ in APIS for w_ in BOX_WHEN})
    cov["multi-byte-titles-writable-and-present"] = sum(1 for k, t in TITLES if t and title_writable(t) and len(t.encode(text_encoding())) > len(t)) >= 2
    tilts = [[b["value"][1][0], b["value"][2][0], b["value"][2][1]] for b in BOXES if b["kind"].startswith("triclinic")]
    cov["triclinic-boxes-with-no-positive-tilt"] = sum(1 for t in tilts if min(t) < 0 and max(t) <= 0) >= 2
    cov["triclinic-boxes-with-mixed-sign-tilts"] = any(min(t) < 0 < max(t) for t in tilts)
    return cov


# ---------------------------------------------------------------------------
# API


def bounded_tasks(prop, tier, seed):
    try:    # warm the parent: forked children do not each pay the import
        import gaddlemaps.parsers  # noqa: F401
    except Exception:
        pass
    quick = tier != "thorough"
    t = []
    lim = 300.0 if quick else 2400.0
    for fmt in FORMATS:
        for vel in (False, True):
            for count in COUNTS:
                t.append((f"b13/file/fmt={fmt_tag(fmt)}/vel={int(vel)}/count={count}", task_files, (prop, fmt, vel, count, tier, seed), lim))
    for fmt in FORMATS:
        t.append((f"b13/record/fmt={fmt_tag(fmt)}", task_records, (prop, fmt, tier, seed), lim))
    t.append(("b13/box", task_boxes, (prop, tier, seed), lim))
    if EMPTY_TITLE_FAMILY:
        t.append(("b13/title-empty", task_title_empty, (prop, tier, seed), lim))
    t.append(("b13/guards", task_guards, (prop, seed), lim))
    return t


def _clause_of(cex, table):
    for c in table:
        if c[1] == cex.get("clause"):
            return c
    return None


def replay(prop, cex):
    fn = (cex or {}).get("fn", "")
    if not isinstance(fn, str) or not fn.startswith(PFX):
        return None
    if fn == PFX + "file":
        tmp = _mkdtemp()
        try:
            bad, done, text = run_case(cex, tmp)
        finally:
            shutil.rmtree(tmp, ignore_errors=True)
        c = _clause_of(cex, FILE_CLAUSES)
        w, d = eff_fmt(cex["fmt"])
        return {"reproduced": bool(bad) and (c is None or c in bad or C_EXC in bad),
                "observed": {"violated": {k: v[0] for k, v in _strip(bad).items()},
                             "written_file": text if text is None or len(text) < 3000 else text[:3000] + "..."},
                "expected": {"records": cex["records"][:8], "title": expected_title(cex["title"], None),
                             "box": [[float(x) for x in r] for r in expected_box(cex["box"])], "position_format": [w, d],
                             "contract": "same count; names identical; numbers <= 99999 unchanged, larger ones in five columns without widening the line; "
                                         "coordinates/velocities within half a unit of their last written decimal; box to 5e-6; title equal; "
                                         "all atom lines of equal byte length"},
                "inputs": cex}
    if fn == PFX + "record":
        fmt = tuple(cex["fmt"]) if cex.get("fmt") is not None else None
        bad, done, line = check_record(cex["record"], fmt)
        c = _clause_of(cex, REC_CLAUSES)
        return {"reproduced": bool(bad) and (c is None or c in bad or R_EXC in bad),
                "observed": {"violated": {k: v[0] for k, v in _strip(bad).items()}, "parse_atomlist": line},
                "expected": {"line (this module's formatter, numbers > 99999 unspecified beyond five columns)":
                             my_format([fit5(cex["record"][0], 0)] + cex["record"][1:3] + [fit5(cex["record"][3], 0)] + cex["record"][4:], *eff_fmt(fmt)),
                             "format": {"position": list(eff_fmt(fmt)), "velocities": len(cex["record"]) == 10}},
                "inputs": cex}
    if fn == PFX + "box":
        bad, done, line = check_box(cex["matrix"])
        c = _clause_of(cex, BOX_CLAUSES)
        return {"reproduced": bool(bad) and (c is None or c in bad or X_EXC in bad),
                "observed": {"violated": {k: v[0] for k, v in _strip(bad).items()}, "dump_lattice_gro": line},
                "expected": {"matrix": cex["matrix"], "tolerance": 5e-6}, "inputs": cex}
    return None
