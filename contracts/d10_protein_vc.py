"""Deductive part of C10 (guessed restraints of multi-residue molecules): pyvc on the AST of the real guess_protein_restrains.

For molecules with ANY number of residues of ANY sizes: the function refuses molecules with different residue counts; otherwise the
returned list is the concatenation, residue by residue, of guess_residue_restrains(res1_k, res2_k, offset1_k, offset2_k) with
offset_k = number of atoms of the earlier residues -- hence every pair joins atoms of residues at the SAME sequence position, every
index is in range, and (by the callee's contract) every atom of both molecules has a partner.

guess_residue_restrains is used by contract (its own behaviour is checked exhaustively for all sizes 1..40 x 1..40 by the bounded part
and _split_list is proved for every length): the pairs of one residue pair are (offset1 + i, offset2 + j) with 0 <= i < len(res1),
0 <= j < len(res2), and every i and every j occurs.
"""
from __future__ import annotations

import z3

from vf import symrun as S, core, pyvc, seq
from vf.core import ob, discharge
from vf.pyvc import LoopSpec, Stub

I = z3.IntSort()
B = z3.BoolSort()
NR1, NR2 = z3.Ints("n_residues_1 n_residues_2")
Len1 = z3.Function("residue_size_1", I, I)
Len2 = z3.Function("residue_size_2", I, I)
Off1 = z3.Function("atoms_before_residue_1", I, I)          # ghost prefix sums
Off2 = z3.Function("atoms_before_residue_2", I, I)
SegLen = z3.Function("pairs_of_residue", I, I)
Tot = z3.Function("pairs_before_residue", I, I)              # ghost prefix sum of SegLen
RelI = z3.Function("pair_first_index_in_residue", I, I, I)
RelJ = z3.Function("pair_second_index_in_residue", I, I, I)
WitI = z3.Function("pair_covering_atom_of_residue_1", I, I, I)   # Skolem witnesses of "every atom has a partner" (callee contract)
WitJ = z3.Function("pair_covering_atom_of_residue_2", I, I, I)
At = z3.Function("position_of_pair", I, I, I)                # ghost: At(k, q) = Tot(k) + q
NamesDiffer = z3.Bool("resname_lists_differ")
Compatible = z3.Function("resnames_compatible_at", I, B)


def deductive_info():
    return {
        "functions": ["gaddlemaps/_alignment.py::guess_protein_restrains (any number of residues of any sizes; guess_residue_restrains by contract)"],
        "stubs": ["pyvc models: residue lists as symbolic sequences, residue-name comparison as uninterpreted predicates, zip of two symbolic sequences, "
                  "list += the pairs returned by guess_residue_restrains (a segment described by its contract)"],
        "assumptions": ["contract of guess_residue_restrains(res1, res2, o1, o2): pairs (o1+i, o2+j), 0 <= i < len(res1), 0 <= j < len(res2), every i and every j occurs "
                        "(checked exhaustively for all sizes 1..40 x 1..40 by the bounded part; _split_list proved for every length)"],
        "explanation": ("Deductive: guess_protein_restrains is verified on its AST for any number of residues: same-position pairing, index range, coverage, refusal of "
                        "different residue counts. "),
    }


def _key(v):
    return v if isinstance(v, z3.ExprRef) else seq.SymDict._key(v)


class NS:
    def pyvc_copy(self):
        return self


class NameTok(NS):
    def __init__(self, which, k):
        self.which, self.k = which, k

    def pyvc_contains(self, other):          # `other in self`
        if not isinstance(other, NameTok):
            raise pyvc.PyvcUnsupported("membership of something else than a residue name")
        return S.SymBool(z3.And(Compatible(self.k), self.k == other.k) if True else None)


class ResNames(seq.SymSeq):
    def __init__(self, which, n):
        seq.SymSeq.__init__(self, f"resnames{which}", n, lambda k: NameTok(which, k))
        self.which = which

    def __ne__(self, other):
        return S.SymBool(NamesDiffer)

    def __eq__(self, other):
        return S.SymBool(z3.Not(NamesDiffer))

    __hash__ = None


class ResM(NS):
    def __init__(self, which, k):
        self.which, self.k = which, k

    def pyvc_len(self):
        return S.SymReal((Len1 if self.which == 1 else Len2)(self.k))


class MolM(NS):
    def __init__(self, which, n):
        self.resnames = ResNames(which, n)
        self.residues = seq.SymSeq(f"residues{which}", n, lambda k: ResM(which, k))


def sym_zip(a, b):
    if hasattr(a, "pyvc_iter") and hasattr(b, "pyvc_iter"):
        la, ia = a.pyvc_iter()
        lb, ib = b.pyvc_iter()
        return seq.SymSeq("zip", z3.If(la <= lb, la, lb), lambda k: (ia(k), ib(k)))
    return zip(a, b)


sym_zip.pyvc_pure = True


class Segment(NS):
    """the list returned by guess_residue_restrains for residue pair k, known by its contract"""

    def __init__(self, k, o1, o2):
        self.k, self.o1, self.o2 = k, o1, o2


class Restr(seq.SymList):
    def __init__(self, length=None, arrays=None):
        seq.SymList.__init__(self, "restrains", [I, I], lambda c: (S.SymReal(c[0]), S.SymReal(c[1])), lambda x: [_key(x[0]), _key(x[1])], length, arrays)

    def pyvc_copy(self):
        return Restr(self.length, self.arrays)

    def pyvc_fresh_like(self, interp, name):
        f = seq.SymList.pyvc_fresh_like(self, interp, name)
        return Restr(f.length, f.arrays)

    def pyvc_inplace(self, interp, st, op, r, line):
        if op != "Add" or not isinstance(r, Segment):
            raise pyvc.PyvcUnsupported("restrains updated with something else than += <pairs of one residue pair>")
        new = self.pyvc_fresh_like(interp, "restrains")
        n0, k = self.length, r.k
        x, q = z3.Ints("x!e q!e")
        st.assume(new.length == n0 + SegLen(k))
        st.assume(z3.ForAll([x], z3.Implies(z3.And(0 <= x, x < n0), z3.And(z3.Select(new.arrays[0], x) == z3.Select(self.arrays[0], x),
                                                                          z3.Select(new.arrays[1], x) == z3.Select(self.arrays[1], x)))))
        st.assume(z3.ForAll([q], z3.Implies(z3.And(0 <= q, q < SegLen(k)), z3.And(z3.Select(new.arrays[0], n0 + q) == r.o1 + RelI(k, q),
                                                                                 z3.Select(new.arrays[1], n0 + q) == r.o2 + RelJ(k, q)))))
        return new


def _callee_contract():
    k, q, i = z3.Ints("k!c q!c i!c")
    return [z3.ForAll([k], SegLen(k) >= 0),
            z3.ForAll([k, q], z3.Implies(z3.And(0 <= q, q < SegLen(k)), z3.And(0 <= RelI(k, q), RelI(k, q) < Len1(k), 0 <= RelJ(k, q), RelJ(k, q) < Len2(k))),
                      patterns=[z3.MultiPattern(RelI(k, q)), z3.MultiPattern(RelJ(k, q))]),
            z3.ForAll([k, i], z3.Implies(z3.And(0 <= i, i < Len1(k)), z3.And(0 <= WitI(k, i), WitI(k, i) < SegLen(k), RelI(k, WitI(k, i)) == i)), patterns=[WitI(k, i)]),
            z3.ForAll([k, i], z3.Implies(z3.And(0 <= i, i < Len2(k)), z3.And(0 <= WitJ(k, i), WitJ(k, i) < SegLen(k), RelJ(k, WitJ(k, i)) == i)), patterns=[WitJ(k, i)])]


def _ghosts():
    k, q = z3.Ints("k!g q!g")
    return [Off1(0) == 0, Off2(0) == 0, Tot(0) == 0,
            z3.ForAll([k], z3.Implies(k >= 0, z3.And(Off1(k + 1) == Off1(k) + Len1(k), Off2(k + 1) == Off2(k) + Len2(k), Tot(k + 1) == Tot(k) + SegLen(k))),
                      patterns=[Off1(k + 1)]),
            z3.ForAll([k], z3.Implies(k >= 0, z3.And(Off2(k + 1) == Off2(k) + Len2(k))), patterns=[Off2(k + 1)]),
            z3.ForAll([k], z3.Implies(k >= 0, Tot(k + 1) == Tot(k) + SegLen(k)), patterns=[Tot(k + 1)]),
            z3.ForAll([k, q], At(k, q) == Tot(k) + q, patterns=[At(k, q)]),
            z3.ForAll([k], z3.And(Len1(k) >= 0, Len2(k) >= 0))]


def _content(L: Restr, k):
    """pairs of the residue pairs before k are in place, each inside its two residue blocks"""
    a, q = z3.Ints("a!s q!s")
    return z3.And(
        L.length == Tot(k), Tot(k) >= 0, Off1(k) >= 0, Off2(k) >= 0,
        z3.ForAll([a], z3.Implies(z3.And(0 <= a, a < k), z3.And(Tot(a) >= 0, Tot(a) + SegLen(a) <= Tot(k), Off1(a) >= 0, Off2(a) >= 0,
                                                                Off1(a + 1) <= Off1(k), Off2(a + 1) <= Off2(k)))),
        z3.ForAll([a, q], z3.Implies(z3.And(0 <= a, a < k, 0 <= q, q < SegLen(a)),
                                     z3.And(z3.Select(L.arrays[0], At(a, q)) == Off1(a) + RelI(a, q), z3.Select(L.arrays[1], At(a, q)) == Off2(a) + RelJ(a, q))),
                  patterns=[At(a, q)]))


def task_protein(prop, seed):
    tag = f"{prop}/guess_protein_restrains"

    def guess_residue(interp, st, a, k, n):
        if len(a) != 4 or not isinstance(a[0], ResM) or not isinstance(a[1], ResM) or a[0].which != 1 or a[1].which != 2:
            raise pyvc.PyvcUnsupported("guess_residue_restrains called with other arguments than (residue of mol1, residue of mol2, offset1, offset2)")
        interp.oblige(st, "callsite.residues_at_the_same_sequence_position", a[0].k == a[1].k)
        return Segment(a[0].k, _key(a[2]), _key(a[3]))

    def inv_names(st, k):
        return k >= 0

    def inv_main(st, k):
        L = pyvc.local(st, "restrains", Restr)
        o1, o2 = pyvc.local(st, "offset1"), pyvc.local(st, "offset2")
        if L is pyvc.UNBOUND or o1 is pyvc.UNBOUND or o2 is pyvc.UNBOUND:
            return z3.BoolVal(False)
        return z3.And(k >= 0, _key(o1) == Off1(k), _key(o2) == Off2(k), _content(L, k))

    loops = {0: LoopSpec(inv_names, name="names-loop"), 1: LoopSpec(inv_main, name="residues-loop")}
    try:
        it = pyvc.Interp("gaddlemaps/_alignment.py", "guess_protein_restrains", {"guess_residue_restrains": Stub("guess_residue_restrains", guess_residue), "IOError": IOError},
                         loops, tag, builtins_model={"zip": sym_zip})
        it.containers["restrains"] = lambda: Restr()
        ends = it.run({"mol1": MolM(1, NR1), "mol2": MolM(2, NR2)}, pre=[NR1 >= 0, NR2 >= 0] + _ghosts() + _callee_contract())
    except (pyvc.PyvcUnsupported, S.SymError) as e:
        return [ob(f"{tag}/vc-generation", "undecided", engine="pyvc", reason=f"outside the pyvc subset: {type(e).__name__}: {e}")]
    out = [ob(f"{tag}/vc-generation", "discharged" if it.obls and ends else "undecided", engine="pyvc", backend="ast",
              sample={"obligations": len(it.obls), "exit_paths": len(ends), "raising_exits": sum(1 for e in ends if e.sig == pyvc.RAISE)})]
    cex = {"fn": "d10:vc", "kind": "vc", "signature": "guess_protein_restrains"}
    for o in it.obls:
        v = discharge(o.name, o.hyps, o.goal, backends=("z3",), engine="pyvc", timeout_ms=15000, seed=seed, sample={"goal": core.short(o.goal, 160)})
        if v["status"] == "refuted":
            v["cex"] = dict(cex, obligation=o.name)
        out.append(v)
    a, q, i = z3.Ints("a!p q!p i!p")
    n_norm = 0
    saw_refusal = False
    for ei, e in enumerate(ends):
        if e.sig == pyvc.RAISE:
            # a refusal is demanded when the residue counts differ; other refusals (incompatible residue names) are the function's own business
            v = discharge(f"{tag}/exit{ei}/raise-path-is-the-length-check", e.pc, NR1 != NR2, backends=("z3",), engine="pyvc", timeout_ms=10000)
            saw_refusal = saw_refusal or v["status"] == "discharged"
            continue
        if e.sig != pyvc.RETURN or not isinstance(e.val, Restr):
            out.append(ob(f"{tag}/exit{ei}/returns_the_list", "undecided", engine="pyvc", reason=f"exit {e.sig} {type(e.val).__name__}"))
            continue
        n_norm += 1
        L = e.val
        posts = [("refused_unless_same_number_of_residues", NR1 == NR2),
                 ("every_pair_joins_atoms_of_residues_at_the_same_sequence_position_and_is_in_range",
                  z3.And(L.length == Tot(NR1),
                         z3.ForAll([a, q], z3.Implies(z3.And(0 <= a, a < NR1, 0 <= q, q < SegLen(a)),
                                                      z3.And(Off1(a) <= z3.Select(L.arrays[0], At(a, q)), z3.Select(L.arrays[0], At(a, q)) < Off1(a + 1),
                                                             Off2(a) <= z3.Select(L.arrays[1], At(a, q)), z3.Select(L.arrays[1], At(a, q)) < Off2(a + 1),
                                                             0 <= z3.Select(L.arrays[0], At(a, q)), z3.Select(L.arrays[0], At(a, q)) < Off1(NR1),
                                                             0 <= z3.Select(L.arrays[1], At(a, q)), z3.Select(L.arrays[1], At(a, q)) < Off2(NR2),
                                                             0 <= At(a, q), At(a, q) < L.length)), patterns=[At(a, q)]))),
                 ("every_atom_of_both_molecules_has_a_partner",
                  z3.And(z3.ForAll([a, i], z3.Implies(z3.And(0 <= a, a < NR1, 0 <= i, i < Len1(a)),
                                                      z3.And(0 <= At(a, WitI(a, i)), At(a, WitI(a, i)) < L.length,
                                                             z3.Select(L.arrays[0], At(a, WitI(a, i))) == Off1(a) + i)), patterns=[WitI(a, i)]),
                         z3.ForAll([a, i], z3.Implies(z3.And(0 <= a, a < NR2, 0 <= i, i < Len2(a)),
                                                      z3.And(0 <= At(a, WitJ(a, i)), At(a, WitJ(a, i)) < L.length,
                                                             z3.Select(L.arrays[1], At(a, WitJ(a, i))) == Off2(a) + i)), patterns=[WitJ(a, i)])))]
        for name, goal in posts:
            v = discharge(f"{tag}/exit{ei}/ensures.{name}", e.pc, goal, backends=("z3",), engine="pyvc", timeout_ms=15000, seed=seed)
            if v["status"] == "refuted":
                v["cex"] = dict(cex, clause=name)
            out.append(v)
    out.append(ob(f"{tag}/raises.different_residue_counts_are_refused", "discharged" if saw_refusal else "undecided", engine="pyvc", backend="z3",
                  reason="" if saw_refusal else "no raising path whose condition is 'the residue counts differ' (that normal returns imply equal counts is a separate clause)"))
    if not n_norm:
        out.append(ob(f"{tag}/normal-exit-exists", "undecided", engine="pyvc", reason="no normal exit"))
    return out


def deductive_tasks(prop, tier, seed):
    return [("guess_protein_restrains/pyvc", task_protein, (prop, seed), 600.0)]
