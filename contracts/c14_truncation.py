"""C14 -- incomplete or truncated .gro output is never accepted as a valid system.

Engine: smallscope (bounded run-time contract checks) on the real
gaddlemaps.parsers.GroFile reader and writer.

Reader contract (GroFile(path) in read mode followed by readlines()), for a
byte prefix P of a complete file F whose box line starts at byte offset B:

    R1  len(P) <= B             ==>  rejected (any Exception)
    R2  accepted and len(P) > B ==>  returned records == atom records of F
    R3  P == F                  ==>  accepted.  NOT demanded by the C14 statement (readability of
                                     complete files is C13's subject): a miss is reported as
                                     UNDECIDED (R1/R2 hold vacuously for that file), never refuted

Writer contract (GroFile(path, 'w'), writeline * n, close()), observed through a
pass-through proxy of the underlying file object that takes a flushed copy of
the file after every low-level operation (write / seek) -- every such copy is
a crash point ("the process dies before the next operation"):

    W1  crash point before close() is called           ==> the copy is rejected
    W2  crash point inside close() and the copy is
        accepted                                       ==> the copy holds, by the independent parser, the declared
                                                           count n, the n records handed to writeline and at least
                                                           one byte of the box line, and the reader returns exactly
                                                           those n records
    W3  after close() returned and the file is accepted ==> the reader returns exactly the atom records the finished
                                                           file holds by the independent parser (a rejected finished
                                                           file or a writer that raises is C13's subject: UNDECIDED;
                                                           whether the file holds the values given to writeline is
                                                           C13's subject too and only noted in the sample)
    W4  every byte prefix of the bytes flushed just
        before close() is called (torn last write)     ==> rejected ("stops at any point before it is closed")

No clause depends on how many low-level operations the writer uses, on the type of
the exception, or on the text layout the writer chooses (the reference records of
W2/W3 are parsed from the finished file itself).

The oracle (records, box-line offset) is a fixed-width parser written here; it
never calls into gaddlemaps.
"""
from __future__ import annotations

import builtins
import contextlib
import gc
import io
import os
import shutil
import signal
import tempfile
import time
import warnings

from vf import symrun as S
from vf.core import ob

PROP = "C14"
FN_R = "GroFile.__init__+readlines"
FN_W = "GroFile.writeline+close"
KW = dict(kind="bounded", engine="smallscope", backend="runtime-contract")
HANG_SECONDS = 20.0
SMALL = 2048            # shipped files up to this size: every byte prefix in the quick tier


def _info_bounded(prop):
    return {
        "level": "other",
        "functions": ["gaddlemaps/parsers/__init__.py::GroFile.__init__", "gaddlemaps/parsers/__init__.py::GroFile._load_and_verify",
                      "gaddlemaps/parsers/__init__.py::GroFile._load_box_matrix", "gaddlemaps/parsers/__init__.py::GroFile.readlines",
                      "gaddlemaps/parsers/__init__.py::GroFile.readline", "gaddlemaps/parsers/__init__.py::GroFile.parse_atomline",
                      "gaddlemaps/parsers/__init__.py::GroFile.writeline", "gaddlemaps/parsers/__init__.py::GroFile._setup_write_file",
                      "gaddlemaps/parsers/__init__.py::GroFile.close", "gaddlemaps/parsers/__init__.py::GroFile._write_closing_info",
                      "gaddlemaps/parsers/__init__.py::extract_lattice_gro"],
        "stubs": ["gaddlemaps.parsers.open -> pass-through wrapper of builtins.open (reader runs: records the handle so that it is closed "
                  "even when the constructor raises; writer runs: returns a pass-through proxy of the real file object that copies the "
                  "flushed file after every write/seek)"],
        "trusted_base": ["CPython 3.12 file I/O on a local tmp directory (flush makes written bytes visible to a second open)",
                         "the fixed-width oracle parser in this module", "vf/pool.py, vf/runner.py"],
        "assumptions": ["a crash leaves on disk exactly the bytes written by the low-level operations completed so far (no torn or "
                        "reordered write inside one write() call; torn writes of the final file are covered by the byte-prefix contract)",
                        "'rejected' = GroFile(path) or readlines() raises any Exception; a hang (> %.0f s) or a silent return of other "
                        "records is a violation" % HANG_SECONDS,
                        "the crash point between the write of the box line and the write of its final newline leaves the complete system "
                        "on disk; it falls under 'a truncation that is accepted returns exactly the atom records' (W2), not under 'must raise'"],
        "explanation": ("Bounded run-time contract checking, nothing deductive. Reader: every byte prefix (length 0..len) of every generated "
                        "complete file (1..4 records quick / 1..8 thorough; with/without velocities; rectangular/triclinic box; count written "
                        "as '%d' or right-justified in 9 columns; position format (8,3) and (10,5); ordinary and all-numeric residue/atom "
                        "names) and of the shipped .gro files (quick: every byte prefix of files <= 2 kB, line boundaries +-3 bytes of the larger "
                        "ones; thorough: every byte prefix of every shipped file) is opened with the real GroFile and judged against an "
                        "independent fixed-width parse of the complete file. Writer: for the same record families a real GroFile writer "
                        "session is run with the atom count declared up front or back-filled, and the flushed file after every low-level "
                        "write/seek (after open, inside and after each record, before close, between the steps of _write_closing_info) is "
                        "given to the real reader; additionally every byte prefix of the flushed file just before close() (torn last write) "
                        "must be rejected. Liveness (complete/finished files are accepted; the finished file holds the records given to "
                        "writeline) is not part of the C14 statement: a miss there is reported undecided, not as a violation."),
        "rule": ("one evaluation per (file, prefix length) resp. per (writer session, crash point); non-trivial = distinct byte strings "
                 "given to the reader; obligations are grouped per clause and scope family"),
        "exhaustive": True,
    }


# ---------------------------------------------------------------------------
# independent oracle: fixed-width .gro parser and formatter


class OracleError(Exception):
    pass


def _parse_atom_line(line):
    if len(line) < 20:
        raise OracleError("atom line shorter than 20 characters")
    try:
        resnum = int(line[0:5])
        atnum = int(line[15:20])
    except ValueError:
        raise OracleError("residue/atom number is not an integer")
    tail = line[20:]
    dots = [i for i, ch in enumerate(tail) if ch == "."]
    if len(dots) not in (3, 6):
        raise OracleError("expected 3 or 6 decimal points")
    if len(tail) % len(dots):
        raise OracleError("uneven float columns")
    w = len(tail) // len(dots)
    try:
        vals = tuple(float(tail[i * w:(i + 1) * w]) for i in range(len(dots)))
    except ValueError:
        raise OracleError("bad float column")
    return (resnum, line[5:10].strip(), line[10:15].strip(), atnum) + vals


def oracle_parse(data: bytes, need_full_box=True):
    """Parse a .gro byte string.  Returns dict(n, records, atom_off, box_off,
    box_line, line_starts).  Raises OracleError when the bytes do not hold a
    title, an integer count, that many well-formed newline-terminated atom lines
    and at least one byte of the following (box) line."""
    text = data.decode("latin-1")
    lines = text.split("\n")
    if len(lines) < 3:
        raise OracleError("fewer than two complete lines")
    cnt = lines[1].strip()
    if not cnt.isdigit():
        raise OracleError("count line is not an integer")
    n = int(cnt)
    if len(lines) < 2 + n + 1:
        raise OracleError("fewer newline-terminated atom lines than the count")
    atom_off = len(lines[0]) + 1 + len(lines[1]) + 1
    recs = [_parse_atom_line(l) for l in lines[2:2 + n]]
    if len({len(l) for l in lines[2:2 + n]}) > 1:
        raise OracleError("atom lines of different length")
    box_off = atom_off + sum(len(l) + 1 for l in lines[2:2 + n])
    box_line = lines[2 + n]
    if len(data) <= box_off:
        raise OracleError("no byte of the box line")
    if need_full_box:
        parts = box_line.split()
        try:
            [float(p) for p in parts]
        except ValueError:
            raise OracleError("box line is not numeric")
        if len(parts) not in (3, 9):
            raise OracleError("box line needs 3 or 9 numbers")
    starts, pos = [], 0
    for l in lines[:-1]:
        starts.append(pos)
        pos += len(l) + 1
    starts.append(pos)
    return {"n": n, "records": recs, "atom_off": atom_off, "box_off": box_off, "box_line": box_line,
            "line_starts": starts}


def make_records(n, vel, numeric, dec):
    """n atom records whose floats are exact at `dec` (positions) / dec+1 (velocities) decimals."""
    recs = []
    for i in range(n):
        resnum = i // 2 + 1
        resname = str(7 + i // 2) if numeric else ("MOL" if i // 2 % 2 == 0 else "WAT")
        atname = str(i + 1) if numeric else "C%d" % (i + 1)
        pos = (1.234567 + 0.1 * i, -0.5 * i + 0.002345, 2.5 + 10.0 * (i % 2))
        r = [resnum, resname, atname, i + 1] + [float("%.*f" % (dec, v)) for v in pos]
        if vel:
            vv = (0.12345678 * (i + 1), -1.5, 0.00012345 * i)
            r += [float("%.*f" % (dec + 1, v)) for v in vv]
        recs.append(tuple(r))
    return recs


BOXES = {"rect": [[2.5, 0, 0], [0, 3.0, 0], [0, 0, 3.5]],
         "tric": [[2.5, 0.0, 0.0], [0.25, 3.0, 0.0], [-0.5, 0.75, 3.5]]}


def own_format(records, box, count_style, fmt, title="C14 generated file"):
    """GROMACS-style formatter, independent of GroFile (box columns are %10.5f)."""
    fig, dec = fmt
    out = [title, ("%d" if count_style == "plain" else "%9d") % len(records)]
    for r in records:
        s = "%5d%-5s%5s%5d" % (r[0], r[1], r[2], r[3])
        s += "".join("%*.*f" % (fig, dec, v) for v in r[4:7])
        if len(r) == 10:
            s += "".join("%*.*f" % (fig, dec + 1, v) for v in r[7:10])
        out.append(s)
    b = box
    vals = [b[0][0], b[1][1], b[2][2]]
    if any(b[i][j] for i in range(3) for j in range(3) if i != j):
        vals += [b[0][1], b[0][2], b[1][0], b[1][2], b[2][0], b[2][1]]
    out.append("".join("%10.5f" % v for v in vals))
    return ("\n".join(out) + "\n").encode("ascii")


def generated_cases(n):
    """(name, parameters) of every generated complete file / writer session with n records."""
    cases = []
    for vel in (False, True):
        for boxname in ("rect", "tric"):
            for count in ("plain", "wide"):
                for fmt in ((8, 3), (10, 5)):
                    for numeric in (False, True):
                        name = "n%d-%s-%s-%s-f%d.%d-%s" % (n, "vel" if vel else "novel", boxname, count, fmt[0], fmt[1],
                                                          "numeric" if numeric else "names")
                        cases.append((name, {"n": n, "vel": vel, "box": boxname, "count": count, "fmt": list(fmt),
                                             "numeric": numeric}))
    return cases


def case_file(par):
    recs = make_records(par["n"], par["vel"], par["numeric"], par["fmt"][1])
    return own_format(recs, BOXES[par["box"]], par["count"], tuple(par["fmt"])), recs


# ---------------------------------------------------------------------------
# observing the real reader


class _Hang(BaseException):
    pass


class _NoProxy(Exception):
    pass


@contextlib.contextmanager
def _deadline(seconds):
    def on_alarm(signum, frame):
        raise _Hang()
    try:
        old = signal.signal(signal.SIGALRM, on_alarm)
    except ValueError:          # not in the main thread: no deadline
        yield
        return
    signal.setitimer(signal.ITIMER_REAL, seconds)
    try:
        yield
    finally:
        signal.setitimer(signal.ITIMER_REAL, 0)
        signal.signal(signal.SIGALRM, old)


def _parsers():
    import gaddlemaps.parsers as P
    return P


class _Handles:
    """open() bound into gaddlemaps.parsers while the reader runs: plain
    builtins.open that remembers the handle so the harness can close it."""

    def __init__(self):
        self.files = []

    def open(self, *a, **k):
        f = builtins.open(*a, **k)
        self.files.append(f)
        return f

    def close_all(self):
        for f in self.files:
            try:
                f.close()
            except Exception:
                pass
        self.files = []


def _norm(recs):
    """Records as tuples of plain Python values, names stripped (the statement fixes the
    records, not their container type or padding)."""
    out = []
    for r in recs:
        vals = [x.item() if hasattr(x, "item") else x for x in r]
        out.append(tuple(v.strip() if isinstance(v, str) else v for v in vals))
    return out


def observe_read(path, handles=None):
    """('accepted', records) | ('rejected', 'Type: message') | ('hang', None) from the real reader."""
    P = _parsers()
    try:
        with _deadline(HANG_SECONDS):
            gf = P.GroFile(path)
            recs = gf.readlines()
        res = ("accepted", _norm(recs))
    except _Hang:
        res = ("hang", None)
    except Exception as e:
        res = ("rejected", "%s: %s" % (type(e).__name__, str(e)[:90]))
        # "raises an error instead of returning atoms": a file that OPENS and hands out atom records one by one before the error shows up
        # has returned atoms -> 'partial' (judged like an acceptance wherever the statement demands an error)
        got = []
        try:
            with _deadline(HANG_SECONDS):
                gf2 = P.GroFile(path)
                while len(got) < 100000:
                    got.append(gf2.readline())
        except BaseException:      # noqa: the end of the attempt, whatever ends it
            pass
        if got:
            try:
                res = ("partial", _norm(got), res[1])
            except Exception:
                res = ("partial", [None] * len(got), res[1])
    finally:
        if handles is not None:
            handles.close_all()
    return res


def _show(obs):
    if obs[0] == "accepted":
        return "accepted with %d records %s" % (len(obs[1]), str(obs[1])[:160])
    if obs[0] == "hang":
        return "no answer within %.0f s" % HANG_SECONDS
    if obs[0] == "partial":
        return "opened and handed out %d atom records %s before failing (%s)" % (len(obs[1]), str(obs[1])[:120], obs[2])
    return "rejected (%s)" % obs[1]


def judge_prefix(plen, total, box_off, want, obs):
    """Clauses R1-R3 for one prefix.  Returns list of (clause, message); empty = holds.
    A clause name starting with '?' is not demanded by the statement of C14 (liveness:
    that complete files are readable is C13's subject): it is reported undecided, never refuted."""
    bad = []
    if obs[0] == "hang":
        bad.append(("R1" if plen <= box_off else "?R3", "reader did not return within %.0f s" % HANG_SECONDS))
        return bad
    if plen <= box_off and obs[0] in ("accepted", "partial"):
        bad.append(("R1", "prefix of %d bytes ends before the box line (offset %d) but is %s; expected an exception"
                    % (plen, box_off, _show(obs))))
    if plen > box_off and obs[0] == "accepted" and obs[1] != want:
        bad.append(("R2", "prefix of %d bytes is accepted with other records than the complete file: %s; expected %d records %s"
                    % (plen, _show(obs), len(want), str(want)[:160])))
    if plen == total and obs[0] != "accepted":
        bad.append(("?R3", "the complete file is %s (its %d records were expected; not demanded by the C14 statement, but "
                    "R1/R2 then hold vacuously for this file)" % (_show(obs), len(want))))
    return bad


CLAUSE_ID = {"R1": "ensures.prefix_ending_before_box_line_is_rejected",
             "R2": "ensures.accepted_prefix_returns_exactly_the_records_of_the_complete_file",
             "R3": "liveness.complete_file_is_accepted"}


def check_prefixes(data: bytes, lengths, workdir, reader, want=None):
    """Run the reader on the given prefix lengths (descending truncation of one
    scratch file).  Returns (counts per clause, first failure per clause, stats)."""
    orc = oracle_parse(data)
    if want is None:
        want = orc["records"]
    box_off = orc["box_off"]
    path = os.path.join(workdir, "prefix.gro")
    with builtins.open(path, "wb") as f:
        f.write(data)
    counts = {"R1": 0, "R2": 0, "R3": 0}
    first = {}
    stats = {"accepted": 0, "rejected": 0}
    for plen in sorted(set(lengths), reverse=True):
        os.truncate(path, plen)
        obs = reader(path)
        stats["accepted" if obs[0] == "accepted" else "rejected"] += 1
        if plen <= box_off:
            counts["R1"] += 1
        else:
            counts["R2"] += 1
        if plen == len(data):
            counts["R3"] += 1
        for clause, msg in judge_prefix(plen, len(data), box_off, want, obs):
            # descending order: keep the last seen = smallest failing prefix
            first[clause] = (plen, msg)
    return counts, first, stats, orc


def _sig_prefix(clause, plen, orc):
    if clause.endswith("R3"):
        return "R3:complete-file-rejected"
    if clause == "R2":
        return "R2:wrong-records"
    where = "at-box-line-offset" if plen == orc["box_off"] else ("inside-atom-lines" if plen > orc["atom_off"] else "inside-header")
    return "R1:accepted-" + where


class _Acc:
    """Accumulates evaluations of one scope family into one obligation per clause."""

    def __init__(self, fn, family, clause_ids):
        self.fn, self.family, self.ids = fn, family, clause_ids
        self.n = {c: 0 for c in clause_ids}
        self.distinct = {c: 0 for c in clause_ids}
        self.fail = {}
        self.nfail = {c: 0 for c in clause_ids}
        self.undec = {}
        self.sample = None
        self.t0 = time.time()

    def add(self, clause, k=1, distinct=None):
        self.n[clause] += k
        self.distinct[clause] += k if distinct is None else distinct

    def failure(self, clause, reason, cex):
        self.nfail[clause] += 1
        old = self.fail.get(clause)
        if old is None or cex.get("_size", 0) < old[1].get("_size", 0):
            self.fail[clause] = (reason, cex)

    def undecided(self, clause, reason):
        self.undec.setdefault(clause, [0, reason])[0] += 1

    def route(self, clause, reason, cex):
        """'?X' = not demanded by the statement -> undecided; 'X' -> refuted."""
        if clause.startswith("?"):
            if clause[1:] in self.ids:
                self.undecided(clause[1:], reason)
        elif clause in self.ids:
            self.failure(clause, reason, cex)

    def obligations(self):
        out = []
        secs = time.time() - self.t0
        for c, cid in self.ids.items():
            oid = "%s/%s/%s/%s" % (PROP, self.fn, cid, self.family)
            if c in self.fail:
                reason, cex = self.fail[c]
                cex = {k: v for k, v in cex.items() if k != "_size"}
                out.append(ob(oid, "refuted", secs=secs, evaluations=self.n[c], nontrivial=self.distinct[c],
                              reason="%d failing evaluation(s); smallest: %s" % (self.nfail[c], reason), cex=cex,
                              sample=self.sample, **KW))
            elif c in self.undec:
                out.append(ob(oid, "undecided", secs=secs, evaluations=self.n[c], nontrivial=self.distinct[c],
                              reason="%d evaluation(s) could not be judged; first: %s" % tuple(self.undec[c]),
                              sample=self.sample, **KW))
            elif self.n[c] == 0:
                out.append(ob(oid, "undecided", secs=secs, evaluations=0, nontrivial=0,
                              reason="no evaluation of this clause in the scope (harness problem)", **KW))
            else:
                out.append(ob(oid, "discharged", secs=secs, evaluations=self.n[c], nontrivial=self.distinct[c],
                              sample=self.sample, **KW))
        return out


def _run_prefix_family(acc, name, data, lengths, workdir, reader, cex_extra):
    counts, first, stats, orc = check_prefixes(data, lengths, workdir, reader)
    for c, k in counts.items():
        acc.add(c, k)
    for clause, (plen, msg) in first.items():
        cex = {"kind": "prefix", "name": name, "prefix_len": plen, "box_line_offset": orc["box_off"],
               "signature": _sig_prefix(clause, plen, orc), "_size": plen + 10 * len(data)}
        cex.update(cex_extra)
        acc.route(clause, "%s: %s" % (name, msg), cex)
    return stats, orc


# ---------------------------------------------------------------------------
# reader tasks


@contextlib.contextmanager
def _scratch():
    d = tempfile.mkdtemp(prefix="c14_")
    try:
        yield d
    finally:
        shutil.rmtree(d, ignore_errors=True)


@contextlib.contextmanager
def _quiet():
    with warnings.catch_warnings():
        warnings.simplefilter("ignore")
        with contextlib.redirect_stdout(io.StringIO()):
            yield


def _lenient_reader(path):
    """A deliberately sloppy reader (must-fail guard): returns whatever well-formed atom lines it finds."""
    with builtins.open(path, "rb") as f:
        lines = f.read().decode("latin-1").split("\n")
    recs = []
    for l in lines[2:]:
        try:
            recs.append(_parse_atom_line(l))
        except OracleError:
            break
    if not recs:
        return ("rejected", "LenientReader: no atoms")
    return ("accepted", recs)


def task_reader_generated(n, tier, seed):
    P = _parsers()
    h = _Handles()
    fam = "generated[n=%d]" % n
    acc = _Acc(FN_R, fam, CLAUSE_ID)
    tot = {"accepted": 0, "rejected": 0}
    out = []
    with _scratch() as wd, _quiet(), S.patched(P, open=h.open):
        reader = lambda p: observe_read(p, h)
        for name, par in generated_cases(n):
            data, recs = case_file(par)
            orc = oracle_parse(data)
            if orc["records"] != recs:
                out.append(ob("%s/%s/harness.oracle-agrees-with-generator/%s" % (PROP, FN_R, fam), "undecided",
                              reason="oracle parse of %s differs from the generated records" % name, **KW))
                continue
            stats, _ = _run_prefix_family(acc, name, data, range(len(data) + 1), wd, reader,
                                          {"file": data.decode("latin-1"), "params": par})
            for k in tot:
                tot[k] += stats[k]
            if acc.sample is None:
                acc.sample = {"file": data.decode("latin-1"), "box_line_offset": orc["box_off"],
                              "prefix_lengths": "0..%d" % len(data), "accepted": stats["accepted"], "rejected": stats["rejected"]}
    out += acc.obligations()
    # vacuity guards: both outcomes occur
    out.append(ob("%s/%s/guard.both-outcomes-occur/%s" % (PROP, FN_R, fam),
                  "discharged" if tot["accepted"] > 0 and tot["rejected"] > 0 else "refuted", kind="guard",
                  engine="smallscope", backend="runtime-contract", expect="discharged", sample=tot))
    if n == 2:
        out += _reader_must_fail(fam)
    return out


def _reader_must_fail(fam):
    """Must-fail guards of the reader clauses: a sloppy reader has to be refuted on R1, a reader that
    rejects everything on R3, the real reader against a corrupted expectation on R2."""
    out = []
    par = {"n": 2, "vel": False, "box": "rect", "count": "plain", "fmt": [8, 3], "numeric": False}
    data, _ = case_file(par)
    with _scratch() as wd:
        _, first, _, _ = check_prefixes(data, range(len(data) + 1), wd, _lenient_reader)
        _, first3, _, _ = check_prefixes(data, [len(data)], wd, lambda p: ("rejected", "RejectAll"))
        # R2 with a corrupted expectation (one record dropped from the oracle side)
        want = oracle_parse(data)["records"][:-1]
        h = _Handles()
        with S.patched(_parsers(), open=h.open):
            _, first2, _, _ = check_prefixes(data, [len(data)], wd, lambda p: observe_read(p, h), want=want)
    for tag, caught in (("R1.sloppy-reader", "R1" in first),
                        ("R3.reject-all-reader", "?R3" in first3), ("R2.corrupted-expectation", "R2" in first2)):
        out.append(ob("%s/%s/guard.must-fail.%s/%s" % (PROP, FN_R, tag, fam), "refuted" if caught else "discharged",
                      kind="guard", engine="smallscope", backend="runtime-contract", expect="refuted"))
    return out


def _data_dir():
    import gaddlemaps
    return os.path.join(os.path.dirname(os.path.abspath(gaddlemaps.__file__)), "data")


def shipped_files():
    d = _data_dir()
    out = []
    for fn in sorted(os.listdir(d)):
        if fn.lower().endswith(".gro"):
            p = os.path.join(d, fn)
            out.append((fn, os.path.getsize(p)))
    return out


def _boundary_lengths(orc, total):
    s = {0, total}
    for b in orc["line_starts"]:
        for d in range(-3, 4):
            if 0 <= b + d <= total:
                s.add(b + d)
    return sorted(s)


def task_reader_shipped(fn, mode, lo, hi, seed):
    """mode 'all': every prefix length in [lo, hi); 'boundaries': line boundaries +-3 bytes."""
    P = _parsers()
    h = _Handles()
    with builtins.open(os.path.join(_data_dir(), fn), "rb") as f:
        data = f.read()
    scope = "every-byte" if mode == "all" else "line-boundaries+-3"
    fam = "shipped[%s,%s%s]" % (fn, scope, "" if (lo, hi) == (0, None) else ",%d..%s" % (lo, hi))
    try:
        orc = oracle_parse(data)
    except OracleError as e:
        return [ob("%s/%s/harness.shipped-file-is-complete/%s" % (PROP, FN_R, fam), "undecided",
                   reason="oracle cannot parse %s as a complete file: %s" % (fn, e), **KW)]
    if mode == "all":
        top = len(data) + 1 if hi is None else min(hi, len(data) + 1)
        lengths = list(range(lo, top))
    else:
        lengths = _boundary_lengths(orc, len(data))
    ids = dict(CLAUSE_ID)
    if len(data) not in lengths:
        ids.pop("R3")
    if not any(l <= orc["box_off"] for l in lengths):
        ids.pop("R1")
    if not any(l > orc["box_off"] for l in lengths):
        ids.pop("R2")
    acc = _Acc(FN_R, fam, ids)
    with _scratch() as wd, _quiet(), S.patched(P, open=h.open):
        counts, first, stats, _ = check_prefixes(data, lengths, wd, lambda p: observe_read(p, h))
    for c, k in counts.items():
        if c in ids:
            acc.add(c, k)
    for clause, (plen, msg) in first.items():
        cex = {"kind": "prefix", "name": fn, "shipped": fn, "prefix_len": plen, "box_line_offset": orc["box_off"],
               "signature": _sig_prefix(clause, plen, orc)}
        if len(data) <= 4096:
            cex["file"] = data.decode("latin-1")
        acc.route(clause, "%s: %s" % (fn, msg), cex)
    acc.sample = {"shipped": fn, "bytes": len(data), "records": orc["n"], "box_line_offset": orc["box_off"],
                  "prefix_lengths": len(lengths), "accepted": stats["accepted"], "rejected": stats["rejected"]}
    return acc.obligations()


# ---------------------------------------------------------------------------
# writer sessions


class _SnapFile:
    """Pass-through proxy of the writer's real file object: after every low-level
    write/seek it flushes and copies the file as it is on disk."""

    def __init__(self, real, path, log, state):
        self.__dict__.update(_real=real, _path=path, _log=log, _state=state)

    def _snap(self, op):
        if not self._real.closed:
            self._real.flush()
        with builtins.open(self._path, "rb") as f:
            self._log.append((self._state["phase"], op, f.read()))

    def write(self, s):
        r = self._real.write(s)
        self._snap("write(%r)" % (s if len(s) <= 24 else s[:21] + "..."))
        return r

    def seek(self, *a):
        r = self._real.seek(*a)
        self._snap("seek(%s)" % ", ".join(map(str, a)))
        return r

    def __getattr__(self, name):
        return getattr(self._real, name)

    def __setattr__(self, name, value):
        setattr(self._real, name, value)


def session_script(par, declare):
    recs = make_records(par["n"], par["vel"], par["numeric"], par["fmt"][1])
    return {"records": [list(r) for r in recs], "declare": bool(declare), "box": BOXES[par["box"]],
            "fmt": list(par["fmt"]), "comment": "C14 writer session"}


def run_session(script, workdir):
    """Run the real GroFile writer on the script.  Returns (snapshots, error):
    snapshots = [(phase, operation, bytes on disk)], phases 'open', 'record<k>',
    'closing', 'finished'."""
    import numpy as np
    P = _parsers()
    path = os.path.join(workdir, "session.gro")
    if os.path.exists(path):
        os.unlink(path)
    log, state, proxies = [], {"phase": "open"}, []

    def snap_open(p, mode="r", *a, **k):
        f = builtins.open(p, mode, *a, **k)
        if "w" in mode:
            px = _SnapFile(f, p, log, state)
            proxies.append(px)
            return px
        return f

    err = None
    try:
        with S.patched(P, open=snap_open), _deadline(HANG_SECONDS):
            gf = P.GroFile(path, "w")
            if not proxies:
                raise _NoProxy()
            proxies[0]._snap("open")
            if script["declare"]:
                gf.natoms = len(script["records"])
            gf.box_matrix = np.array(script["box"], dtype=float)
            gf.comment = script["comment"]
            if tuple(script["fmt"]) != (8, 3):
                gf.position_format = tuple(script["fmt"])
            for k, rec in enumerate(script["records"], 1):
                state["phase"] = "record%d" % k
                gf.writeline(list(rec))
            state["phase"] = "closing"
            gf.close()
            state["phase"] = "finished"
            proxies[0]._snap("close() returned")
    except _NoProxy:
        err = "harness: GroFile did not open its file through gaddlemaps.parsers.open; crash points cannot be observed"
        try:
            gf._file.close()
        except Exception:
            pass
    except _Hang:
        err = "writer did not return within %.0f s" % HANG_SECONDS
    except Exception as e:
        err = "writer raised %s: %s" % (type(e).__name__, str(e)[:200])
    finally:
        for px in proxies:
            try:
                px._real.close()
            except Exception:
                pass
    return log, err


def run_abandoned(script, workdir, k):
    """A writer that writes the first k records and is then ABANDONED: never closed, all references dropped, garbage collected.
    Returns the bytes on disk afterwards."""
    import gc
    import numpy as np
    P = _parsers()
    path = os.path.join(workdir, "abandoned.gro")
    if os.path.exists(path):
        os.unlink(path)
    with _deadline(HANG_SECONDS):
        gf = P.GroFile(path, "w")
        if script["declare"]:
            gf.natoms = len(script["records"])
        gf.box_matrix = np.array(script["box"], dtype=float)
        gf.comment = script["comment"]
        if tuple(script["fmt"]) != (8, 3):
            gf.position_format = tuple(script["fmt"])
        for rec in script["records"][:k]:
            gf.writeline(list(rec))
        del gf
        gc.collect()
    with builtins.open(path, "rb") as f:
        return f.read()


def run_refused_close(script, workdir, k, use_with):
    """A writer with the atom count declared up front writes only the first k records and is then CLOSED (explicitly or by leaving
    its with-block): the close may raise or not -- what counts is the bytes left on disk, which hold fewer records than declared."""
    import numpy as np
    P = _parsers()
    path = os.path.join(workdir, "refused_close.gro")
    if os.path.exists(path):
        os.unlink(path)
    raised = None
    with _deadline(HANG_SECONDS):
        def fill(gf):
            gf.natoms = len(script["records"])
            gf.box_matrix = np.array(script["box"], dtype=float)
            gf.comment = script["comment"]
            if tuple(script["fmt"]) != (8, 3):
                gf.position_format = tuple(script["fmt"])
            for rec in script["records"][:k]:
                gf.writeline(list(rec))
        try:
            if use_with:
                with P.GroFile(path, "w") as gf:
                    fill(gf)
            else:
                gf = P.GroFile(path, "w")
                fill(gf)
                gf.close()
        except Exception as e_:          # noqa: the refusal itself is allowed (and expected)
            raised = type(e_).__name__
            try:
                gf._file.close()         # release the handle so that the bytes are on disk (the object is not used again)
            except Exception:
                pass
    with builtins.open(path, "rb") as f:
        return f.read(), raised


WCLAUSE_ID = {"W1": "ensures.crash_before_close_is_rejected",
              "W2": "ensures.crash_inside_close_is_rejected_unless_all_records_and_box_line_are_on_disk",
              "W3": "ensures.accepted_finished_file_returns_exactly_its_atom_records",
              "W4": "ensures.torn_write_before_close_is_rejected"}


def _holds_all(data, want):
    """True when, by the independent parser, `data` holds the declared count len(want), exactly the
    records `want` and at least one byte of the line after them."""
    try:
        orc = oracle_parse(data, need_full_box=False)
    except OracleError:
        return False
    return orc["n"] == len(want) and orc["records"] == want


def judge_snapshot(phase, data, obs, want):
    """Clauses W1-W3 for one crash point.  `want` = atom records of the finished file by the
    independent parser (None when there is no parsable finished file).  Returns [(clause, message)];
    a clause starting with '?' could not be judged or is not demanded by the statement (undecided)."""
    if phase == "finished":
        if obs[0] != "accepted":
            return [("?W3", "finished file of %d bytes is %s (not demanded by the C14 statement, but W1/W2 then hold vacuously)"
                     % (len(data), _show(obs)))]
        if want is None:
            return [("?W3", "finished file is accepted but the independent parser cannot read it")]
        if obs[1] != want:
            return [("W3", "finished file of %d bytes is %s; it holds %d records %s"
                     % (len(data), _show(obs), len(want), str(want)[:160]))]
        return []
    if phase != "closing":
        if obs[0] == "hang":
            return [("W1", "reader did not return within %.0f s" % HANG_SECONDS)]
        if obs[0] in ("accepted", "partial"):
            return [("W1", "%d bytes on disk are %s; expected an exception" % (len(data), _show(obs)))]
        return []
    # inside close()
    if obs[0] == "rejected":
        return []
    if want is None:
        return [("?W2", "crash point inside close() is %s but there is no parsable finished file to compare with" % _show(obs))]
    complete = _holds_all(data, want)
    if obs[0] == "hang":
        return [("?W3" if complete else "W2", "reader did not return within %.0f s" % HANG_SECONDS)]
    if obs[0] == "partial" and complete:
        return [("?W3", "complete file inside close() is %s (readability of complete files is C13's subject)" % _show(obs))]
    if not complete:
        return [("W2", "%d bytes on disk do not hold the %d atom records of the finished file followed by a box line, yet are %s"
                 % (len(data), len(want), _show(obs)))]
    if obs[1] != want:
        return [("W2", "reader returns other records than the finished file holds: %s; expected %s" % (_show(obs), str(want)[:160]))]
    return []


def check_session(script, workdir, reader, log=None, err=None):
    """Returns (counts, distinct, failures [(clause, index, message)], log, stats).  No clause depends on
    how many low-level operations the writer uses: whatever crash points the proxy saw are judged."""
    if log is None:
        log, err = run_session(script, workdir)
    path = os.path.join(workdir, "crash.gro")
    counts = {"W1": 0, "W2": 0, "W3": 0, "W4": 0}
    distinct = {"W1": set(), "W2": set(), "W3": set(), "W4": set()}
    fails = []
    stats = {"accepted_inside_close": 0, "crash_points": len(log), "error": err}
    if err is not None and err.startswith("harness:"):
        for c in counts:
            counts[c] = 1
            fails.append(("?" + c, 0, err))
        return counts, {k: 0 for k in distinct}, fails, log, stats
    finished = log[-1][2] if log and log[-1][0] == "finished" else None
    want = None
    if finished is not None:
        try:
            want = oracle_parse(finished, need_full_box=False)["records"]
        except OracleError:
            want = None
    # what the writer puts on disk for the given records (rounding, layout) is C13's subject: only noted in the sample
    stats["finished_file_holds_the_given_records"] = (want == [tuple(r) for r in script["records"]]) if want is not None else None
    cache = {}
    for i, (phase, op, data) in enumerate(log):
        if data not in cache:
            with builtins.open(path, "wb") as f:
                f.write(data)
            cache[data] = reader(path)
        obs = cache[data]
        c = "W3" if phase == "finished" else ("W2" if phase == "closing" else "W1")
        counts[c] += 1
        distinct[c].add(data)
        if phase == "closing" and obs[0] == "accepted":
            stats["accepted_inside_close"] += 1
        for clause, msg in judge_snapshot(phase, data, obs, want):
            fails.append((clause, i, "crash point #%d [%s after %s]: %s" % (i, phase, op, msg)))
    if finished is None:
        counts["W3"] += 1
        fails.append(("?W3", len(log), "the writer session did not finish: %s" % err))
    # torn last write: every byte prefix of the flushed file just before close() is called
    pre = [d for (ph, _, d) in log if ph not in ("closing", "finished")]
    if pre:
        data = pre[-1]
        with builtins.open(path, "wb") as f:
            f.write(data)
        for plen in range(len(data), -1, -1):
            os.truncate(path, plen)
            obs = reader(path)
            counts["W4"] += 1
            distinct["W4"].add(plen)
            if obs[0] != "rejected":
                fails.append(("W4", -1 - plen, "first %d of the %d bytes flushed before close() are %s; expected an exception"
                              % (plen, len(data), _show(obs))))
    return counts, {k: len(v) for k, v in distinct.items()}, fails, log, stats


def task_writer(n, tier, seed):
    P = _parsers()
    fam = "sessions[n=%d]" % n
    acc = _Acc(FN_W, fam, WCLAUSE_ID)
    out = []
    closing_ops = {}
    accepted_inside = 0
    h = _Handles()
    with _scratch() as wd, _quiet():
        def reader(p):
            with S.patched(P, open=h.open):
                return observe_read(p, h)
        for name, par in generated_cases(n):
            declare = par["count"] == "plain"      # 'plain' count <-> natoms declared up front; 'wide' <-> back-filled on close
            script = session_script(par, declare)
            sname = name.replace("-plain-", "-declared-").replace("-wide-", "-backfilled-")
            counts, distinct, fails, log, stats = check_session(script, wd, reader)
            for c in counts:
                acc.add(c, counts[c], distinct[c])
            accepted_inside += stats["accepted_inside_close"]
            nclosing = sum(1 for (ph, _, _) in log if ph == "closing")
            closing_ops.setdefault("declared" if declare else "backfilled", set()).add(nclosing)
            # the writer abandoned (never closed, object dropped and collected) after k records: still a partial file
            nrec = len(script["records"])
            for k_ in sorted({1, max(1, nrec - 1), nrec}):
                if declare and k_ == nrec:
                    continue            # every declared record is on disk: only the box line is missing -- covered by the crash points above
                try:
                    data_ab = run_abandoned(script, wd, k_)
                    apath = os.path.join(wd, "abandoned_copy.gro")
                    with builtins.open(apath, "wb") as f_:
                        f_.write(data_ab)
                    obs_ab = reader(apath)
                    acc.add("W1", 1, 1)
                    if obs_ab[0] != "rejected":
                        fails.append(("W1", -100000 - k_, "writer abandoned after %d of %d records (never closed, object garbage-collected): %d bytes on disk are %s; "
                                      "expected an exception" % (k_, nrec, len(data_ab), _show(obs_ab))))
                except (_Hang, Exception) as e_:      # noqa
                    fails.append(("?W1", -100000 - k_, "abandoned-writer run could not be made: %s: %s" % (type(e_).__name__, str(e_)[:120])))
            # fewer records than declared, then close() / with-exit attempted: whatever close does, the file on disk is incomplete
            if declare and nrec >= 2:
                for k_ in sorted({1, nrec - 1}):
                    for use_with in (False, True):
                        try:
                            data_rc, raised = run_refused_close(script, wd, k_, use_with)
                            rpath = os.path.join(wd, "refused_close_copy.gro")
                            with builtins.open(rpath, "wb") as f_:
                                f_.write(data_rc)
                            obs_rc = reader(rpath)
                            acc.add("W2", 1, 1)
                            if obs_rc[0] != "rejected":
                                fails.append(("W2", -200000 - 2 * k_ - int(use_with),
                                              "count %d declared, %d records written, then %s (%s): %d bytes on disk are %s; expected an exception"
                                              % (nrec, k_, "the with-block left" if use_with else "close() called",
                                                 "raised " + raised if raised else "no exception", len(data_rc), _show(obs_rc))))
                        except (_Hang, Exception) as e_:      # noqa
                            fails.append(("?W2", -200000 - 2 * k_ - int(use_with), "short-close run could not be made: %s: %s" % (type(e_).__name__, str(e_)[:120])))
            for clause, idx, msg in fails:
                cex = {"kind": "writer", "name": sname, "script": script, "crash_index": idx,
                       "signature": "%s:%s" % (clause.lstrip("?"), "declared" if declare else "backfilled"),
                       "_size": 1000 * len(script["records"]) + abs(idx)}
                if 0 <= idx < len(log):
                    cex["phase"], cex["after_operation"] = log[idx][0], log[idx][1]
                    cex["bytes_on_disk"] = log[idx][2].decode("latin-1")
                acc.route(clause, "%s: %s" % (sname, msg), cex)
            if acc.sample is None or (not declare and "backfilled" not in acc.sample.get("session", "")):
                acc.sample = {"session": sname, "crash_points": [[ph, op, len(d)] for (ph, op, d) in log],
                              "accepted_inside_close": stats["accepted_inside_close"],
                              "finished_file_holds_the_given_records": stats.get("finished_file_holds_the_given_records")}
    out += acc.obligations()
    # vacuity (machinery only): the proxy saw at least one low-level operation inside close() in every session.
    # Today: declared = seek, box, newline; back-filled = seek, count, seek, box, newline.  No clause depends on
    # these numbers; a writer that closes with fewer writes is judged on the crash points it has.
    ok = (closing_ops.get("declared") and min(closing_ops["declared"]) >= 1 and
          closing_ops.get("backfilled") and min(closing_ops["backfilled"]) >= 1)
    out.append(ob("%s/%s/guard.close-steps-observed/%s" % (PROP, FN_W, fam), "discharged" if ok else "refuted",
                  kind="guard", engine="smallscope", backend="runtime-contract", expect="discharged",
                  sample={"low_level_operations_inside_close": {k: sorted(v) for k, v in closing_ops.items()},
                          "crash_points_inside_close_accepted (box line on disk, final newline missing)": accepted_inside}))
    if n == 2:
        out += _writer_must_fail(fam)
    return out


def _writer_must_fail(fam):
    """Must-fail guards of the writer clauses on fabricated crash logs."""
    P = _parsers()
    par = {"n": 2, "vel": False, "box": "rect", "count": "wide", "fmt": [8, 3], "numeric": False}
    script = session_script(par, False)
    full, _ = case_file(par)
    one, _ = case_file(dict(par, n=1))
    h = _Handles()
    res = {}
    with _scratch() as wd, _quiet():
        def reader(p):
            with S.patched(P, open=h.open):
                return observe_read(p, h)
        # an eager writer: after the first record the file is already a valid 1-atom system
        log = [("open", "open", b""), ("record1", "fabricated", one), ("finished", "close() returned", full)]
        res["W1.eager-writer"] = any(f[0] == "W1" for f in check_session(script, wd, reader, log, None)[2])
        # inside close the file is acceptable but holds one record only
        log = [("open", "open", b""), ("closing", "fabricated", one), ("finished", "close() returned", full)]
        res["W2.short-file-inside-close"] = any(f[0] == "W2" for f in check_session(script, wd, reader, log, None)[2])
        # the finished file is accepted with one record fewer than it holds (fabricated observation)
        want = oracle_parse(full)["records"]
        res["W3.reader-drops-a-record"] = any(c == "W3" for c, _ in judge_snapshot("finished", full, ("accepted", want[:-1]), want))
        # torn write: the flushed bytes before close have a valid file as a prefix
        log = [("open", "open", b""), ("record2", "fabricated", one + b"junk"), ("finished", "close() returned", full)]
        res["W4.valid-prefix-before-close"] = any(f[0] == "W4" for f in check_session(script, wd, reader, log, None)[2])
    return [ob("%s/%s/guard.must-fail.%s/%s" % (PROP, FN_W, k, fam), "refuted" if v else "discharged", kind="guard",
               engine="smallscope", backend="runtime-contract", expect="refuted") for k, v in res.items()]


# ---------------------------------------------------------------------------


def _tasks_bounded(prop, tier, seed):
    nmax = 4 if tier == "quick" else 8
    t = []
    for n in range(1, nmax + 1):
        t.append(("reader/generated/n%d" % n, task_reader_generated, (n, tier, seed), 300.0))
        t.append(("writer/sessions/n%d" % n, task_writer, (n, tier, seed), 300.0))
    for fn, size in shipped_files():
        if size == 0:
            continue            # system_CG.gro is an empty placeholder, not a complete file
        if tier == "quick":
            if size <= SMALL:
                t.append(("reader/shipped/%s" % fn, task_reader_shipped, (fn, "all", 0, None, seed), 300.0))
            else:
                t.append(("reader/shipped/%s" % fn, task_reader_shipped, (fn, "boundaries", 0, None, seed), 300.0))
        else:
            chunk = 8192
            if size <= chunk:
                t.append(("reader/shipped/%s" % fn, task_reader_shipped, (fn, "all", 0, None, seed), 600.0))
            else:
                for lo in range(0, size + 1, chunk):
                    t.append(("reader/shipped/%s/%d" % (fn, lo), task_reader_shipped, (fn, "all", lo, lo + chunk, seed), 600.0))
    return t


def _replay_bounded(prop, cex):
    """Re-run the failing input on the real code (no open() wrapper for the reader)."""
    warnings.simplefilter("ignore")
    P = _parsers()
    wd = tempfile.mkdtemp(prefix="c14_replay_")
    try:
        reader = lambda p: observe_read(p, None)
        if cex.get("kind") == "prefix":
            if "file" in cex:
                data = cex["file"].encode("latin-1")
            else:
                with builtins.open(os.path.join(_data_dir(), cex["shipped"]), "rb") as f:
                    data = f.read()
            plen = cex["prefix_len"]
            orc = oracle_parse(data)
            path = os.path.join(wd, "prefix.gro")
            with builtins.open(path, "wb") as f:
                f.write(data[:plen])
            obs = reader(path)
            gc.collect()
            allj = judge_prefix(plen, len(data), orc["box_off"], orc["records"], obs)
            bad = [x for x in allj if not x[0].startswith("?")]
            exp = ("an exception (prefix ends before the box line at offset %d)" % orc["box_off"] if plen <= orc["box_off"]
                   else "exactly the %d records of the complete file%s" % (orc["n"], "" if plen == len(data) else ", or an exception"))
            return {"reproduced": bool(bad), "observed": _show(obs), "expected": exp,
                    "violated": [m for _, m in bad], "not_judged": [m for c, m in allj if c.startswith("?")], "inputs": cex}
        if cex.get("kind") == "writer":
            script = cex["script"]
            idx0 = cex.get("crash_index")
            if isinstance(idx0, int) and idx0 <= -200000:       # count declared, fewer records written, close attempted
                v_ = -200000 - idx0
                k_, use_with = v_ // 2, bool(v_ % 2)
                data_rc, raised = run_refused_close(script, wd, k_, use_with)
                rpath = os.path.join(wd, "refused_close_copy.gro")
                with builtins.open(rpath, "wb") as f_:
                    f_.write(data_rc)
                obs_rc = reader(rpath)
                return {"reproduced": obs_rc[0] != "rejected",
                        "observed": "%d bytes on disk after %d of %d declared records and %s (%s): %s"
                                    % (len(data_rc), k_, len(script["records"]), "with-exit" if use_with else "close()", raised or "no exception", _show(obs_rc)),
                        "expected": "an exception when the file is opened", "inputs": cex}
            if isinstance(idx0, int) and idx0 <= -100000:       # abandoned writer (never closed, garbage-collected) after k records
                k_ = -100000 - idx0
                data_ab = run_abandoned(script, wd, k_)
                apath = os.path.join(wd, "abandoned_copy.gro")
                with builtins.open(apath, "wb") as f:
                    f.write(data_ab)
                obs_ab = reader(apath)
                return {"reproduced": obs_ab[0] != "rejected", "observed": "%d bytes on disk after the writer was abandoned: %s" % (len(data_ab), _show(obs_ab)),
                        "expected": "an exception: the writer was never closed", "inputs": cex}
            log, err = run_session(script, wd)          # writer under the pass-through proxy (needed to see the crash state)
            counts, distinct, fails, log, stats = check_session(script, wd, reader, log, err)
            gc.collect()
            idx = cex.get("crash_index")
            fails = [f for f in fails if not f[0].startswith("?")]
            mine = [f for f in fails if f[1] == idx] or fails
            obs = None
            if isinstance(idx, int) and 0 <= idx < len(log):
                path = os.path.join(wd, "crash.gro")
                with builtins.open(path, "wb") as f:
                    f.write(log[idx][2])
                obs = _show(reader(path))
            return {"reproduced": bool(mine), "observed": obs or (mine[0][2] if mine else "contract holds at every crash point"),
                    "expected": "an exception for every crash point before the box line is on disk; exactly the written records afterwards",
                    "violated": [m for _, _, m in mine[:5]], "inputs": cex}
        return {"reproduced": False, "note": "unknown counterexample kind", "inputs": cex}
    finally:
        shutil.rmtree(wd, ignore_errors=True)


# ---------------------------------------------------------------------------
# deductive part (contracts/d14_reader_vc.py) wired in


def info(prop):
    from . import d14_reader_vc as D
    d = _info_bounded(prop)
    h = D.deductive_info()
    from . import d13_writer_vc as W
    hw = W.deductive_info()
    h = {k: h[k] + hw[k] for k in ("functions", "stubs", "assumptions", "explanation")}
    d["functions"] = h["functions"] + [f for f in d.get("functions", []) if not f.endswith(("_load_and_verify", "_load_box_matrix", "GroFile.writeline", "_setup_write_file", "_write_closing_info"))]
    d["stubs"] = h["stubs"] + d.get("stubs", [])
    d["assumptions"] = h["assumptions"] + d.get("assumptions", [])
    d["explanation"] = h["explanation"] + d.get("explanation", "").replace("Bounded run-time contract checking, nothing deductive. ", "Bounded part (run-time contract checking): ")
    d["trusted_base"] = ["z3 5.1", "vf/pyvc.py"] + d.get("trusted_base", [])
    return d


def tasks(prop, tier, seed):
    from . import d14_reader_vc as D, d13_writer_vc as W
    return list(D.deductive_tasks(prop, tier, seed)) + list(W.deductive_tasks(prop, tier, seed, soft=True)) + list(_tasks_bounded(prop, tier, seed))


def replay(prop, cex):
    if cex.get("kind") == "vc":
        # a failed proof obligation of the reader's acceptance logic / the writer's layout: look for a partial file the real reader accepts
        pref = "writer/sessions" if cex.get("fn") == "d13:vc" else "reader/generated"
        for name, fn, args, _lim in [t for t in _tasks_bounded(prop, "quick", 0) if t[0].startswith(pref)][:4]:
            try:
                obs = fn(*args)
            except Exception:
                continue
            for o in obs:
                if o.get("status") == "refuted" and o.get("kind") != "guard" and o.get("cex"):
                    r = _replay_bounded(prop, o["cex"])
                    if r and r.get("reproduced"):
                        r["note"] = f"failed obligation {cex.get('obligation') or cex.get('clause') or cex.get('signature')} manifests on the real GroFile"
                        return r
        return {"reproduced": False, "inputs": cex, "note": "no failing truncation found in the bounded scope"}
    return _replay_bounded(prop, cex)
