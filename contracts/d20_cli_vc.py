"""Deductive part of C20: pyvc on the AST of the real command-line driver.

main()           -- for ANY number of explicit --mol triples and ANY dictionary returned by the discovery: auto_map is called
                    exactly once with the input coordinates, the given scale and the requested output path, and with the list
                        explicit triples (unchanged, in order)  +  for every discovered species, in dictionary order, that is
                        complete (three files) and not excluded:  [start topology, end coordinates, end topology]
                    -- so excluded species are omitted, incomplete ones are skipped, explicit ones are never displaced.
classify_files() -- for ANY list of files: a file is in the coordinate (topology) set iff it is listed and its extension has a
                    coordinate (topology) parser.  Helper of the discovery: informational (a miss is reported undecided).

argparse, print and text formatting are modelled as no-ops; sort_molecules / auto_map / check_backend_installed by contract.
"""
from __future__ import annotations

import z3

from vf import symrun as S, core, pyvc, seq
from vf.core import ob, discharge
from vf.pyvc import LoopSpec, Stub

I = z3.IntSort()
B = z3.BoolSort()


def deductive_info():
    return {
        "functions": ["gaddlemaps/_cli.py::main (assembly of the species list and the single auto_map call; any number of explicit and discovered species)",
                      "gaddlemaps/_cli.py::classify_files (any list of files; informational)"],
        "stubs": ["pyvc models: argparse.ArgumentParser (add_argument no-op, parse_args -> an object with free mol/auto/exclude/scale/outfile/init_coor), "
                  "sort_molecules by contract (returns a dictionary name -> entry; does not modify the explicit list), check_backend_installed (free Boolean), "
                  "auto_map (recorder), print / f-strings / str.format (no-ops), set() as (membership array, witness array)"],
        "assumptions": ["an entry of the discovery dictionary with three keys has exactly the keys top_CG, coor_AA, top_AA (sort_molecules inserts no other key)",
                        "sort_molecules does not modify the list of explicit triples it is given (frame; checked by the bounded part on the real function)"],
        "explanation": ("Deductive: the assembly loop of main() and classify_files are verified on their AST for any number of species / files. "
                        "Which files the discovery assigns (sort_molecules: an OSError protocol over real topologies) and the equality of the outputs are the bounded part. "),
    }


class NS:
    def pyvc_copy(self):
        return self


def _key(v):
    return v if isinstance(v, z3.ExprRef) else seq.SymDict._key(v)


# ---------------------------------------------------------------------------
# main()

NE = z3.Int("n_explicit")
NM = z3.Int("n_discovered")
MolGiven, AutoGiven, ExclGiven, Backend = z3.Bools("mol_given auto_given exclude_given backend_found")
InitA = z3.Function("explicit_start_topology", I, I)
InitB = z3.Function("explicit_end_coordinates", I, I)
InitC = z3.Function("explicit_end_topology", I, I)
NKeys = z3.Function("entry_key_count", I, I)
TopCG = z3.Function("entry_top_CG", I, I)
CoorAA = z3.Function("entry_coor_AA", I, I)
TopAA = z3.Function("entry_top_AA", I, I)
InExcl = z3.Function("name_in_exclude_list", I, B)
CntSel = z3.Function("selected_before", I, I)                  # ghost
PosSel = z3.Function("position_of_selected", I, I)             # ghost: base + CntSel(p), a named term for quantifier patterns


def Sel(p):
    return z3.And(NKeys(p) == 3, z3.Not(z3.And(ExclGiven, InExcl(p))))


class MolList(seq.SymList):
    """the list of [start topology, end coordinates, end topology] triples; remembers the length it had before the discovery loop"""

    def __init__(self, length=None, arrays=None, base=None):
        super().__init__("molecules", [I, I, I], lambda c: [S.SymReal(x) for x in c], lambda x: [_key(v) for v in x], length, arrays)
        self.base = self.length if base is None else base

    def pyvc_copy(self):
        return MolList(self.length, self.arrays, self.base)

    def pyvc_fresh_like(self, interp, name):
        f = seq.SymList.pyvc_fresh_like(self, interp, name)
        return MolList(f.length, f.arrays, self.base)


def _explicit_list():
    a = z3.Lambda([z3.Int("r!l")], InitA(z3.Int("r!l")))
    b = z3.Lambda([z3.Int("r!l")], InitB(z3.Int("r!l")))
    c = z3.Lambda([z3.Int("r!l")], InitC(z3.Int("r!l")))
    return MolList(NE, [a, b, c])


def _list_ok(L: MolList, k, auto: bool):
    """L = explicit triples unchanged + the selected discovered species among the first k, in order"""
    r, p = z3.Ints("r!m p!m")
    a, b, c = L.arrays
    base = L.base
    keep = z3.ForAll([r], z3.Implies(z3.And(0 <= r, r < base),
                                     z3.And(z3.Select(a, r) == InitA(r), z3.Select(b, r) == InitB(r), z3.Select(c, r) == InitC(r))))
    if not auto:
        return z3.And(L.length == base, keep)
    return z3.And(L.length == base + CntSel(k), keep, CntSel(k) >= 0,
                  z3.ForAll([p], z3.Implies(z3.And(0 <= p, p < k, Sel(p)),
                                            z3.And(PosSel(p) >= base, PosSel(p) < base + CntSel(k),
                                                   z3.Select(a, PosSel(p)) == TopCG(p), z3.Select(b, PosSel(p)) == CoorAA(p),
                                                   z3.Select(c, PosSel(p)) == TopAA(p))), patterns=[PosSel(p)]))


def task_main(prop, seed):
    tag = f"{prop}/main"
    calls_key = "auto_map_calls"

    class Opt:
        """an optional command-line value"""

        def __init__(self, given, value=None, contains=None):
            self.given, self.value, self.contains = given, value, contains

        def pyvc_is_none(self):
            return S.SymBool(z3.Not(self.given))

        def pyvc_contains(self, x):
            if self.contains is None or not isinstance(x, Name):
                raise pyvc.PyvcUnsupported("membership test on this option")
            return S.SymBool(self.contains(x.p))

        def pyvc_copy(self):
            return self

    class Name(NS):
        def __init__(self, p):
            self.p = p

    class Entry(NS):
        def __init__(self, p):
            self.p = p

        def pyvc_len(self):
            return S.SymReal(NKeys(self.p))

        def pyvc_getitem(self, key, interp, st):
            f = {"top_CG": TopCG, "coor_AA": CoorAA, "top_AA": TopAA}.get(key)
            if f is None:
                raise pyvc.PyvcUnsupported(f"entry[{key!r}]")
            interp.oblige(st, f"safety.key-present[{key}]", NKeys(self.p) == 3)      # by the assumed contract of sort_molecules
            return S.SymReal(f(self.p))

    class Info(NS):
        def pyvc_iter(self):
            return NM, (lambda p: Name(p))

        def pyvc_getitem(self, key, interp, st):
            if not isinstance(key, Name):
                raise pyvc.PyvcUnsupported("molecule_info[...] with something else than an iterated name")
            return Entry(key.p)

        def pyvc_getattr(self, attr, interp, st):
            if attr == "values":
                return Stub("values", lambda it, s_, a, k, n: seq.SymSeq("values", NM, lambda p: Entry(p)))
            if attr == "items":
                return Stub("items", lambda it, s_, a, k, n: seq.SymSeq("items", NM, lambda p: (Name(p), Entry(p))))
            if attr == "keys":
                return Stub("keys", lambda it, s_, a, k, n: seq.SymSeq("keys", NM, lambda p: Name(p)))
            raise pyvc.PyvcUnsupported(f"molecule_info.{attr}")

    class Mol(Opt):
        """args.mol: None or the list of explicit triples; `molecules = args.mol` binds the list itself"""

    explicit = _explicit_list()
    args = NS()
    args.mol = None          # replaced below through pyvc_getattr
    INIT, SCALE, OUT = object(), object(), object()

    class Args(NS):
        def pyvc_getattr(self, attr, interp, st):
            if attr == "mol":
                return st.ghost["args.mol"]
            if attr == "auto":
                return Opt(AutoGiven)
            if attr == "exclude":
                return Opt(ExclGiven, contains=lambda p: InExcl(p))
            if attr == "init_coor":
                return INIT
            if attr == "scale":
                return SCALE
            if attr == "outfile":
                return OUT
            raise pyvc.PyvcUnsupported(f"args.{attr}")

    class ExplicitOrNone(MolList):
        """value of args.mol: the explicit list when --mol was given; `is None` is the free Boolean"""

        def pyvc_is_none(self):
            return S.SymBool(z3.Not(MolGiven))

        def pyvc_copy(self):
            return ExplicitOrNone(self.length, self.arrays, self.base)

    class Parser(NS):
        def pyvc_getattr(self, attr, interp, st):
            if attr == "add_argument":
                return Stub("add_argument", lambda *a: None)
            if attr == "parse_args":
                return Stub("parse_args", lambda *a: Args())
            raise pyvc.PyvcUnsupported(f"parser.{attr}")

    class Argparse(NS):
        ArgumentParser = Stub("ArgumentParser", lambda *a: Parser())

    def sort_molecules(interp, st, a, k, n):
        if len(a) != 3 or a[0] is not INIT or not isinstance(a[1], Opt) or not isinstance(a[2], MolList):
            raise pyvc.PyvcUnsupported("sort_molecules called with other arguments than (init_coor, auto, molecules)")
        st.log.append(("sort_molecules",))
        return Info()

    def auto_map(interp, st, a, k, n):
        snap = lambda v: v.pyvc_copy() if isinstance(v, MolList) else v      # the list as it is at the call
        st.ghost[calls_key] = st.ghost[calls_key] + [([snap(v) for v in a], {n_: snap(v) for n_, v in k.items()})]
        return None

    def inv(st, k):
        L = pyvc.local(st, "molecules", MolList)
        if L is pyvc.UNBOUND:
            return z3.BoolVal(False)
        return z3.And(k >= 0, _list_ok(L, k, True))

    loops = {0: LoopSpec(inv, name="discovered-loop")}
    p = z3.Int("p!ax")
    pre = [NE >= 0, NM >= 0, CntSel(0) == 0,
           z3.ForAll([p], z3.Implies(p >= 0, CntSel(p + 1) == CntSel(p) + z3.If(Sel(p), 1, 0)), patterns=[CntSel(p + 1)]),
           # PosSel is only a NAME for (length of the explicit list) + CntSel: a term the quantifier patterns can use
           z3.ForAll([p], PosSel(p) == z3.If(MolGiven, NE, 0) + CntSel(p), patterns=[PosSel(p)])]
    g = {"argparse": Argparse(), "sort_molecules": Stub("sort_molecules", sort_molecules), "auto_map": Stub("auto_map", auto_map),
         "check_backend_installed": Stub("check_backend_installed", lambda *a: S.SymBool(Backend))}
    out = []
    cex = {"kind": "vc", "fn": "d20:vc", "signature": "main"}
    try:
        it = pyvc.Interp("gaddlemaps/_cli.py", "main", g, loops, tag, builtins_model={"sum": Stub("sum", lambda *a: "<count>"), "str": str})
        it.containers["molecules"] = lambda: MolList()
        ends = it.run({}, ghost={"args.mol": ExplicitOrNone(explicit.length, explicit.arrays), calls_key: []}, pre=pre)
    except (pyvc.PyvcUnsupported, S.SymError) as e:
        return [ob(f"{tag}/vc-generation", "undecided", engine="pyvc", reason=f"outside the pyvc subset: {type(e).__name__}: {e}")]
    out.append(ob(f"{tag}/vc-generation", "discharged" if it.obls and ends else "undecided", engine="pyvc", backend="ast",
                  sample={"obligations": len(it.obls), "exit_paths": len(ends)}))
    for o in it.obls:
        v = discharge(o.name, o.hyps, o.goal, backends=("z3",), engine="pyvc", timeout_ms=30000, seed=seed,
                      sample={"goal": core.short(o.goal, 160), "n_hyps": len(o.hyps)})
        if v["status"] == "refuted":
            v["cex"] = dict(cex, obligation=o.name)
        out.append(v)
    n_norm = 0
    for ei, e in enumerate(ends):
        if e.sig != pyvc.RETURN:
            out.append(ob(f"{tag}/exit{ei}/no-exception", "undecided", engine="pyvc", reason=f"a path raises {e.val}"))
            continue
        n_norm += 1
        calls = e.ghost[calls_key]
        bound = None
        if len(calls) == 1:        # bind positional and keyword arguments to auto_map's own parameter list (read from its AST)
            try:
                params = [a.arg for a in pyvc.load_function("gaddlemaps/_cli.py", "auto_map")[0].args.args]
            except pyvc.PyvcUnsupported:
                params = []
            pos, kw = calls[0][0], calls[0][1]
            if len(params) >= 4 and len(pos) <= len(params) and not (set(kw) - set(params)) and not (set(params[:len(pos)]) & set(kw)):
                bound = dict(zip(params, pos))
                bound.update(kw)
        ok_call = (bound is not None and len(params) >= 4 and bound.get(params[0]) is INIT and isinstance(bound.get(params[1]), MolList)
                   and bound.get(params[2]) is SCALE and bound.get(params[3]) is OUT)
        if ok_call:
            v = ob(f"{tag}/exit{ei}/ensures.auto_map_called_once_with_input_scale_and_output_path", "discharged", engine="pyvc", backend="ast")
        else:       # a concrete fact about the calls recorded on this (feasible) path: no solver needed
            v = ob(f"{tag}/exit{ei}/ensures.auto_map_called_once_with_input_scale_and_output_path", "refuted", engine="pyvc", backend="ast",
                   reason=f"{len(calls)} auto_map call(s) on this path; expected exactly one: auto_map(args.init_coor, <species list>, args.scale, outfile=args.outfile)",
                   cex=dict(cex, clause="single_call"))
        out.append(v)
        if not ok_call:
            continue
        L = bound[params[1]]
        hyps = list(e.pc)
        goal = z3.And(z3.Implies(AutoGiven, _list_ok(L, NM, True)), z3.Implies(z3.Not(AutoGiven), _list_ok(L, NM, False)),
                      L.base == z3.If(MolGiven, NE, 0))
        v = discharge(f"{tag}/exit{ei}/ensures.species_list_is_explicit_triples_then_complete_not_excluded_discovered_species_in_order", hyps, goal,
                      backends=("z3",), engine="pyvc", timeout_ms=30000, seed=seed)
        if v["status"] == "refuted":
            v["cex"] = dict(cex, clause="species_list")
        out.append(v)
        out.append(core.must_fail(f"{tag}/exit{ei}/guard.must-fail", hyps, z3.BoolVal(False), engine="pyvc", timeout_ms=10000,
                                  hint=[NM == 0, NE == 0]))
    if not n_norm:
        out.append(ob(f"{tag}/normal-exit-exists", "undecided", engine="pyvc", reason="no normal exit"))
    return out


# ---------------------------------------------------------------------------
# classify_files()

NF = z3.Int("n_files")
File = z3.Function("file_at", I, I)
CoordF = z3.Function("extension_has_coordinate_parser", I, B)
TopF = z3.Function("extension_has_topology_parser", I, B)


class SymSet:
    def __init__(self, member=None, wit=None):
        self.member = z3.K(I, z3.BoolVal(False)) if member is None else member
        self.wit = z3.K(I, z3.IntVal(-1)) if wit is None else wit
        self.k = None

    def pyvc_copy(self):
        return SymSet(self.member, self.wit)

    def pyvc_fresh_like(self, interp, name):
        interp.n_fresh += 1
        n = interp.n_fresh
        return SymSet(z3.Array(f"{name}_member!{n}", I, B), z3.Array(f"{name}_wit!{n}", I, I))


def task_classify(prop, seed):
    tag = f"{prop}/classify_files"

    class FileTok(NS):
        def __init__(self, i):
            self.i, self.fid = i, File(i)

    class NameTok(NS):
        def __init__(self, fid):
            self.fid = fid

        def split(self, sep):
            if sep != ".":
                raise pyvc.PyvcUnsupported("split on another separator")
            return Parts(self.fid)
        split.pyvc_pure = True

    class Parts(NS):
        def __init__(self, fid):
            self.fid = fid

        def __getitem__(self, i):
            if i != -1:
                raise pyvc.PyvcUnsupported("another part than the last")
            return ExtTok(self.fid)

    class ExtTok(NS):
        def __init__(self, fid):
            self.fid = fid

    class Parsers(NS):
        def __init__(self, pred):
            self.pred = pred

        def pyvc_contains(self, x):
            if not isinstance(x, ExtTok):
                raise pyvc.PyvcUnsupported("membership of something else than the extension")
            return S.SymBool(self.pred(x.fid))

    class Mgr(NS):
        def __init__(self, pred):
            self.parsers = Parsers(pred)

    class OsPath(NS):
        basename = Stub("basename", lambda it, st, a, k, n: NameTok(a[0].fid) if isinstance(a[0], FileTok) else _unsupported("basename of something else"))

    class Os(NS):
        path = OsPath()

    def add(interp, st, setobj, x):
        if not isinstance(x, FileTok):
            raise pyvc.PyvcUnsupported("add of something else than the file name as listed")
        setobj.member = z3.Store(setobj.member, x.fid, z3.BoolVal(True))
        setobj.wit = z3.Store(setobj.wit, x.fid, st.ghost["cur_k"])

    class SetM(SymSet):
        def pyvc_getattr(self, attr, interp, st):
            if attr == "add":
                return Stub("add", lambda it, s_, a, k, n: add(it, s_, self, a[0]))
            raise pyvc.PyvcUnsupported(f"set.{attr}")

        def pyvc_copy(self):
            return SetM(self.member, self.wit)

        def pyvc_fresh_like(self, interp, name):
            f = SymSet.pyvc_fresh_like(self, interp, name)
            return SetM(f.member, f.wit)

    def set_ok(Sx, pred, k):
        i, f = z3.Ints("i!c f!c")
        return z3.And(z3.ForAll([i], z3.Implies(z3.And(0 <= i, i < k, pred(File(i))), z3.Select(Sx.member, File(i)))),
                      z3.ForAll([f], z3.Implies(z3.Select(Sx.member, f),
                                                z3.And(pred(f), 0 <= z3.Select(Sx.wit, f), z3.Select(Sx.wit, f) < k, File(z3.Select(Sx.wit, f)) == f))))

    def inv(st, k):
        t, c = pyvc.local(st, "topology_files", SymSet), pyvc.local(st, "coordinate_files", SymSet)
        if t is pyvc.UNBOUND or c is pyvc.UNBOUND:
            return z3.BoolVal(False)
        return z3.And(k >= 0, set_ok(t, TopF, k), set_ok(c, CoordF, k))

    def start(interp, st, k):
        st.ghost["cur_k"] = k

    loops = {0: LoopSpec(inv, name="files-loop", on_iteration_start=start)}
    g = {"os": Os(), "ParserManager": Mgr(CoordF), "TopologyParserManager": Mgr(TopF)}
    try:
        it = pyvc.Interp("gaddlemaps/_cli.py", "classify_files", g, loops, tag, builtins_model={"set": Stub("set", lambda it_, st, a, k, n: SetM() if not a else _unsupported("set(iterable)"))})
        ends = it.run({"files": seq.SymSeq("files", NF, lambda i: FileTok(i))}, ghost={"cur_k": z3.IntVal(-1)}, pre=[NF >= 0])
    except (pyvc.PyvcUnsupported, S.SymError) as e:
        return [ob(f"{tag}/vc-generation", "undecided", engine="pyvc", reason=f"outside the pyvc subset: {type(e).__name__}: {e}")]
    out = [ob(f"{tag}/vc-generation", "discharged" if it.obls and ends else "undecided", engine="pyvc", backend="ast",
              sample={"obligations": len(it.obls), "exit_paths": len(ends)})]

    def soften(v):
        # helper of the discovery: the statement fixes what discovery assigns, not this function's own result -> a miss is undecided
        if v["status"] == "refuted":
            v["status"], v["reason"] = "undecided", "helper contract (not demanded by the statement) no longer holds: " + str(v.get("reason", ""))[:200]
        return v
    for o in it.obls:
        out.append(soften(discharge(o.name, o.hyps, o.goal, backends=("z3",), engine="pyvc", timeout_ms=30000, seed=seed)))
    for ei, e in enumerate(ends):
        if e.sig != pyvc.RETURN or not (isinstance(e.val, tuple) and len(e.val) == 2 and all(isinstance(x, SymSet) for x in e.val)):
            out.append(ob(f"{tag}/exit{ei}/returns-two-sets", "undecided", engine="pyvc", reason=f"exit {e.sig}"))
            continue
        t, c = e.val
        out.append(soften(discharge(f"{tag}/exit{ei}/ensures.topology_set_then_coordinate_set_each_exactly_the_listed_files_with_a_parser", e.pc,
                                    z3.And(set_ok(t, TopF, NF), set_ok(c, CoordF, NF)), backends=("z3",), engine="pyvc", timeout_ms=30000, seed=seed)))
        out.append(core.must_fail(f"{tag}/exit{ei}/guard.must-fail", e.pc, z3.BoolVal(False), engine="pyvc", timeout_ms=10000, hint=[NF == 0]))
    return out


def _unsupported(msg):
    raise pyvc.PyvcUnsupported(msg)


def deductive_tasks(prop, tier, seed):
    return [("main/pyvc", task_main, (prop, seed), 600.0),
            ("classify_files/pyvc", task_classify, (prop, seed), 300.0)]
