"""Deductive part of C15: pyvc on the AST of the real gaddlemaps/parsers/_top_parsers.py::_itp_top_atoms.

For an [ atoms ] section of ANY length with arbitrary (unique) atom numbers and any list of bonded pairs that refer to
listed atoms:  the returned atoms are the content lines in file order, and every bond (a, b) given in FILE NUMBERS is
translated to (position of the atom numbered a, position of the atom numbered b), 0-based positions among the atoms.
Ghost: rank(i) = number of content lines before line i;  IdxOf(n) = the line carrying atom number n (Skolem witness of
the precondition "bonds refer to listed atoms").
"""
from __future__ import annotations

import z3

from vf import symrun as S, core, pyvc, seq
from vf.core import ob, discharge
from vf.pyvc import LoopSpec, St, Stub

REL = "gaddlemaps/parsers/_top_parsers.py"
NL, NB = z3.Int("n_atom_lines"), z3.Int("n_bonds")
Content = z3.Function("line_has_content", z3.IntSort(), z3.BoolSort())
Number = z3.Function("atom_number_of_line", z3.IntSort(), z3.IntSort())
NameF = z3.Function("name_id_of_line", z3.IntSort(), z3.IntSort())
ResF = z3.Function("resname_id_of_line", z3.IntSort(), z3.IntSort())
ResidF = z3.Function("resid_of_line", z3.IntSort(), z3.IntSort())
B0 = z3.Function("bond_from_number", z3.IntSort(), z3.IntSort())
B1 = z3.Function("bond_to_number", z3.IntSort(), z3.IntSort())
rank = z3.Function("content_lines_before", z3.IntSort(), z3.IntSort())
IdxOf = z3.Function("line_of_atom_number", z3.IntSort(), z3.IntSort())


def deductive_info():
    return {
        "functions": [f"{REL}::_itp_top_atoms (number -> position translation, any section length)"],
        "stubs": ["pyvc models: the [ atoms ] section as a symbolic sequence of parsed lines (name/resname/resid/number as uninterpreted functions of the line), "
                  "_parse_itp_bonds by contract (a sequence of pairs of file numbers), list/dict as z3 arrays"],
        "assumptions": ["atom numbers in the [ atoms ] section are unique; every bonded pair refers to listed atom numbers (otherwise KeyError is the expected behaviour)"],
        "explanation": ("Deductive: loop invariants on the AST of the real _itp_top_atoms for sections of any length: atoms in file order, bonds translated from file "
                        "numbers to 0-based positions. "),
    }


class Line:
    def __init__(self, i):
        self.i = i
        self.name = S.SymReal(NameF(i))
        self.resname = S.SymReal(ResF(i))
        self.resid = S.SymReal(ResidF(i))
        self.number = S.SymReal(Number(i))

    @property
    def content(self):
        return S.SymBool(Content(self.i))

    def pyvc_copy(self):
        return self


class ItpFileM:
    def pyvc_getitem(self, key, interp, st):
        if key != "atoms":
            raise pyvc.PyvcUnsupported(f"itp_file[{key!r}]")
        return seq.SymSeq("atoms section", NL, lambda i: Line(i))

    def pyvc_copy(self):
        return self


def _inst(k):
    return z3.Implies(k >= 0, rank(k + 1) == rank(k) + z3.If(Content(k), 1, 0))


def _inv1(st: St, k):
    e = st.env
    atoms, mp = pyvc.local(st, "atoms", seq.SymList), pyvc.local(st, "atoms_number", seq.SymDict)
    if atoms is pyvc.UNBOUND or mp is pyvc.UNBOUND or pyvc.local(st, "index") is pyvc.UNBOUND:
        return z3.BoolVal(False)
    i = z3.Int("i!a")
    idx = seq.SymDict._key(e["index"]) if not isinstance(e["index"], int) else z3.IntVal(e["index"])
    return z3.And(k >= 0, k <= NL, idx == rank(k), atoms.length == rank(k), rank(k) >= 0,
                  z3.ForAll([i], z3.Implies(z3.And(i >= 0, i < k, Content(i)),
                                            z3.And(z3.Select(mp.dom, Number(i)), z3.Select(mp.val, Number(i)) == rank(i), rank(i) >= 0, rank(i) < atoms.length,
                                                   z3.Select(atoms.arrays[0], rank(i)) == NameF(i), z3.Select(atoms.arrays[1], rank(i)) == ResF(i),
                                                   z3.Select(atoms.arrays[2], rank(i)) == ResidF(i)))))


def _inv2(st: St, t):
    bonds = pyvc.local(st, "bonds", seq.SymList)
    if bonds is pyvc.UNBOUND:
        return z3.BoolVal(False)
    u = z3.Int("u!b")
    return z3.And(_inv1(st, NL), t >= 0, t <= NB, bonds.length == t,
                  z3.ForAll([u], z3.Implies(z3.And(u >= 0, u < t),
                                            z3.And(z3.Select(bonds.arrays[0], u) == rank(IdxOf(B0(u))), z3.Select(bonds.arrays[1], u) == rank(IdxOf(B1(u)))))))


def task_itp_top_atoms(prop, seed):
    tag = f"{prop}/_itp_top_atoms"

    def parse_bonds(interp, st, args, kw, node):
        if len(args) != 1 or not isinstance(args[0], ItpFileM):
            raise pyvc.PyvcUnsupported("_parse_itp_bonds call shape")
        return seq.SymSeq("bonded pairs", NB, lambda t: (S.SymReal(B0(t)), S.SymReal(B1(t))))

    def start(interp, st, k):
        st.assume(_inst(k))

    loops = {0: LoopSpec(_inv1, name="atoms-loop", on_iteration_start=start), 1: LoopSpec(_inv2, name="bonds-loop")}
    i, j, t = z3.Int("i!p"), z3.Int("j!p"), z3.Int("t!p")
    listed = lambda n: z3.And(IdxOf(n) >= 0, IdxOf(n) < NL, Content(IdxOf(n)), Number(IdxOf(n)) == n)
    pre = [NL >= 0, NB >= 0, rank(0) == 0,
           z3.ForAll([i, j], z3.Implies(z3.And(i >= 0, j >= 0, i < NL, j < NL, i != j, Content(i), Content(j)), Number(i) != Number(j))),
           z3.ForAll([t], z3.Implies(z3.And(t >= 0, t < NB), z3.And(listed(B0(t)), listed(B1(t)))))]
    try:
        it = pyvc.Interp(REL, "_itp_top_atoms", {"_parse_itp_bonds": Stub("_parse_itp_bonds", parse_bonds), "IOError": IOError}, loops, tag)
        it.containers = {
            "atoms": lambda: seq.SymList("atoms", [z3.IntSort()] * 3, lambda c: tuple(S.SymReal(x) for x in c), lambda x: [seq.SymDict._key(v) for v in x]),
            "atoms_number": lambda: seq.SymDict("atoms_number"),
            "bonds": lambda: seq.SymList("bonds", [z3.IntSort()] * 2, lambda c: tuple(S.SymReal(x) for x in c), lambda x: [seq.SymDict._key(v) for v in x]),
        }
        ends = it.run({"itp_file": ItpFileM()}, pre=pre)
    except (pyvc.PyvcUnsupported, S.SymError) as e:
        return [ob(f"{tag}/vc-generation", "undecided", engine="pyvc", reason=f"outside the pyvc subset: {type(e).__name__}: {e}")]
    out = [ob(f"{tag}/vc-generation", "discharged" if it.obls and ends else "undecided", engine="pyvc", backend="ast",
              sample={"obligations": len(it.obls), "exit_paths": len(ends), "source": it.path})]
    cex = {"kind": "vc", "signature": "itp_top_atoms"}
    for o in it.obls:
        v = discharge(o.name, o.hyps, o.goal, backends=("z3",), engine="pyvc", timeout_ms=30000, seed=seed,
                      sample={"goal": core.short(o.goal, 160), "n_hyps": len(o.hyps)})
        if v["status"] == "refuted":
            v["cex"] = dict(cex, obligation=o.name)
        out.append(v)
    u = z3.Int("u!q")
    n_ret = 0
    for ei, e in enumerate(ends):
        if e.sig == pyvc.RAISE:
            v = discharge(f"{tag}/exit{ei}/raises.only_when_the_section_has_no_atom", e.pc, rank(NL) == 0, backends=("z3",), engine="pyvc", timeout_ms=20000)
            if v["status"] == "refuted":
                v["cex"] = dict(cex, signature="spurious-error")
            out.append(v)
            continue
        if e.sig != pyvc.RETURN or not isinstance(e.val, tuple) or len(e.val) != 2 or not all(isinstance(x, seq.SymList) for x in e.val):
            out.append(ob(f"{tag}/exit{ei}/returns_atoms_and_bonds", "refuted", engine="pyvc", cex=dict(cex, signature="return-shape")))
            continue
        n_ret += 1
        atoms, bonds = e.val
        posts = {
            "ensures.atoms_are_the_content_lines_in_file_order":
                z3.And(atoms.length == rank(NL),
                       z3.ForAll([i], z3.Implies(z3.And(i >= 0, i < NL, Content(i)),
                                                 z3.And(rank(i) >= 0, rank(i) < atoms.length, z3.Select(atoms.arrays[0], rank(i)) == NameF(i),
                                                        z3.Select(atoms.arrays[1], rank(i)) == ResF(i), z3.Select(atoms.arrays[2], rank(i)) == ResidF(i))))),
            "ensures.bonds_translated_from_file_numbers_to_0_based_positions":
                z3.And(bonds.length == NB,
                       z3.ForAll([u], z3.Implies(z3.And(u >= 0, u < NB),
                                                 z3.And(z3.Select(bonds.arrays[0], u) == rank(IdxOf(B0(u))), z3.Select(bonds.arrays[1], u) == rank(IdxOf(B1(u))))))),
        }
        for nm, goal in posts.items():
            v = discharge(f"{tag}/exit{ei}/{nm}", e.pc, goal, backends=("z3",), engine="pyvc", timeout_ms=30000)
            if v["status"] == "refuted":
                v["cex"] = dict(cex, signature=nm)
            out.append(v)
        out.append(core.must_fail(f"{tag}/exit{ei}/guard.must-fail", e.pc, bonds.length == 0, engine="pyvc", timeout_ms=10000))
    if not n_ret:
        out.append(ob(f"{tag}/normal-exit-exists", "undecided", engine="pyvc", reason="no normal exit"))
    return out


def deductive_tasks(prop, tier, seed):
    return [("_itp_top_atoms/pyvc", task_itp_top_atoms, (prop, seed), 600.0)]
