"""C08 -- overlap measure (chi2) equals its reference definition for all restraint sets.

Deductive part: symrun on the real gaddlemaps._backend.Chi2Calculator (constructor and call) for every
shape / restraint list up to the bound, coordinates fully symbolic, the calculator built on one mobile
configuration and evaluated on another (fresh symbols).  scipy's cdist is replaced by its contract
(matrix of d_ij >= 0 with d_ij = |a_i - b_j|^2).  The reference definition is written from the statement as a
z3 term (If-min over the squared distances, 1.1^k with k from the nearest-atom relation), independently of the
three code paths.  Ties between equidistant mobile atoms are excluded by precondition (the statement's
"nearest" is then unique).  Structure-bounded (shapes), all real coordinates.
Bounded part: contracts/b08_chi2.py (float inputs up to 40 x 25, all three paths).
"""
from __future__ import annotations

import itertools

import numpy as np
import z3

from vf import symrun as S, core, spec
from vf.core import ob, discharge
from . import _merge, b08_chi2

PROP = "C08"
REL = "gaddlemaps/_backend.py"


def info(prop):
    base = {
        "level": "other",
        "functions": [f"{REL}::Chi2Calculator.__init__", f"{REL}::Chi2Calculator.__call__", f"{REL}::Chi2Calculator.chi2_molecules",
                      f"{REL}::Chi2Calculator._chi2_molecules_with_restrains", f"{REL}::Chi2Calculator._chi2_molecules_only_restrains",
                      f"{REL}::Chi2Calculator._chi2_molecules_restrains_contrib"],
        "stubs": ["gaddlemaps._backend.cdist -> contract stub (fresh d_ij >= 0 with d_ij = squared euclidean distance of row i of the first and row j of the second argument; metric must be 'sqeuclidean')"],
        "trusted_base": ["z3 5.1", "vf/symrun.py", "CPython/numpy executing the real class on object arrays (A2; min/argmin/sum/fancy indexing on dtype=object)"],
        "assumptions": ["A1 float64 as reals; the constant 1.1**k is the float the code computes", "A2 numpy object-dtype transparency (concolic check per structure)",
                        "A3 contract of scipy.spatial.distance.cdist(..., 'sqeuclidean')",
                        "no two mobile atoms are equidistant from an unrestrained fixed atom (ties make 'nearest' ambiguous)",
                        "structure scope: fixed 1..3 x mobile 1..2 and 2x3 (quick), every restraint list of length <= 2; thorough adds 3x3, 4x2 and lists of length 3; arbitrary shapes not proved"],
        "explanation": ("The real Chi2Calculator runs on symbolic coordinates for every shape and restraint list in scope; every feasible path (choice of nearest atoms) is enumerated; "
                        "per path the VC 'value == reference definition' (and value >= 0) is discharged by z3. The reference definition is a z3 term written from the statement. "
                        "Rigid-motion invariance is the lemma |R f + t - (R m + t)|^2 = |f - m|^2 (the definition depends on the squared distances only)."),
        "rule": "deductive: one obligation per (shape, restraint list) covering all its paths; bounded: see helper",
    }
    return _merge.merged_info(base, b08_chi2)


def _B():
    import gaddlemaps._backend as B
    return B


def F_(i):
    return [z3.Real(f"f_{i}_{k}") for k in range(3)]


def ME(j):
    return [z3.Real(f"me_{j}_{k}") for k in range(3)]


def sq(a, b):
    return spec.norm2(spec.sub(a, b))


class CdistStub:
    def __init__(self, c):
        self.c = c
        self.calls = []
        self.defs = []
        self.memo = {}

    def __call__(self, A, Bm, metric="euclidean", *a, **k):
        c = self.c
        if metric != "sqeuclidean" or a or k:
            raise S.SymError(f"cdist metric {metric!r}")
        A = np.asarray(A, dtype=object)
        Bm = np.asarray(Bm, dtype=object)
        D = np.empty((len(A), len(Bm)), dtype=object)
        syms = {}
        for i in range(len(A)):
            for j in range(len(Bm)):
                ta, tb = S.terms(A[i]), S.terms(Bm[j])
                key = tuple(x.sexpr() for x in ta + tb)
                if key in self.memo:          # cdist is a function: the same points give the same distance symbol
                    syms[(i, j)] = self.memo[key]
                    D[i, j] = S.SymReal(self.memo[key][0])
                    continue
                d = c.fresh("sqd")
                self.memo[key] = (d, ta, tb)
                c.assume(d >= 0)
                # the defining equality d == |a_i - b_j|^2 is kept out of the path explorer's hypothesis set (it is
                # nonlinear and no VC below needs it): fewer hypotheses is sound
                self.defs.append(d == sq(ta, tb))
                syms[(i, j)] = (d, ta, tb)
                D[i, j] = S.SymReal(d)
            for j in range(len(Bm)):
                for j2 in range(j):
                    if not syms[(i, j)][0].eq(syms[(i, j2)][0]):
                        c.assume(syms[(i, j)][0] != syms[(i, j2)][0])      # no ties (precondition)
        self.calls.append(syms)
        return D


def reference_value(nf, nm, restr, dsym, rsq=None):
    """the statement's definition as a z3 term.  dsym(i, j): the squared distance |f_i - me_j|^2 of an unrestrained fixed atom
    (symbol or polynomial); rsq(t): squared distance of the t-th restrained pair (default: the polynomial)"""
    restrained_fixed = {i for i, _ in restr}
    restrained_mobile = {j for _, j in restr}
    total = z3.RealVal(0)
    for t_, (i, j) in enumerate(restr):
        total = total + (sq(F_(i), ME(j)) if rsq is None else rsq(t_))
    unres = [i for i in range(nf) if i not in restrained_fixed]
    nearest = {}
    for i in unres:
        m = dsym(i, 0)
        for j in range(1, nm):
            m = z3.If(dsym(i, j) < m, dsym(i, j), m)
        total = total + m
        for j in range(nm):
            nearest[(i, j)] = z3.And(*[dsym(i, j) < dsym(i, j2) for j2 in range(nm) if j2 != j]) if nm > 1 else z3.BoolVal(True)
    k = z3.IntVal(0)
    for j in range(nm):
        covered = z3.Or(z3.BoolVal(j in restrained_mobile), *[nearest[(i, j)] for i in unres])
        k = k + z3.If(covered, 0, 1)
    factor = z3.RealVal(1)
    for kk in range(nm, 0, -1):
        from fractions import Fraction
        fr = Fraction(1.1 ** kk)
        factor = z3.If(k == kk, z3.RealVal(f"{fr.numerator}/{fr.denominator}"), factor)
    return total * factor


def check_structure(nf, nm, restr, fmt="tuples"):
    B = _B()
    sid = f"fixed{nf}x{nm}mobile/restr[" + ",".join(f"{i}-{j}" for i, j in restr) + "]" + ("" if restr or fmt == "tuples" else f"/{fmt}")
    tag = f"{PROP}/Chi2Calculator.__call__"

    def run(c):
        f = S.mat("f", nf)
        mc = S.mat("mc", nm)
        me = S.mat("me", nm)
        stub = CdistStub(c)
        r_arg = None if fmt == "none" else ([tuple(x) for x in restr] if fmt == "tuples" else np.array(restr, dtype=int).reshape(-1, 2))
        before = S.terms(f) + S.terms(me)
        with S.patched(B, cdist=stub):
            calc = B.Chi2Calculator(f, mc, r_arg)
            v = calc(me)
            v2 = calc(me)
        return v, v2, stub, S.terms(f) + S.terms(me), before

    try:
        paths = S.explore(run, max_paths=600, feas_timeout_ms=1500)
    except S.SymError as e:
        return [ob(f"{tag}/symbolic-run/{sid}", "undecided", engine="symrun", reason=str(e))]
    cex0 = {"fn": "chi2", "nf": nf, "nm": nm, "restr": [list(x) for x in restr], "fmt": fmt}
    fails, n_vc = [], 0
    for pi, p_ in enumerate(paths):
        if p_.exc is not None:
            fails.append(ob(f"{tag}/no-exception/{sid}", "refuted", engine="symrun", reason=f"real code raises {p_.exc!r}",
                            cex=dict(cex0, signature="raises")))
            break
        v, v2, stub, after, before = p_.result
        hy = p_.hyps()
        unres = [i for i in range(nf) if i not in {a for a, _ in restr}]
        # the distance matrix the code asked for must be: rows = unrestrained fixed atoms, columns = the EVALUATED mobile atoms
        dmap = {}
        ok_rows = True
        for syms in stub.calls[:1]:
            for (r_, cj), (d, ta, tb) in syms.items():
                fi = [i for i in range(nf) if all(x.eq(y) for x, y in zip(ta, F_(i)))]
                mj = [j for j in range(nm) if all(x.eq(y) for x, y in zip(tb, ME(j)))]
                if len(fi) != 1 or len(mj) != 1:
                    ok_rows = False
                else:
                    dmap[(fi[0], mj[0])] = d
        mapped = not unres or (bool(stub.calls) and ok_rows and all((i, j) in dmap for i in unres for j in range(nm)))
        if not mapped:
            # the code asked for other distances than (unrestrained fixed atoms x evaluated mobile atoms): that is an implementation
            # choice, not a property clause -- fall back to the polynomial form of the squared distances (harder VCs, may be undecided)
            dmap = {(i, j): sq(F_(i), ME(j)) for i in range(nf) for j in range(nm)}
            hy = hy + stub.defs
        refv = reference_value(nf, nm, restr, lambda i, j: dmap[(i, j)])
        cexb = lambda m_: dict(cex0, signature="value", model={k_: v_ for k_, v_ in m_.items() if k_.startswith(("f_", "me_", "mc_"))})
        vt = S.T(v)
        # proof scripting: only the hypotheses over the distance symbols are needed (path conditions, d >= 0, no ties);
        # the defining equalities d_ij = |a_i - b_j|^2 are nonlinear and irrelevant here
        lin = [h for h in hy if all(k_.startswith("sqd!") for k_ in core.free_consts(h))] if mapped else hy
        o = discharge(f"{tag}/ensures.equals_reference_definition/{sid}/path{pi}", lin, vt == refv, backends=("z3",), timeout_ms=10000,
                      cex_builder=cexb, full_hyps=hy)
        n_vc += 1
        if o["status"] != "discharged":
            fails.append(o)
        o = discharge(f"{tag}/ensures.repeated_call_same_value/{sid}/path{pi}", lin, S.T(v2) == vt, backends=("z3",), timeout_ms=5000,
                      cex_builder=cexb, full_hyps=hy)
        n_vc += 1
        if o["status"] != "discharged":
            fails.append(o)
        # non-negativity of the reference definition: restrained squared distances abstracted by ghosts g_t >= 0
        # (each is literally a sum of squares), nearest distances are d >= 0, the factor is a positive constant
        gs = [z3.Real(f"ghost_sq{t}") for t in range(len(restr))]
        refg = reference_value(nf, nm, restr, lambda i, j: dmap[(i, j)], rsq=lambda t_: gs[t_])
        o = discharge(f"{tag}/ensures.nonnegative(reference definition)/{sid}/path{pi}", lin + [g >= 0 for g in gs], refg >= 0,
                      backends=("z3",), timeout_ms=10000, cex_builder=cexb)
        n_vc += 1
        if o["status"] != "discharged":
            fails.append(o)
        o = discharge(f"{tag}/frame.inputs_unmodified/{sid}/path{pi}", hy, z3.And(*[a == b for a, b in zip(after, before)]), backends=("z3",))
        n_vc += 1
        if o["status"] != "discharged":
            fails.append(o)
        used = {nm_ for nm_ in core.free_consts(vt) if nm_.startswith("mc_")}
        n_vc += 1
        if used:
            fails.append(ob(f"{tag}/ensures.depends_only_on_evaluated_configuration/{sid}/path{pi}", "refuted", engine="symrun",
                            backend="free-symbols", reason=f"value mentions construction-time mobile coordinates {sorted(used)[:3]}",
                            cex=dict(cex0, signature="construction-config")))
    if fails:
        return fails
    out = [ob(f"{tag}/ensures.equals_reference_definition/{sid}", "discharged", engine="symrun", backend="z3", evaluations=n_vc, nontrivial=n_vc,
              sample={"fixed": nf, "mobile": nm, "restraints": [list(x) for x in restr], "paths": len(paths), "vcs": n_vc})]
    # guards: a wrong definition (no penalty) must be refutable on some path when a penalty is possible; concolic run
    p0 = paths[0]
    v, v2, stub, after, before = p0.result
    m = core.get_model(p0.hyps() + stub.defs, timeout_ms=5000)
    if m is not None:
        f = np.array([[core.mval(m, x) for x in F_(i)] for i in range(nf)])
        me = np.array([[core.mval(m, x) for x in ME(j)] for j in range(nm)])
        mc = me + 1.0
        r_arg = None if fmt == "none" else [tuple(x) for x in restr]
        nat = float(_B().Chi2Calculator(f, mc, r_arg)(me))
        symv = core.mval(m, S.T(v))
        okc = abs(nat - symv) <= 1e-6 * max(1.0, abs(nat))
        out.append(ob(f"{tag}/guard.concolic/{sid}", "discharged" if okc else "refuted", kind="guard", engine="symrun", backend="native-run",
                      expect="discharged", concolic=1 if okc else 0))
    return out


def structures(tier):
    shapes = [(1, 1), (2, 1), (1, 2), (2, 2), (3, 1), (3, 2), (2, 3)]
    if tier != "quick":
        shapes += [(3, 3), (4, 2), (1, 3)]
    out = []
    for nf, nm in shapes:
        pairs = list(itertools.product(range(nf), range(nm)))
        out.append((nf, nm, (), "none"))
        out.append((nf, nm, (), "tuples"))
        lists = [(p,) for p in pairs] + [(p, q) for p in pairs for q in pairs]
        if tier != "quick" and nf * nm <= 4:
            lists += [(p, q, r) for p in pairs for q in pairs for r in pairs]
        if tier == "quick" and nf * nm >= 6:
            lists = [l for i, l in enumerate(lists) if len(l) == 1 or i % 3 == 0]
        for l in lists:
            out.append((nf, nm, l, "tuples" if len(out) % 4 else "array"))
    return out


def task_part(tier, part, nparts):
    out = []
    for (nf, nm, restr, fmt) in structures(tier)[part::nparts]:
        out += check_structure(nf, nm, restr, fmt)
    return out


def task_lemma(seed):
    R = [[z3.Real(f"R_{i}_{j}") for j in range(3)] for i in range(3)]
    t = [z3.Real(f"t_{k}") for k in range(3)]
    f, m = F_(0), ME(0)
    mv = lambda p: [spec.dot(R[c], p) + t[c] for c in range(3)]
    o = discharge(f"{PROP}/lemma.squared_distance_invariant_under_common_rigid_motion", spec.is_rotation_hyps(R), sq(mv(f), mv(m)) == sq(f, m),
                  backends=("gb", "z3"), engine="symrun", timeout_ms=30000)
    return [o]


def tasks(prop, tier, seed):
    nparts = 16 if tier == "quick" else 48
    t = [(f"symbolic/part{p}", task_part, (tier, p, nparts), 300.0 if tier == "quick" else 1200.0) for p in range(nparts)]
    t.append(("lemma", task_lemma, (seed,), 300.0))
    t += b08_chi2.bounded_tasks(prop, tier, seed)
    return t


def _reference_float(f, me, restr):
    total = sum(float(np.sum((f[i] - me[j]) ** 2)) for i, j in restr)
    rf = {i for i, _ in restr}
    rm = {j for _, j in restr}
    near = set()
    for i in range(len(f)):
        if i in rf:
            continue
        d = [float(np.sum((f[i] - me[j]) ** 2)) for j in range(len(me))]
        total += min(d)
        near.add(int(np.argmin(d)))
    k = len(me) - len(rm | near)
    return total * (1.1 ** k)


def replay(prop, cex):
    if str(cex.get("fn", "")).startswith("b08:"):
        return b08_chi2.replay(prop, cex)
    B = _B()
    nf, nm, restr = cex["nf"], cex["nm"], [tuple(x) for x in cex["restr"]]
    rng = np.random.default_rng(0)
    trials = []
    mod = cex.get("model") or {}
    if mod:
        from vf.backends import model_value
        g = lambda n_: model_value(mod[n_]) if n_ in mod else 0.0
        trials.append((np.array([[g(f"f_{i}_{k}") for k in range(3)] for i in range(nf)]),
                       np.array([[g(f"me_{j}_{k}") for k in range(3)] for j in range(nm)])))
    for _ in range(30):
        trials.append((rng.normal(size=(nf, 3)), rng.normal(size=(nm, 3))))
    for f, me in trials:
        mc = me + rng.normal(size=me.shape)
        try:
            r_arg = None if cex.get("fmt") == "none" else restr
            v = float(B.Chi2Calculator(f, mc, r_arg)(me))
        except Exception as e:
            return {"reproduced": True, "observed": f"raises {type(e).__name__}: {e}", "inputs": cex}
        exp = _reference_float(f, me, restr)
        if abs(v - exp) > 1e-9 * max(1.0, abs(exp)):
            return {"reproduced": True, "observed": v, "expected": exp,
                    "inputs": {"fixed": f.tolist(), "mobile_eval": me.tolist(), "mobile_construct": mc.tolist(), "restraints": cex["restr"]}}
    return {"reproduced": False, "inputs": cex}
