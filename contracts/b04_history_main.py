"""Scratch runner for the helper module b04_history:
VERIF_PROPS_OVERRIDE="C04=contracts.b04_history_main" ./check C04 --tier quick"""
from contracts import b04_history as B


def info(prop):
    d = B.bounded_info()
    d.setdefault("level", "other")
    return d


def tasks(prop, tier, seed):
    return B.bounded_tasks(prop, tier, seed)


def replay(prop, cex):
    return B.replay(prop, cex)
