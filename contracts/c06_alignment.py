"""C06 -- alignment moves molecules only by structure-preserving transformations.

Deductive part (pyvc on the AST of the real gaddlemaps._backend._minimize_molecules, same contract stubs as C09):
loop invariant  BondsOK(held)  -- every tabulated bond of the mobile molecule has its tabulated length -- and,
when single-atom moves are not enabled,  SameShape(held, initial)  -- all pairwise distances as at the start.
The invariant is carried by three facts about the proposal generators, each proved separately at row level:
  T  translation by one vector keeps every difference of rows            (z3, identity)
  R  x -> (x - c) . M + c with M a rotation matrix keeps every |x_i - x_j|   (gb over the orthogonality ideal)
  M  move_mol_atom restores every tabulated bond on acyclic molecules     (contract proved in C07, cited)
and by the contract of rotation_matrix (C17: result is a rotation matrix).
Bounded part: contracts/b06_alignment.py (real Alignment.align_molecules with the real optimiser: roles, frames,
determinism, finiteness, caller objects untouched).
"""
from __future__ import annotations

import z3

from vf import symrun as S, core, pyvc, spec
from vf.core import ob, discharge
from vf.pyvc import LoopSpec, St
from . import _merge, b06_alignment
from . import c09_montecarlo as M9

PROP = "C06"
REL = "gaddlemaps/_backend.py"

BondsOK = z3.Function("bonds_have_tabulated_length", M9.Conf, z3.BoolSort())
SameShape = z3.Function("same_pairwise_distances", M9.Conf, M9.Conf, z3.BoolSort())


def info(prop):
    base = {
        "level": "other",
        "functions": [f"{REL}::_minimize_molecules (shape invariant)", "gaddlemaps/_alignment.py::Alignment.align_molecules",
                      "gaddlemaps/_alignment.py::Alignment.start/end setters"],
        "stubs": ["pyvc contract stubs of C09 (Chi2Calculator, accept_metropolis, move_mol_atom, rotation_matrix, numpy row-wise operations)"],
        "trusted_base": ["z3 5.1", "sympy Groebner (gb)", "vf/pyvc.py"],
        "assumptions": ["A1 float64 as reals (the 1e-9 tolerance of the statement is the room for rounding)",
                        "move_mol_atom restores every tabulated bond on acyclic molecules: contract proved structure-bounded in C07 (trees up to 5/6 atoms), assumed beyond",
                        "rotation_matrix returns a rotation matrix (C17, proved)", "np.random.uniform(-1,1,3) is not the zero vector (A7)",
                        "the bond table handed to the optimiser was computed from the initial mobile configuration (checked by the bounded part on the real align_molecules)"],
        "explanation": ("Loop invariant 'every tabulated bond of the held configuration has its tabulated length' (and 'all pairwise distances as initially' when "
                        "single-atom moves are disabled) on the AST of the real search loop; the proposal generators by their row-level lemmas; VCs are EUF + "
                        "quantified lemma axioms, discharged by z3 for every iteration count and random stream. "),
        "rule": "deductive: one obligation per (clause, path)",
    }
    return _merge.merged_info(base, b06_alignment)


def _axioms(tree=True):
    c, c2, c3 = z3.Consts("ax_c ax_c2 ax_c3", M9.Conf)
    v = z3.Const("ax_v", M9.Vec)
    m = z3.Const("ax_m", M9.Mat)
    r = z3.Int("ax_r")
    ax = [
        z3.ForAll([c], SameShape(c, c)),
        z3.ForAll([c, c2, c3], z3.Implies(z3.And(SameShape(c, c2), SameShape(c2, c3)), SameShape(c, c3))),
        z3.ForAll([c, v], SameShape(M9.ConfAdd(c, v), c)),                                    # lemma T
        z3.ForAll([c, v], SameShape(M9.ConfSub(c, v), c)),                                    # lemma T
        z3.ForAll([c, m], z3.Implies(M9.IsRot(m), SameShape(M9.ConfDot(c, m), c))),           # lemma R
        z3.ForAll([c, c2], z3.Implies(z3.And(BondsOK(c2), SameShape(c, c2)), BondsOK(c))),    # bonds are among the pairwise distances
    ]
    if tree:
        ax.append(z3.ForAll([c, r], BondsOK(M9.MoveF(c, r))))                                 # lemma M (C07), acyclic bond graph
    return ax


def task_lemmas(seed):
    """row-level lemmas behind the axioms"""
    out = []
    a = [z3.Real(f"a{k}") for k in range(3)]
    b = [z3.Real(f"b{k}") for k in range(3)]
    v = [z3.Real(f"v{k}") for k in range(3)]
    cpt = [z3.Real(f"c{k}") for k in range(3)]
    Mx = [[z3.Real(f"M_{i}_{j}") for j in range(3)] for i in range(3)]
    out.append(discharge(f"{PROP}/lemma.T_translation_keeps_row_differences", [],
                         z3.And(*[(a[k] + v[k]) - (b[k] + v[k]) == a[k] - b[k] for k in range(3)]), backends=("z3",), engine="pyvc"))
    # numpy: np.dot(x, M) is the row vector x times M: (xM)_k = sum_m x_m M_mk
    rowdot = lambda x: [sum((x[m_] * Mx[m_][k] for m_ in range(1, 3)), x[0] * Mx[0][k]) for k in range(3)]
    ya = spec.add(rowdot(spec.sub(a, cpt)), cpt)
    yb = spec.add(rowdot(spec.sub(b, cpt)), cpt)
    hy = spec.is_rotation_hyps(Mx)
    out.append(discharge(f"{PROP}/lemma.R_rotation_about_a_point_keeps_pairwise_distances", hy,
                         spec.norm2(spec.sub(ya, yb)) == spec.norm2(spec.sub(a, b)), backends=("gb", "z3"), engine="pyvc", timeout_ms=30000))
    out.append(core.must_fail(f"{PROP}/lemma.R/guard.must-fail", [], spec.norm2(spec.sub(ya, yb)) == spec.norm2(spec.sub(a, b)), engine="pyvc",
                              hint=[Mx[i][j] == (2 if i == j else 0) for i in range(3) for j in range(3)] + [a[0] == 1, b[0] == 0]))
    return out


def _shape_task(with_type2: bool, seed):
    tag = f"{PROP}/_minimize_molecules/" + ("bonds-invariant" if with_type2 else "rigid-invariant(single-atom-moves-disabled)")
    P = M9._params()
    init = P["mol2_positions"].t

    def inv(st: St):
        e = st.env
        if pyvc.local(st, "mol2_positions", M9.SymConf) is pyvc.UNBOUND:
            return z3.BoolVal(False)
        held = e["mol2_positions"].t
        if with_type2:
            return BondsOK(held)
        return z3.And(BondsOK(held), SameShape(held, init))

    def step_post(interp, start, end):
        out = []
        chis = [ev for ev in end.log if ev[0] == "chi2"]
        if chis:
            prop_ = chis[-1][1]
            held = start.env["mol2_positions"].t
            out.append(("proposal_keeps_every_tabulated_bond", BondsOK(prop_)))
            if not with_type2:
                out.append(("proposal_is_a_rigid_motion_of_the_held_configuration", SameShape(prop_, held)))
        return out

    try:
        spec_ = LoopSpec(inv, ghosts=("held", "lowest", "since"), step_post=step_post, name="search-loop")
        it = pyvc.Interp(REL, "_minimize_molecules", M9._model(P), {0: spec_}, tag)
        ghost = {"held": init, "lowest": M9.Chi2F(init), "since": z3.IntVal(0)}
        x = z3.Real("x")
        allowed = z3.Or(x == 0, x == 1, x == 2) if with_type2 else z3.Or(x == 0, x == 1)
        pre = [z3.Int("n_steps") >= 0, z3.ForAll([x], z3.Implies(M9.InSim(x), allowed)), BondsOK(init)] + _axioms(tree=True)
        ends = it.run(dict(P), ghost=ghost, pre=pre)
    except pyvc.PyvcUnsupported as e:
        return [ob(f"{tag}/vc-generation", "undecided", engine="pyvc", reason=f"outside the pyvc subset: {e}")]
    out = [ob(f"{tag}/vc-generation", "discharged" if it.obls else "undecided", engine="pyvc", backend="ast",
              sample={"obligations": len(it.obls), "exit_paths": len(ends)})]
    keep = ("invariant", "step.proposal", "safety", "frame")
    for o in it.obls:
        if not any(k in o.name for k in keep):
            continue        # the bookkeeping obligations belong to C09
        v = discharge(o.name, o.hyps, o.goal, backends=("z3",), engine="pyvc", timeout_ms=20000, seed=seed,
                      sample={"goal": core.short(o.goal, 160), "n_hyps": len(o.hyps)})
        if v["status"] == "refuted":
            v["cex"] = {"fn": "shape", "obligation": o.name, "signature": o.name.split("/")[-1]}
        out.append(v)
    for i, e in enumerate(ends):
        if e.sig != pyvc.RETURN or not isinstance(e.val, M9.SymConf):
            continue
        goal = BondsOK(e.val.t) if with_type2 else z3.And(BondsOK(e.val.t), SameShape(e.val.t, init))
        v = discharge(f"{tag}/exit{i}/ensures.returned_configuration_keeps_" + ("every_tabulated_bond" if with_type2 else "all_pairwise_distances"),
                      e.pc, goal, backends=("z3",), engine="pyvc", timeout_ms=20000)
        if v["status"] == "refuted":
            v["cex"] = {"fn": "shape", "obligation": "exit", "signature": "exit"}
        out.append(v)
        out.append(core.must_fail(f"{tag}/exit{i}/guard.must-fail", e.pc, z3.Not(BondsOK(e.val.t)), engine="pyvc"))
    return out


def task_bonds(seed):
    return _shape_task(True, seed)


def task_rigid(seed):
    return _shape_task(False, seed)


def tasks(prop, tier, seed):
    t = [("lemmas", task_lemmas, (seed,), 300.0), ("shape/bonds", task_bonds, (seed,), 600.0), ("shape/rigid", task_rigid, (seed,), 600.0)]
    t += b06_alignment.bounded_tasks(prop, tier, seed)
    return t


def replay(prop, cex):
    if str(cex.get("fn", "")).startswith("b06:"):
        return b06_alignment.replay(prop, cex)
    # a failed shape obligation: look for a failing run of the real alignment in the bounded scope
    for name, fn, args, _lim in b06_alignment.bounded_tasks(prop, "quick", 0)[:12]:
        try:
            obs = fn(*args)
        except Exception:
            continue
        for o in obs:
            if o.get("status") == "refuted" and o.get("kind") != "guard" and o.get("cex"):
                r = b06_alignment.replay(prop, o["cex"])
                if r and r.get("reproduced"):
                    r["note"] = f"failed obligation {cex.get('obligation')} manifests on the real alignment"
                    return r
    return {"reproduced": False, "inputs": cex, "note": "no failing run of the real alignment found in the bounded scope"}
