"""Scratch runner wrapper for the helper module b10_routing:
VERIF_PROPS_OVERRIDE="C10=contracts.b10_routing_main" ./check C10 --tier quick
"""
from contracts import b10_routing as B


def info(prop):
    d = B.bounded_info()
    d.setdefault("level", "other")
    return d


def tasks(prop, tier, seed):
    return B.bounded_tasks(prop, tier, seed)


def replay(prop, cex):
    return B.replay(prop, cex)
