"""Scratch main module for developing contracts/b08_chi2.py:
VERIF_PROPS_OVERRIDE="C08=contracts.b08_chi2_main" ./check C08 --tier quick
"""
from contracts import b08_chi2 as B


def info(prop):
    d = B.bounded_info()
    d.setdefault("level", "other")
    return d


def tasks(prop, tier, seed):
    return B.bounded_tasks(prop, tier, seed)


def replay(prop, cex):
    return B.replay(prop, cex)
