"""Deductive part of C14: pyvc on the AST of the real acceptance logic of the .gro reader.

GroFile._load_box_matrix   -- returns normally only if the file holds at least one character at offset
                              first_atom_offset + declared_count * line_size   (the place the box line must start)
GroFile._load_and_verify   -- (against that contract) returns normally only if, in addition, the declared count is >= 0,
                              the title line is not empty and the cursor is back on the first atom record
corollary (z3, linear + one product)  -- for a complete file with equal-sized atom lines whose box line starts at
                              B = init + n*size, EVERY prefix of length N <= B is refused, whatever N is (also when the
                              cut falls inside the title, the count line or the first atom line)

The file is modelled by its length N (unknown, any value) and a cursor; readline() returns "" exactly at or beyond N and
otherwise consumes between 1 and N - cursor characters.  What the characters ARE is not modelled: int(), determine_format
and extract_lattice_gro may return or raise as they like (free choice) -- the result therefore holds for every file content.
"""
from __future__ import annotations

import z3

from vf import symrun as S, core, pyvc, seq
from vf.core import ob, discharge
from vf.pyvc import Stub

N = z3.Int("file_length")
POS = "file.pos"


def deductive_info():
    return {
        "functions": ["gaddlemaps/parsers/__init__.py::GroFile._load_box_matrix (acceptance implies the box-line offset lies inside the file; any file length)",
                      "gaddlemaps/parsers/__init__.py::GroFile._load_and_verify (against that contract; declared count >= 0, cursor restored)"],
        "stubs": ["pyvc models: the file as (length N, cursor); readline() = '' iff cursor >= N, else consumes 1..N-cursor characters; tell() = cursor; "
                  "int(), determine_format, extract_lattice_gro: return a free value or raise (free choice); "
                  "seek_atom by the contract proved in C12 (cursor = first_atom_offset + index*line_size, IndexError beyond natoms, ValueError for a negative offset)"],
        "assumptions": ["file offsets are character counts (text mode, '\\n' newlines, ASCII): tell()/seek() arithmetic on them is exact",
                        "corollary: the complete file has equal-sized atom lines (the writer's format; checked on every generated and shipped file by the bounded part)"],
        "explanation": ("Deductive: the reader's acceptance logic is verified on its AST for files of ANY length and content: a normal return implies the file "
                        "extends past the offset where the box line must start; the corollary turns this into 'every truncation that ends before the box line is refused'. "),
    }


class Line:
    """a string returned by readline(): only its length is known"""

    def __init__(self, length):
        self.length = length

    def pyvc_truth(self):
        return S.SymBool(self.length != 0)

    def pyvc_len(self):
        return S.SymReal(self.length)

    def pyvc_copy(self):
        return self


class FileM:
    def pyvc_copy(self):
        return self

    def pyvc_getattr(self, attr, interp, st):
        if attr == "tell":
            return Stub("tell", lambda it, s, a, k, n: S.SymReal(s.ghost[POS]))
        if attr == "readline":
            return Stub("readline", _readline)
        raise pyvc.PyvcUnsupported(f"file attribute .{attr} has no model")


def _readline(interp, st, args, kw, node):
    pos = st.ghost[POS]
    L = interp.fresh("line_len", "int")
    st.assume(z3.If(pos >= N, L == 0, z3.And(L >= 1, L <= N - pos)))
    st.ghost[POS] = pos + L
    st.log.append(("readline", pos, L))
    return Line(L)


def _key(v):
    return v if isinstance(v, z3.ExprRef) else seq.SymDict._key(v)


class SelfM:
    """the reader object: attributes live in the state (ghost 'attr:<name>'), methods are contract stubs"""

    def __init__(self, methods):
        self.methods = methods
        self.file = FileM()

    def pyvc_copy(self):
        return self

    def pyvc_getattr(self, attr, interp, st):
        if attr == "_file":
            return self.file
        if attr in self.methods:
            return self.methods[attr]
        k = f"attr:{attr}"
        if k in st.ghost:
            return st.ghost[k]
        raise pyvc.PyvcUnsupported(f"self.{attr} has no model")

    def pyvc_setattr(self, attr, value, interp, st):
        st.ghost[f"attr:{attr}"] = value


def _free_bool(interp, base):
    interp.n_fresh += 1
    return z3.Bool(f"{base}!{interp.n_fresh}")


def _int_stub(interp, st, args, kw, node):
    if len(args) == 1 and isinstance(args[0], Line):
        interp.may_raise(st, _free_bool(interp, "int_raises"), "ValueError")
        return S.SymReal(interp.fresh("declared_count", "int"))
    return int(*args, **kw)


def _seek_atom_contract(interp, st, args, kw, node):
    """contract of GroFile.seek_atom (its arithmetic is proved in C12/d12): IndexError beyond natoms, ValueError before load or for
    a negative target offset (file.seek), otherwise cursor = first_atom_offset + index * line_size"""
    idx = _key(args[0])
    nat, init, size = st.ghost.get("attr:_natoms"), st.ghost.get("attr:_init_position"), st.ghost.get("attr:_atomline_bytesize")
    if nat is None or init is None or size is None or nat is pyvc.UNBOUND:
        raise pyvc.PyvcUnsupported("seek_atom before the header fields are set")
    nat, init, size = _key(nat), _key(init), _key(size)
    interp.may_raise(st, idx > nat, "IndexError")
    tgt = init + idx * size
    interp.may_raise(st, tgt < 0, "ValueError")
    st.ghost[POS] = tgt
    st.ghost["attr:_current_atom"] = S.SymReal(idx)
    st.log.append(("seek_atom", idx, tgt))
    return None


def _extract_lattice(interp, st, args, kw, node):
    interp.may_raise(st, _free_bool(interp, "box_parse_raises"), "ValueError")
    return "<box matrix>"


def _determine_format(interp, st, args, kw, node):
    interp.may_raise(st, _free_bool(interp, "format_raises"), "*")
    return "<format>"


def _box_offset(st):
    return _key(st.ghost["attr:_init_position"]) + _key(st.ghost["attr:_natoms"]) * _key(st.ghost["attr:_atomline_bytesize"])


def _load_box_matrix_contract(interp, st, args, kw, node):
    """contract of _load_box_matrix as proved by task_load_box_matrix: may raise; a normal return implies N > box offset"""
    interp.may_raise(st, _free_bool(interp, "box_check_raises"), "*")
    st.assume(N > _box_offset(st))
    st.ghost[POS] = interp.fresh("pos_after_box", "int")
    st.ghost["attr:_box_matrix"] = "<box matrix>"
    st.log.append(("load_box_matrix",))
    return None


MAIN = {"accepted_only_if_file_extends_past_the_box_line_offset"}
_EXC = {"IOError": IOError, "ValueError": ValueError, "IndexError": IndexError}


def _finish(tag, it, ends, seed, posts, want_normal=True):
    out = [ob(f"{tag}/vc-generation", "discharged" if ends else "undecided", engine="pyvc", backend="ast",
              sample={"obligations": len(it.obls), "exit_paths": len(ends), "raising_exits": sum(1 for e in ends if e.sig == pyvc.RAISE)})]
    cex = {"kind": "vc", "fn": "d14:vc", "signature": tag.split("/")[-1]}
    for o in it.obls:
        v = discharge(o.name, o.hyps, o.goal, backends=("z3",), engine="pyvc", timeout_ms=30000, seed=seed)
        if v["status"] == "refuted":
            v["cex"] = dict(cex, obligation=o.name)
        out.append(v)
    n_norm = 0
    for ei, e in enumerate(ends):
        if e.sig != pyvc.RETURN:
            continue
        n_norm += 1
        for name, goal in posts(e):
            v = discharge(f"{tag}/exit{ei}/ensures.{name}", e.pc, goal, backends=("z3",), engine="pyvc", timeout_ms=30000, seed=seed)
            if v["status"] == "refuted":
                if name in MAIN:
                    v["cex"] = dict(cex, clause=name)
                else:       # a contract between the reader's own methods, not demanded by the C14 statement: a miss leaves the chain open, nothing more
                    v["status"], v["reason"] = "undecided", "internal contract (not demanded by the statement) no longer holds: " + str(v.get("reason", ""))[:200]
            out.append(v)
        out.append(core.must_fail(f"{tag}/exit{ei}/guard.must-fail", e.pc, z3.BoolVal(False), engine="pyvc", timeout_ms=10000))
    if want_normal and not n_norm:
        out.append(ob(f"{tag}/normal-exit-exists", "undecided", engine="pyvc", reason="no accepting path: the contract would hold vacuously"))
    return out


def task_load_box_matrix(prop, seed):
    tag = f"{prop}/GroFile._load_box_matrix"
    selfm = SelfM({"seek_atom": Stub("seek_atom", _seek_atom_contract), "_readline": Stub("_readline", _readline)})
    INIT, SIZE, NAT = z3.Int("init_position"), z3.Int("atomline_bytesize"), z3.Int("declared_count")
    ghost = {POS: z3.Int("pos0"), "attr:_init_position": S.SymReal(INIT), "attr:_atomline_bytesize": S.SymReal(SIZE),
             "attr:_natoms": S.SymReal(NAT), "attr:_current_atom": S.SymReal(z3.Int("cur0"))}
    try:
        it = pyvc.Interp("gaddlemaps/parsers/__init__.py", "GroFile._load_box_matrix",
                         dict(_EXC, extract_lattice_gro=Stub("extract_lattice_gro", _extract_lattice)), {}, tag)
        ends = it.run({"self": selfm}, ghost=ghost, pre=[N >= 0])
    except (pyvc.PyvcUnsupported, S.SymError) as e:
        return [ob(f"{tag}/vc-generation", "undecided", engine="pyvc", reason=f"outside the pyvc subset: {type(e).__name__}: {e}")]

    def posts(e):
        return [("accepted_only_if_file_extends_past_the_box_line_offset", N > INIT + NAT * SIZE),
                ("box_line_read_at_first_atom_offset_plus_count_times_line_size",
                 z3.And(*[ev[1] == INIT + NAT * SIZE for ev in e.log if ev[0] == "readline"]) if [ev for ev in e.log if ev[0] == "readline"] else z3.BoolVal(False))]
    return _finish(tag, it, ends, seed, posts)


def task_load_and_verify(prop, seed):
    tag = f"{prop}/GroFile._load_and_verify"
    selfm = SelfM({"seek_atom": Stub("seek_atom", _seek_atom_contract), "_readline": Stub("_readline", _readline),
                   "determine_format": Stub("determine_format", _determine_format),
                   "_load_box_matrix": Stub("_load_box_matrix", _load_box_matrix_contract)})
    ghost = {POS: z3.IntVal(0), "attr:_current_atom": S.SymReal(z3.IntVal(0))}
    try:
        it = pyvc.Interp("gaddlemaps/parsers/__init__.py", "GroFile._load_and_verify", dict(_EXC), {}, tag,
                         builtins_model={"int": Stub("int", _int_stub)})
        ends = it.run({"self": selfm}, ghost=ghost, pre=[N >= 0])
    except (pyvc.PyvcUnsupported, S.SymError) as e:
        return [ob(f"{tag}/vc-generation", "undecided", engine="pyvc", reason=f"outside the pyvc subset: {type(e).__name__}: {e}")]

    def posts(e):
        g = e.ghost
        need = ("attr:_init_position", "attr:_natoms", "attr:_atomline_bytesize", "attr:_comment")
        if any(k not in g for k in need):
            return [("header_fields_set", z3.BoolVal(False))]
        init, nat, size = _key(g["attr:_init_position"]), _key(g["attr:_natoms"]), _key(g["attr:_atomline_bytesize"])
        reads = [ev for ev in e.log if ev[0] == "readline"]
        res = [("accepted_only_if_file_extends_past_the_box_line_offset", N > init + nat * size),
               ("accepted_only_with_a_nonnegative_declared_count", nat >= 0),
               ("cursor_back_on_the_first_atom_record", g[POS] == init)]
        if isinstance(g["attr:_comment"], Line):
            res.append(("accepted_only_with_a_nonempty_title_line", g["attr:_comment"].length >= 1))
        if len(reads) >= 3:
            res.append(("first_atom_offset_is_the_end_of_the_count_line", init == reads[2][1]))
            res.append(("line_size_is_the_size_of_the_first_atom_line", size == reads[2][2]))
            res.append(("title_and_count_lines_read_from_offset_0", z3.And(reads[0][1] == 0, reads[1][1] == reads[0][1] + reads[0][2],
                                                                             reads[2][1] == reads[1][1] + reads[1][2])))
        else:
            res.append(("three_header_reads", z3.BoolVal(False)))
        return res
    return _finish(tag, it, ends, seed, posts)


def task_corollary(prop, seed):
    """every prefix of length N <= B of a complete file (title T chars, count line C chars, n atom lines of `size` chars each, box line at
    B = T + C + n*size) is refused -- from the proved postconditions of _load_and_verify and what readline returns on a prefix."""
    tag = f"{prop}/corollary.truncation_before_the_box_line_is_refused"
    T, C, n, size = z3.Ints("title_len count_line_len n_atoms line_size")
    init, nat, sz, L1, L2, L3 = z3.Ints("r_init r_count r_size L1 L2 L3")
    B = T + C + n * size
    complete = [T >= 1, C >= 1, n >= 0, size >= 1, N >= 0, N <= B]
    # what the three reads return on the prefix of length N (readline model: stops at the line end of the complete file or at N)
    reads = [L1 == z3.If(N >= T, T, N), L2 == z3.If(N >= T + C, C, z3.If(N >= T, N - T, 0)),
             L3 == z3.If(n >= 1, z3.If(N >= T + C + size, size, z3.If(N >= T + C, N - T - C, 0)),
                         0 * N + z3.If(N >= T + C, N - T - C, 0)),    # n == 0: the third line would be the box line itself; N <= B = T + C leaves nothing of it
             init == L1 + L2, sz == L3,
             z3.Implies(N >= T + C, nat == n)]        # the count line is intact only then; otherwise int() saw a cut line: any value
    accepted = [N > init + nat * sz, nat >= 0, L1 >= 1]          # the proved postconditions of _load_and_verify
    out = [discharge(f"{tag}/lemma", complete + reads + accepted, z3.BoolVal(False), backends=("z3",), engine="lemma", timeout_ms=30000, seed=seed),
           core.must_fail(f"{tag}/guard.must-fail", complete[:-1] + reads + accepted, z3.BoolVal(False), engine="lemma", timeout_ms=10000)]
    return out


def deductive_tasks(prop, tier, seed):
    return [("GroFile._load_box_matrix/pyvc", task_load_box_matrix, (prop, seed), 300.0),
            ("GroFile._load_and_verify/pyvc", task_load_and_verify, (prop, seed), 300.0),
            ("corollary/z3", task_corollary, (prop, seed), 120.0)]
