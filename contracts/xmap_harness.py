"""Shared harness for the exchange-map properties (C01-C04).

Real Molecule objects are built from generated .itp/.gro files (temp dir,
removed), then given symbolic coordinates through the public
``atoms_positions`` setter.  The real ExchangeMap runs on them under symrun
with its two numeric dependencies replaced by their contracts:

  gaddlemaps._exchage_map.calcule_base -> functional contract stub
      (result = uninterpreted functions CB_rc of the nine input coordinates,
       origin = first point (same array object, as the real code returns it),
       assumes the frame clauses proved for the real function in C17;
       obligation: first and third point differ)
  gaddlemaps._exchage_map.euclidean    -> contract stub (d >= 0, d^2 = sum of squares)
"""
from __future__ import annotations

import contextlib
import io
import os
import shutil
import tempfile

import numpy as np
import z3

from vf import symrun as S, spec

CB = [[z3.Function(f"cb_{r}{c}", *([z3.RealSort()] * 10)) for c in range(3)] for r in range(3)]   # 9 coordinates -> real


def write_molecule_files(d, name, atom_names, edges, coords, resname=None, resids=None, resnames=None, tag=""):
    """own minimal .itp/.gro writers; returns (gro, itp) paths"""
    n = len(atom_names)
    resids = resids or [1] * n
    resnames = resnames or [(resname or name)[:5]] * n
    itp = os.path.join(d, f"{name}{tag}.itp")
    gro = os.path.join(d, f"{name}{tag}.gro")
    with open(itp, "w") as f:
        f.write(f"[ moleculetype ]\n{name} 3\n\n[ atoms ]\n")
        for i in range(n):
            f.write(f"{i + 1} T {resids[i]} {resnames[i]} {atom_names[i]} {i + 1} 0.0 1.0\n")
        f.write("\n[ bonds ]\n")
        for (a, b) in edges:
            f.write(f"{a + 1} {b + 1} 1\n")
    with open(gro, "w") as f:
        f.write(f"{name}\n{n:5d}\n")
        for i in range(n):
            x, y, z = coords[i]
            f.write(f"{resids[i]:5d}{resnames[i]:<5s}{atom_names[i]:>5s}{i + 1:5d}{x:8.3f}{y:8.3f}{z:8.3f}\n")
        f.write("   9.00000   9.00000   9.00000\n")
    return gro, itp


def build_molecule(name, atom_names, edges, coords, **kw):
    from gaddlemaps.components import Molecule
    d = tempfile.mkdtemp(prefix="xmap_")
    try:
        gro, itp = write_molecule_files(d, name, atom_names, edges, coords, **kw)
        with contextlib.redirect_stdout(io.StringIO()):
            mol = Molecule.from_files(gro, itp)
    finally:
        shutil.rmtree(d, ignore_errors=True)
    return mol


def default_coords(n, seed=0):
    rng = np.random.default_rng(100 + seed)
    return np.round(rng.uniform(0.1, 3.0, size=(n, 3)), 3)


# atom names of the reference: hydrogens and heavy atoms mixed, hydrogens also at low indices (the frame neighbours must be
# chosen by index, not by element or name)
REF_NAMES = ["H1", "C2", "H3", "N4", "O5", "H6", "C7", "H8", "C9"]


def ref_molecule(n, edges, seed=0):
    return build_molecule("REF", [REF_NAMES[i % len(REF_NAMES)] if i < len(REF_NAMES) else f"C{i + 1}" for i in range(n)], edges, default_coords(n, seed))


def tgt_molecule(m, seed=1):
    return build_molecule("TGT", [f"N{i + 1}" for i in range(m)], [(i, i + 1) for i in range(m - 1)],
                          default_coords(m, seed))


def set_symbolic_positions(mol, base):
    arr = S.mat(base, len(mol))
    mol.atoms_positions = arr
    return [[z3.Real(f"{base}_{i}_{k}") for k in range(3)] for i in range(len(mol))]


def cb_apply(tag, pts9):
    return [[CB[r][c](*pts9) for c in range(3)] for r in range(3)]


def frame_hyps(F, pts9=None):
    """the clauses of the calcule_base contract (C17) that callers rely on: right-handed orthonormal rows"""
    hy = []
    I = spec.ident()
    for i in range(3):
        for j in range(i, 3):
            hy.append(spec.dot(F[i], F[j]) == I[i][j])
    cr = spec.cross(F[0], F[1])
    hy += [cr[k] == F[2][k] for k in range(3)]
    return hy


def columns_orthonormal(F):
    Ft = spec.transpose(F)
    I = spec.ident()
    return [spec.dot(Ft[i], Ft[j]) == I[i][j] for i in range(3) for j in range(i, 3)]


class Stubs:
    """installs the contract stubs into gaddlemaps._exchage_map for one symbolic run"""

    def __init__(self, c: S.Ctx, cb_tag=0, with_first_row_clause=True, assume_columns=True):
        self.c = c
        self.cb_calls = []       # (pts9 terms, F rows terms, pos0 array)
        self.cb_norms = []       # |third - first point| symbol of each call (first-row clause)
        self.euclid = []         # (a terms, b terms, d symbol)
        self.rands = []
        self.cb_tag = cb_tag
        self.with_first_row = with_first_row_clause
        self.assume_columns = assume_columns

    def calcule_base(self, pos):
        c = self.c
        if len(pos) != 3:
            raise S.SymError(f"calcule_base called with {len(pos)} points")
        p0, p1, p2 = pos
        pts9 = S.terms(p0) + S.terms(p1) + S.terms(p2)
        # requires: first and third point differ
        c.oblige("calcule_base.requires(first != third point)", z3.Or(*[pts9[k] != pts9[6 + k] for k in range(3)]))
        F = cb_apply(self.cb_tag, pts9)
        for h in frame_hyps(F):
            c.assume(h)
        if self.assume_columns:
            # consequence of row-orthonormality (lemma 'rows orthonormal => columns orthonormal', proved once per run)
            for h in columns_orthonormal(F):
                c.assume(h)
        r = None
        if self.with_first_row:
            # v1 is the unit vector from the first to the third point:  v1 * |d| = d  with |d| > 0
            d = [pts9[6 + k] - pts9[k] for k in range(3)]
            r = c.fresh("cbnorm")
            c.assume(r > 0)
            c.assume(r * r == spec.norm2(d))
            for k in range(3):
                c.assume(F[0][k] * r == d[k])
        self.cb_norms.append(r)
        self.cb_calls.append((pts9, F, p0))
        rows = []
        for r_ in range(3):
            a = np.empty(3, dtype=object)
            for k in range(3):
                a[k] = S.SymReal(F[r_][k])
            rows.append(a)
        return tuple(rows), p0

    def rand(self, *shape):
        """numpy.random.rand by contract: independent values in [0, 1); A7: not all zero (measure-zero event)"""
        c = self.c
        if len(shape) != 1:
            raise S.SymError("np.random.rand shape")
        v = np.empty(shape[0], dtype=object)
        ts = []
        for i in range(shape[0]):
            u = c.fresh("rand")
            c.assume(u >= 0)
            c.assume(u < 1)
            ts.append(u)
            v[i] = S.SymReal(u)
        c.assume(z3.Or(*[u != 0 for u in ts]))
        self.rands.append(ts)
        return v

    def euclidean(self, a, b):
        c = self.c
        ta, tb = S.terms(a), S.terms(b)
        d = c.fresh("dist")
        c.assume(d >= 0)
        c.assume(d * d == spec.norm2(spec.sub(ta, tb)))
        self.euclid.append((ta, tb, d))
        return S.SymReal(d)

    @contextlib.contextmanager
    def installed(self):
        import gaddlemaps._exchage_map as X
        class _R:
            rand = staticmethod(self.rand)

            def __getattr__(self_, n):
                raise S.SymError(f"np.random.{n} not modelled")
        with S.patched(X, calcule_base=self.calcule_base, euclidean=self.euclidean, np=S.NumpyFacade(extra={"random": _R()})):
            yield


def degree2(n, edges):
    deg = [0] * n
    for a, b in edges:
        deg[a] += 1
        deg[b] += 1
    return [i for i in range(n) if deg[i] >= 2]


def neighbours(n, edges):
    nb = {i: set() for i in range(n)}
    for a, b in edges:
        nb[a].add(b)
        nb[b].add(a)
    return nb


def all_graphs_with_anchor(n):
    """every labelled graph on n nodes with at least one node of degree >= 2 (edge lists)"""
    import itertools
    pairs = list(itertools.combinations(range(n), 2))
    for k in range(2, len(pairs) + 1):
        for es in itertools.combinations(pairs, k):
            if degree2(n, es):
                yield list(es)
