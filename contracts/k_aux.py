"""Contracts of gaddlemaps/_auxilliary.py (rotation_matrix, calcule_base).

Clauses are written once over "numbers" (z3 terms or floats), see vf/spec.py.
The postconditions are transcribed from property C17:

  rotation_matrix(axis, theta), axis != 0:
     orthogonal, det +1, leaves the axis fixed, trace 1+2cos(theta),
     R(-theta) = R(theta)^T, R(a)R(b) = R(a+b), independent of |axis|,
     inputs not modified.
  calcule_base([p0, p1, p2]), p0 != p2:
     right-handed orthonormal triple (v1, v2, v3); v1 points from p0 to p2;
     v3 normal to the plane of the points; origin = p0; inputs not modified;
     exactly collinear points in any direction included.

"Normal to the plane" is read at float level: |v3 . unit(p1-p0)| <= NORMAL_TOL,
and for clearly non-collinear triples (sin of the angle at p0 > GENERIC_SIN)
v3 is *exactly* the unit vector along (p2-p0) x (p1-p0).  The second clause
pins the frame down as a function of the points (needed by C01-C03).
"""
from vf.spec import (Clause, eqs, dot, cross, sub, norm2, matmul, transpose, det3, trace,
                     ident, flat, matvec)

NORMAL_TOL = 1e-6      # |v3 . e| <= NORMAL_TOL * |e|
GENERIC_SIN = 1e-6     # |d x e| > GENERIC_SIN * |d| * |e|  =>  v3 = unit(d x e) exactly

Q_NORMAL_TOL2 = "1/1000000000000"     # NORMAL_TOL**2 as an exact rational
Q_GENERIC_SIN2 = "1/1000000000000"


def _sq(symbolic, text, value):
    if symbolic:
        import z3
        return z3.RealVal(text)
    return value


def calcule_base_post(p0, p1, p2, v1, v2, v3, origin, p0_after, p1_after, p2_after, symbolic):
    d = sub(p2, p0)
    e = sub(p1, p0)
    dxe = cross(d, e)
    cl = [
        Clause("unit_v1", "eq", norm2(v1), 1),
        Clause("unit_v2", "eq", norm2(v2), 1),
        Clause("unit_v3", "eq", norm2(v3), 1),
        Clause("orth_v1v2", "eq", dot(v1, v2), 0),
        Clause("orth_v1v3", "eq", dot(v1, v3), 0),
        Clause("orth_v2v3", "eq", dot(v2, v3), 0),
    ]
    cl += eqs("right_handed", cross(v1, v2), v3)
    cl += eqs("v1_parallel_p0p2", cross(v1, d), [0, 0, 0])
    cl.append(Clause("v1_points_to_p2", "gt", dot(v1, d), 0))
    cl.append(Clause("v3_normal_p0p2", "eq", dot(v3, d), 0))
    # |v3.e|^2 <= tol^2 |e|^2
    cl.append(Clause("v3_normal_p0p1", "le", dot(v3, e) * dot(v3, e),
                     _sq(symbolic, Q_NORMAL_TOL2, NORMAL_TOL ** 2) * norm2(e)))
    cl += eqs("origin_is_p0", origin, p0)
    cl += eqs("unmodified_p0", p0_after, p0)
    cl += eqs("unmodified_p1", p1_after, p1)
    cl += eqs("unmodified_p2", p2_after, p2)
    return cl


def calcule_base_generic(p0, p1, p2, v3, symbolic):
    """(guard, clauses): for clearly non-collinear points v3 is the unit vector
    along (p2-p0) x (p1-p0)."""
    d = sub(p2, p0)
    e = sub(p1, p0)
    dxe = cross(d, e)
    g2 = _sq(symbolic, Q_GENERIC_SIN2, GENERIC_SIN ** 2)
    guard = Clause("clearly_noncollinear", "gt", norm2(dxe), g2 * norm2(d) * norm2(e))
    cl = eqs("generic_v3_parallel", cross(v3, dxe), [0, 0, 0])
    cl.append(Clause("generic_v3_direction", "gt", dot(v3, dxe), 0))
    return guard, cl


def rotation_matrix_post(axis, R, c, s, axis_after, symbolic):
    """R: 3x3 nested list; c, s: cos(theta), sin(theta) as numbers."""
    cl = []
    cl += eqs("orthogonal", flat(matmul(transpose(R), R)), flat(ident()))
    cl.append(Clause("det_plus_one", "eq", det3(R), 1))
    cl += eqs("axis_fixed", matvec(R, axis), axis)
    cl.append(Clause("trace", "eq", trace(R), 1 + 2 * c))
    cl += eqs("unmodified_axis", axis_after, axis)
    return cl
