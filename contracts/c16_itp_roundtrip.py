"""C16 -- ItpFile read-write-read loses no section, line or comment.

Engine: smallscope.  Bounded run-time contract checks on the real
gaddlemaps.parsers._itp_parse.ItpLine (parse_itp_line + .line), ItpSection,
ItpFile.__init__/write and on read_topology.

The oracle for "what a topology file contains" is the minimal reference reading
below (`ref_line`, `ref_file`), applied to the *generated text*: a section
header is a line "[ name ]"; '#' in column 0 starts a preprocessor line; the
first ';' starts a comment; everything before it is content (white-space
separated tokens); sections with the same name are one section, in order of
first appearance.  It never looks at an object produced by the code under
check, so anything the first ItpFile parse drops is seen.
"""
from __future__ import annotations

import contextlib
import io
import itertools
import os
import re
import shutil
import tempfile
import time

from vf.core import ob

PROP = "C16"
F_LINE = "ItpLine.parse_itp_line+line"
F_FILE = "ItpFile.__init__+write"


def _info_bounded(prop):
    return {
        "level": "other",
        "functions": ["gaddlemaps/parsers/_itp_parse.py::ItpLine.parse_itp_line",
                      "gaddlemaps/parsers/_itp_parse.py::ItpLine.line",
                      "gaddlemaps/parsers/_itp_parse.py::ItpSection.append",
                      "gaddlemaps/parsers/_itp_parse.py::ItpSection.__str__",
                      "gaddlemaps/parsers/_itp_parse.py::ItpFile.__init__",
                      "gaddlemaps/parsers/_itp_parse.py::ItpFile.write",
                      "gaddlemaps/parsers/_top_parsers.py::read_topology"],
        "stubs": [],
        "trusted_base": ["CPython 3.12 text I/O (universal newlines)", "the reference reading ref_line/ref_file of this module (40 lines)",
                         "vf/pool.py, vf/runner.py"],
        "assumptions": ["a trailing comment on a section header line ('[ moleculetype ] ; text', once in vitamin_E_CG.itp) is not a comment *line* of the statement and is not compared",
                        "blank lines carry no information: they are not compared; a comment line with empty text (';') counts as blank",
                        "comment and preprocessor text is compared modulo white space (no layout is fixed by the statement); content token by token",
                        "a mismatch on an isolated ItpLine is a violation only when the round trip of a file containing that line (followed by another line, and as last line) violates the file contract; otherwise it is reported as undecided (informational)",
                        "lines with blanks before '#' are evaluated but never refuted (the statement does not fix their kind); harness observation problems (renamed public attribute, no 'header' entry) are undecided",
                        "read_topology results are compared with bonds as a multiset of unordered pairs",
                        "'#' starts a preprocessor line only in column 0 (the reading the library itself documents)"],
        "explanation": ("Bounded run-time contract checks (no deductive obligation: regular expressions and split/join chains). "
                        "Line level: every string over {'a',' ',';','#'} with an optional final newline up to length 6 (quick) / 7 (thorough; "
                        "plus the alphabet with '[' and ']' up to length 6) that is not a section header, completely enumerated. "
                        "File level: every file of <= 4 (quick) / <= 5 (thorough; <= 6 for the generic family without prefix) lines drawn from 10 line kinds "
                        "(three section headers that may repeat, content, content+comment, content+empty comment, content+two comments, "
                        "comment-only, blank, preprocessor) for three families of section names (generic, typed atoms/bonds/moleculetype, mixed), "
                        "each without prefix, with header text before the first section, without final newline, and (typed) after a "
                        "moleculetype+atoms prefix so that read_topology applies; a separate family has comment texts that begin with '#'. Another has comment lines and trailing comments that contain, in the middle of the comment text, each of the characters that "
                        "str.splitlines treats as a line boundary but a topology file does not (VT, FF, U+001C-1E, U+0085, U+2028, U+2029; <= 3 / 4 lines, "
                        "generic and typed sections). "
                        "All 16 shipped topologies. Expected values come from the reference reading of the generated text."),
        "rule": ("one evaluation = one clause on one enumerated line or file; scopes are enumerated completely in order of size; "
                 "distinct = distinct texts, non-trivial = the reference reading has at least one non-blank line (line level: is not blank)"),
        "exhaustive": True,
    }


# ---------------------------------------------------------------------------
# reference reading (independent of the code under check)

_HDR = re.compile(r"^\[([^\]]*)\]")


def is_header(raw):
    return _HDR.match(raw.strip()) is not None


def split_lines(text, keepends=True):
    """Lines of a topology file are separated by "\\n" only (text mode turns \\r\\n and \\r into \\n before).
    Not str.splitlines, which also breaks at form feed, vertical tab, \\x1c-\\x1e, \\x85, U+2028, U+2029."""
    parts = text.split("\n")
    lines = [p + "\n" for p in parts[:-1]] + ([parts[-1]] if parts[-1] else [])
    return lines if keepends else [l[:-1] if l.endswith("\n") else l for l in lines]


def norm(text):
    """comment / preprocessor text modulo white space (the statement fixes no layout)"""
    return " ".join(str(text).split())


def ref_line(raw):
    """('blank',) | ('pp', text) | ('comment', text) | ('content', tokens, comment_text)"""
    body = raw.rstrip("\n")
    if not body.strip():
        return ("blank",)
    if body.startswith("#"):
        return ("pp", norm(body))
    head, _, tail = body.partition(";")
    toks = head.split()
    text = norm(tail)
    if toks:
        return ("content", toks, text)
    if text:
        return ("comment", text)
    return ("blank",)


def ref_file(text):
    header, order, sections = [], [], {}
    cur = None
    for raw in split_lines(text):
        if is_header(raw):
            cur = _HDR.match(raw.strip()).group(1).strip()
            if cur not in sections:
                sections[cur] = []
                order.append(cur)
            continue
        if cur is None:
            if raw.strip():
                header.append(norm(raw))
            continue
        rec = ref_line(raw)
        if rec[0] != "blank":
            sections[cur].append(rec)
    return {"header": header, "order": order, "sections": sections}


def hash_comment(rec):
    return (rec[0] == "comment" and rec[1].startswith("#")) or (rec[0] == "content" and rec[2].startswith("#"))


def text_signature(text):
    """stable classification of an input (for known findings)"""
    feats = []
    names = [_HDR.match(l.strip()).group(1).strip() for l in split_lines(text, False) if is_header(l)]
    if len(names) != len(set(names)):
        feats.append("repeated-section")
    recs = [ref_line(l) for l in split_lines(text) if not is_header(l)]
    if any(hash_comment(r) for r in recs):
        feats.append("comment-text-starts-with-#")
    for l in split_lines(text, False):
        if not is_header(l) and not l.startswith("#") and ";" in l:
            head, _, tail = l.partition(";")
            if head.split() and not tail.strip():
                feats.append("empty-trailing-comment")
                break
    return "+".join(feats) or "generic"


# ---------------------------------------------------------------------------
# line level


def _itp():
    import gaddlemaps.parsers._itp_parse as m
    return m


def real_render(s):
    return _itp().ItpLine(s).line


L_CLAUSES = ["ensures.no_exception", "ensures.parse_matches_reference_reading", "ensures.roundtrip_same_content_tokens",
             "ensures.roundtrip_same_comment_text", "ensures.roundtrip_same_reference_reading",
             "ensures.terminated_line_stays_terminated", "ensures.idempotent_from_second_round"]


def check_line(s, render=None):
    """Evaluates the line contract on the real ItpLine; returns {clause: message} of the failed clauses."""
    ItpLine = _itp().ItpLine
    render = render or real_render
    bad = {}
    ref = ref_line(s)
    try:
        l1 = ItpLine(s)
        c1, m1 = l1.content.split(), norm(l1.comment)
        L = render(s)
        l2 = ItpLine(L)
        c2, m2 = l2.content.split(), norm(l2.comment)
        L2 = l2.line
        L3 = ItpLine(L2).line
    except Exception as e:  # the property demands a result for every non-header line
        return {"ensures.no_exception": f"raises {type(e).__name__}: {e}"}
    rtoks = ref[1] if ref[0] == "content" else []
    rtext = {"blank": "", "pp": None, "comment": None, "content": None}[ref[0]]
    if ref[0] in ("pp", "comment"):
        rtext = ref[1]
    elif ref[0] == "content":
        rtext = ref[2]
    if c1 != rtoks or m1 != rtext:
        bad["ensures.parse_matches_reference_reading"] = f"ItpLine({s!r}) content tokens {c1} comment {m1!r}; file says tokens {rtoks} comment {rtext!r}"
    if c2 != c1:
        bad["ensures.roundtrip_same_content_tokens"] = f"ItpLine({s!r}).line = {L!r} re-read has content tokens {c2}, before {c1}"
    if m2 != m1:
        bad["ensures.roundtrip_same_comment_text"] = f"ItpLine({s!r}).line = {L!r} re-read has comment {m2!r}, before {m1!r}"
    ref2 = ref_line(L)
    if ref2 != ref:
        bad["ensures.roundtrip_same_reference_reading"] = f"ItpLine({s!r}).line = {L!r} reads as {ref2}, the input as {ref}"
    if s.endswith("\n") and ref[0] != "blank" and not (L.endswith("\n") and L.count("\n") == 1):
        bad["ensures.terminated_line_stays_terminated"] = f"ItpLine({s!r}).line = {L!r} is not one terminated line"
    if not (ref_line(L2) == ref_line(L) and ref_line(L3) == ref_line(L2)):
        bad["ensures.idempotent_from_second_round"] = f"ItpLine({s!r}): rounds {L!r} -> {L2!r} -> {L3!r} do not read the same"
    return bad


def line_family(s):
    if s.lstrip().startswith("#") and not s.startswith("#"):
        # blanks before '#': the statement does not say whether this is a preprocessor line or content;
        # evaluated, but a mismatch is never a refutation
        return "blank-before-#"
    return "comment-text-starts-with-#" if hash_comment(ref_line(s)) else "plain"


SENTINEL = "9 8 7 ; tail"


def line_in_files(s):
    """the line as part of a topology file: followed by another line (so that glued lines show), and as last line"""
    texts = ["[ angles ]\n" + (s if s.endswith("\n") else s + "\n") + SENTINEL + "\n"]
    if not s.endswith("\n"):
        texts.append("[ angles ]\n" + SENTINEL + "\n" + s)
    return texts


def confirm_line(s, tmp):
    """The statement speaks about files.  A mismatch seen on an isolated ItpLine counts as a violation only
    if the file round trip of a file containing the line violates the file contract.
    Returns (True, text, messages) | (False, None, {})"""
    for text in line_in_files(s):
        bad, _ = check_file(text, tmp, topology=False)
        hard = {k: v for k, v in bad.items() if not k.startswith("soft:")}
        if hard:
            return True, text, hard
    return False, None, {}


def enum_lines(alphabet, maxlen):
    """all strings over the alphabet with an optional final newline, total length <= maxlen, shortest first"""
    for n in range(0, maxlen + 1):
        for tup in itertools.product(alphabet, repeat=n):
            body = "".join(tup)
            yield body
            if n + 1 <= maxlen:
                yield body + "\n"


def _line_admissible(s):
    # not a section header for ItpLine (unstripped match) nor for ItpFile (stripped match)
    return not (re.match(r"\[.*\]", s) or re.match(r"\[.*\]", s.strip()))


def run_lines(alphabet, maxlen, tag, render=None):
    tmp = _mkdtemp()
    try:
        return _run_lines(alphabet, maxlen, tag, render, tmp)
    finally:
        shutil.rmtree(tmp, ignore_errors=True)


def _run_lines(alphabet, maxlen, tag, render, tmp):
    per = {}   # (family, clause) -> [evals, mismatches, first confirmed (s, msg, file), first unconfirmed (s, msg)]
    distinct = {}
    nontriv = {}
    sample = {}
    for s in enum_lines(alphabet, maxlen):
        if not _line_admissible(s):
            continue
        fam = line_family(s)
        distinct[fam] = distinct.get(fam, 0) + 1
        if ref_line(s)[0] != "blank":
            nontriv[fam] = nontriv.get(fam, 0) + 1
            if fam not in sample and len(s) >= 4:
                sample[fam] = s
        bad = check_line(s, render)
        conf = None
        if bad and fam != "blank-before-#" and render is None:
            conf = confirm_line(s, tmp)
        for cl in L_CLAUSES:
            rec = per.setdefault((fam, cl), [0, 0, None, None])
            rec[0] += 1
            if cl in bad:
                rec[1] += 1
                if conf is not None and conf[0]:
                    if rec[2] is None:
                        rec[2] = (s, bad[cl], conf[1], conf[2])
                elif rec[3] is None:
                    rec[3] = (s, bad[cl])
    out = []
    for (fam, cl), (n, nbad, first, soft) in sorted(per.items()):
        oid = f"{PROP}/{F_LINE}/{cl}/{tag}/{fam}"
        if first is not None:
            s, msg, ftext, fbad = first
            fmsg = "; ".join(f"{k.split('.', 1)[1]}: {v}" for k, v in list(fbad.items())[:2])
            out.append(ob(oid, "refuted", kind="bounded", engine="smallscope", backend="runtime-contract",
                          evaluations=n, nontrivial=nontriv.get(fam, 0),
                          reason=f"{nbad}/{n} lines mismatch; first confirmed by a file round trip: {msg}; file {ftext!r}: {fmsg}",
                          cex={"level": "line", "line": s, "clause": cl, "file": ftext, "signature": text_signature(s)},
                          sample={"line": s}))
        elif soft is not None:
            s, msg = soft
            out.append(ob(oid, "undecided", kind="bounded", engine="smallscope", backend="runtime-contract",
                          evaluations=n, nontrivial=nontriv.get(fam, 0),
                          reason=(f"informational: {nbad}/{n} isolated ItpLine evaluations mismatch but the file round trip of a file "
                                  f"containing the line holds (or the line kind is not fixed by the statement); first: {msg}"),
                          sample={"line": s}))
        else:
            out.append(ob(oid, "discharged", kind="bounded", engine="smallscope", backend="runtime-contract",
                          evaluations=n, nontrivial=nontriv.get(fam, 0),
                          sample={"line": sample.get(fam), "written": (real_render(sample[fam]) if fam in sample else None)}))
    return out


def task_lines(tag, alphabet, maxlen, seed):
    return run_lines(alphabet, maxlen, tag)


# ---------------------------------------------------------------------------
# file level

KINDS = ["H1", "H2", "H3", "content", "content+comment", "content+empty-comment", "content+two-comments",
         "comment-only", "blank", "preprocessor"]

FAMILIES = {
    "generic": ("dihedrals", "angles", "exclusions"),
    "typed": ("atoms", "bonds", "moleculetype"),
    "mixed": ("pairs", "angles", "moleculetype"),
}

PREFIXES = {
    "none": [],
    "header-text": ["; title line", '#include "ff.itp"', "", "free header text ; with comment"],
    "topology": ["[ moleculetype ]", "; name nrexcl", "MOL 3", "[ atoms ]",
                 "1 C 1 RES C1 1 0.0 12.0", "  2 C 1 RES C2 2 0.0 12.0 ; second atom"],
}


def content_text(section, i):
    if section is None:
        return f"hdr{i} text"
    if section == "atoms":
        return f"{10 + i} C 1 RES C{i} {10 + i} 0.0 12.0"
    if section in ("bonds", "constraints", "pairs"):
        return f"{1 + i % 2} {2 - i % 2} 1 0.{i + 1}"
    if section == "moleculetype":
        return f"MOL{i} 3"
    return f"{i + 1} {i + 2} {i + 3} 1"


def render_file(names, prefix, seq, final_newline=True, hash_variant=False):
    lines = list(PREFIXES[prefix])
    cur = None
    for l in lines:
        if is_header(l):
            cur = _HDR.match(l.strip()).group(1).strip()
    for i, k in enumerate(seq):
        kind = KINDS[k] if not hash_variant else HASH_KINDS[k]
        if kind in ("H1", "H2", "H3"):
            cur = names[int(kind[1]) - 1]
            lines.append(f"[ {cur} ]")
        elif kind == "content":
            lines.append("  " + content_text(cur, i))
        elif kind == "content+comment":
            lines.append(content_text(cur, i) + f" ; note{i}")
        elif kind == "content+empty-comment":
            lines.append(content_text(cur, i) + " ;")
        elif kind == "content+two-comments":
            lines.append(content_text(cur, i) + f" ; note{i} ; more{i}")
        elif kind == "comment-only":
            lines.append(f"; remark{i}")
        elif kind == "blank":
            lines.append("")
        elif kind == "preprocessor":
            lines.append(f"#ifdef X{i}")
        elif kind == "content+#comment":
            lines.append(content_text(cur, i) + f" ; #{i}")
        elif kind == "content+#comment-tight":
            lines.append(content_text(cur, i) + f";#{i}")
        elif kind == "comment-only-#":
            lines.append(f"; #define OFF{i}")
        elif kind == "comment-only-#-tight":
            lines.append(f";#include \"x{i}.itp\"")
        else:
            raise ValueError(kind)
    text = "".join(l + "\n" for l in lines)
    if not final_newline and text.endswith("\n"):
        text = text[:-1]
    return text


HASH_KINDS = ["H1", "H2", "content", "content+#comment", "content+#comment-tight", "comment-only-#", "comment-only-#-tight"]

F_CLAUSES = ["ensures.no_exception", "ensures.section_names_in_order_of_first_appearance",
             "ensures.content_lines_token_by_token", "ensures.comment_and_preprocessor_lines_in_position",
             "ensures.header_lines_preserved", "ensures.second_write_stable", "ensures.read_topology_equal"]


def observe(itp):
    """what a parsed ItpFile holds, in the vocabulary of the reference reading"""
    keys = list(itp.keys())
    obs = {"header": [norm(l) for l in itp["header"] if str(l).strip()] if "header" in itp else None,
           "order": [k for k in keys if k != "header"],
           "sections": {}, "content": {}}
    for name in obs["order"]:
        sec = itp[name]
        recs = []
        for l in sec.lines:
            toks, cm = l.content.split(), norm(l.comment)
            if toks:
                recs.append(("content", toks, cm))
            elif cm:
                # ItpLine has no public "kind": a line without content is a preprocessor line
                # when the object renders (str) as one, otherwise a comment line
                recs.append(("pp", cm) if ref_line(str(l))[0] == "pp" else ("comment", cm))
        obs["sections"][name] = recs
        obs["content"][name] = [l.content.split() for l in sec]
    return obs


def _first_diff(a, b):
    for i, (x, y) in enumerate(zip(a, b)):
        if x != y:
            return f"item {i}: re-read {x} expected {y}"
    if len(a) != len(b):
        longer, who = (a, "re-read has extra") if len(a) > len(b) else (b, "re-read lacks")
        return f"{who} item {min(len(a), len(b))}: {longer[min(len(a), len(b))]} ({len(a)} vs {len(b)} expected)"
    return ""


def compare(exp, obs):
    bad = {}
    if obs["order"] != exp["order"]:
        bad["ensures.section_names_in_order_of_first_appearance"] = f"re-read sections {obs['order']}, file has {exp['order']}"
    for name in exp["order"]:
        want = exp["sections"][name]
        wantc = [r[1] for r in want if r[0] == "content"]
        got = obs["sections"].get(name)
        if got is None:
            if wantc:
                bad.setdefault("ensures.content_lines_token_by_token", f"[ {name} ]: section missing, {len(wantc)} content lines lost")
            if want:
                bad.setdefault("ensures.comment_and_preprocessor_lines_in_position", f"[ {name} ]: section missing, {len(want)} lines lost")
            continue
        gotc = [r[1] for r in got if r[0] == "content"]
        if gotc != wantc:
            bad.setdefault("ensures.content_lines_token_by_token", f"[ {name} ].lines: " + _first_diff(gotc, wantc))
        elif obs["content"][name] != wantc:
            bad.setdefault("ensures.content_lines_token_by_token", f"iterating [ {name} ]: " + _first_diff(obs["content"][name], wantc))
        if got != want:
            bad.setdefault("ensures.comment_and_preprocessor_lines_in_position", f"[ {name} ]: " + _first_diff(got, want))
    if obs["header"] is None:
        # where the parsed object keeps the text before the first section is not fixed by the statement
        bad["soft:ensures.header_lines_preserved"] = "the parsed file has no 'header' entry to observe; the written text is compared instead"
    elif obs["header"] != exp["header"]:
        bad["ensures.header_lines_preserved"] = "header: " + _first_diff(obs["header"], exp["header"])
    return bad


def _mkdtemp():
    # memory-backed scratch directory when there is one (the run is dominated by open()), removed by the task
    d = "/dev/shm"
    try:
        if os.path.isdir(d) and os.access(d, os.W_OK):
            return tempfile.mkdtemp(prefix="c16_", dir=d)
    except Exception:
        pass
    return tempfile.mkdtemp(prefix="c16_")


def _read(path):
    with open(path, encoding="utf-8") as f:
        return f.read()


def _write(path, text):
    with open(path, "w", encoding="utf-8", newline="") as f:
        f.write(text)


def check_file(text, tmp, corrupt=None, src_path=None, topology=True, corrupt3=None):
    """ItpFile(f1).write(f2); ItpFile(f2) against the reference reading of `text`; second write; read_topology.
    Returns ({clause: message}, {clause: evaluated?}).  Keys "soft:<clause>" are informational (the harness
    could not observe something the statement does not fix): they become 'undecided', never 'refuted'."""
    m = _itp()
    f1 = src_path or os.path.join(tmp, "f1.itp")
    f2, f3 = os.path.join(tmp, "f2.itp"), os.path.join(tmp, "f3.itp")
    exp = ref_file(text)
    bad = {}
    done = {c: False for c in F_CLAUSES}
    done["ensures.no_exception"] = True
    stage = "write input"
    try:
        if src_path is None:
            _write(f1, text)
        with contextlib.redirect_stdout(io.StringIO()):
            stage = "ItpFile(f1)"
            itp1 = m.ItpFile(f1)
            stage = "ItpFile(f1).write(f2)"
            itp1.write(f2)
            del itp1
            if corrupt is not None:
                _write(f2, corrupt(_read(f2)))
            stage = "ItpFile(f2)"
            itp2 = m.ItpFile(f2)
            stage = "ItpFile(f2).write(f3)"
            itp2.write(f3)
            if corrupt3 is not None:
                _write(f3, corrupt3(_read(f3)))
            stage = "ItpFile(f3)"
            itp3 = m.ItpFile(f3)
    except Exception as e:
        if stage == "write input":
            raise
        bad["ensures.no_exception"] = f"{stage} raises {type(e).__name__}: {e}"
        return bad, done
    t2, t3 = _read(f2), _read(f3)
    for c in F_CLAUSES[1:6]:
        done[c] = True
    # the written text must still carry the header text (a consequence: what is not written cannot be re-read)
    if ref_file(t2)["header"] != exp["header"]:
        bad["ensures.header_lines_preserved"] = "header of the written file: " + _first_diff(ref_file(t2)["header"], exp["header"])
    try:
        obs2, obs3 = observe(itp2), observe(itp3)
    except Exception as e:   # the harness cannot look into the objects (public API changed): not a violation
        for c in F_CLAUSES[1:6]:
            bad.setdefault("soft:" + c, f"harness cannot observe the parsed file: {type(e).__name__}: {e}")
        obs2 = obs3 = None
    del itp2, itp3
    if obs2 is not None:
        for k, v in compare(exp, obs2).items():
            bad.setdefault(k, v)
    if obs2 is None:
        if ref_file(t2) != ref_file(t3):
            bad["ensures.second_write_stable"] = "the text of the second write reads differently from the text of the first write"
    elif obs3 != obs2:
        d = ""
        for k in ("order", "header"):
            if obs3[k] != obs2[k]:
                d = f"{k}: {obs3[k]} after second write, {obs2[k]} after first"
        for name in obs2["order"]:
            if not d and obs3["sections"].get(name) != obs2["sections"][name]:
                d = f"[ {name} ] second round: " + _first_diff(obs3["sections"].get(name) or [], obs2["sections"][name])
        bad["ensures.second_write_stable"] = d or "objects differ after the second write"
    else:
        r2, r3 = ref_file(t2), ref_file(t3)
        if r2 != r3:
            bad["ensures.second_write_stable"] = "the text of the second write reads differently from the text of the first write"
    # read_topology: defined when the input is a readable topology
    if topology and any(r[0] == "content" for r in exp["sections"].get("moleculetype", [])) \
            and any(r[0] == "content" for r in exp["sections"].get("atoms", [])):
        from gaddlemaps.parsers import read_topology
        try:
            with contextlib.redirect_stdout(io.StringIO()):
                top1 = read_topology(f1)
        except Exception:
            top1 = None     # not a readable topology (e.g. bond to a missing atom): outside the clause
        if top1 is not None:
            done["ensures.read_topology_equal"] = True
            try:
                with contextlib.redirect_stdout(io.StringIO()):
                    top2 = read_topology(f2)
            except Exception as e:
                bad["ensures.read_topology_equal"] = f"read_topology(written file) raises {type(e).__name__}: {e}; original gives name {top1[0]!r}, {len(top1[1])} atoms, {len(top1[2])} bonds"
            else:
                try:    # bonds as a multiset of unordered pairs: the statement fixes no order or direction
                    n1, n2 = _norm_top(top1), _norm_top(top2)
                except Exception as e:
                    n1 = n2 = None
                    bad["soft:ensures.read_topology_equal"] = f"harness cannot normalise the read_topology result: {type(e).__name__}: {e}"
                if n1 != n2:
                    which = [n for n, a, b in zip(("name", "atoms", "bonds"), n1, n2) if a != b]
                    bad["ensures.read_topology_equal"] = (f"read_topology differs in {which}: original ({top1[0]!r}, {len(top1[1])} atoms, {len(top1[2])} bonds) "
                                                          f"written ({top2[0]!r}, {len(top2[1])} atoms, {len(top2[2])} bonds)")
    return bad, done


def _norm_top(top):
    name, atoms, bonds = top
    return (name, [tuple(a) for a in atoms], sorted(tuple(sorted(b)) for b in bonds))


class Agg:
    """per-clause aggregation of file evaluations into obligations"""

    def __init__(self, clauses):
        self.per = {c: [0, 0, None, 0, None] for c in clauses}
        self.texts = set()
        self.nontrivial = 0
        self.sample = None

    def add(self, text, bad, done, cexinfo):
        if text not in self.texts:
            self.texts.add(text)
            r = ref_file(text)
            if any(r["sections"][n] for n in r["order"]):
                self.nontrivial += 1
                if self.sample is None and len(r["order"]) >= 2 and text.count("\n") >= 4:
                    self.sample = text
        for c, rec in self.per.items():
            if not done.get(c):
                continue
            rec[0] += 1
            if c in bad:
                rec[1] += 1
                if rec[2] is None:
                    rec[2] = (dict(cexinfo), bad[c])
            elif "soft:" + c in bad:
                rec[3] += 1
                if rec[4] is None:
                    rec[4] = bad["soft:" + c]

    def obligations(self, tag, secs=0.0):
        out = []
        for c, (n, nbad, first, nsoft, softmsg) in self.per.items():
            oid = f"{PROP}/{F_FILE}/{c}/{tag}"
            if first is None and nsoft:
                out.append(ob(oid, "undecided", kind="bounded", engine="smallscope", backend="runtime-contract",
                              evaluations=n, nontrivial=min(n, self.nontrivial), secs=secs / len(self.per),
                              reason=f"informational: {nsoft}/{n} files could not be observed: {softmsg}",
                              sample={"file": self.sample, "files": len(self.texts)}))
            elif first is None:
                out.append(ob(oid, "discharged", kind="bounded", engine="smallscope", backend="runtime-contract",
                              evaluations=n, nontrivial=min(n, self.nontrivial), secs=secs / len(self.per),
                              sample={"file": self.sample, "files": len(self.texts)}))
            else:
                cex, msg = first
                cex["clause"] = c
                out.append(ob(oid, "refuted", kind="bounded", engine="smallscope", backend="runtime-contract",
                              evaluations=n, nontrivial=min(n, self.nontrivial), secs=secs / len(self.per),
                              reason=f"{nbad}/{n} files violate; first: {msg}", cex=cex,
                              sample={"file": cex.get("text") or cex.get("name")}))
        return out


def enum_seqs(nk, maxlen, first):
    """all kind sequences of length <= maxlen starting with kind `first` (the empty one goes with first == 0)"""
    if first == 0:
        yield ()
    for n in range(1, maxlen + 1):
        for rest in itertools.product(range(nk), repeat=n - 1):
            yield (first,) + rest


def _slice_name(firsts):
    return "|".join(KINDS[k] for k in firsts)


def variants(family, tier, maxlen, n):
    v = [("none", True), ("header-text", True), ("none", False)]
    if family == "typed":
        v.append(("topology", True))
    return v


def task_files(family, firsts, maxlen, tier, seed, only_plain=False):
    names = FAMILIES[family]
    tmp = _mkdtemp()
    t0 = time.time()
    agg = Agg(F_CLAUSES)
    try:
        for seq in sorted((s for first in firsts for s in enum_seqs(len(KINDS), maxlen, first)), key=len):
            vs = [("none", True)] if only_plain else variants(family, tier, maxlen, len(seq))
            for prefix, nl in vs:
                text = render_file(names, prefix, seq, nl)
                bad, done = check_file(text, tmp)
                agg.add(text, bad, done, {"level": "file", "text": text, "family": family, "signature": text_signature(text)})
    finally:
        shutil.rmtree(tmp, ignore_errors=True)
    return agg.obligations(f"{family}/lines<={maxlen}/first={_slice_name(firsts)}", time.time() - t0)


def task_files_hash(maxlen, seed):
    """comment texts that begin with '#' (a commented-out preprocessor line, '; #3' ...)"""
    tmp = _mkdtemp()
    t0 = time.time()
    agg = Agg(F_CLAUSES)
    try:
        for names in (("bonds", "dihedrals", None), ("dihedrals", "atoms", None)):
            for first in range(len(HASH_KINDS)):
                for seq in enum_seqs(len(HASH_KINDS), maxlen, first):
                    text = render_file(names, "none", seq, True, hash_variant=True)
                    if "comment-text-starts-with-#" not in text_signature(text):
                        continue
                    bad, done = check_file(text, tmp)
                    agg.add(text, bad, done, {"level": "file", "text": text, "family": "comment-text-starts-with-#",
                                              "signature": text_signature(text)})
    finally:
        shutil.rmtree(tmp, ignore_errors=True)
    return agg.obligations(f"comment-text-starts-with-#/lines<={maxlen}", time.time() - t0)


CTL_CHARS = [("U+000B", "\x0b"), ("U+000C", "\x0c"), ("U+001C", "\x1c"), ("U+001D", "\x1d"), ("U+001E", "\x1e"),
             ("U+0085", "\x85"), ("U+2028", "\u2028"), ("U+2029", "\u2029")]
CTL_KINDS = ["H1", "H2", "content", "content+comment", "comment-only", "content+two-comments"]
CTL_NAMES = [("dihedrals", "angles"), ("atoms", "bonds"), ("moleculetype", "pairs")]


def render_ctl(names, seq, c):
    """comment-only lines and trailing comments with the character c in the middle of the comment text, followed by
    more text (form feed: page breaks of old force-field files).  The file stays one line per "\\n"."""
    lines, cur = [], None
    ch = c
    for i, k in enumerate(seq):
        kind = CTL_KINDS[k]
        c = ch if cur is not None or CTL_KINDS[k] in ("H1", "H2") else " "    # text before the first section is copied verbatim: plain there
        if kind in ("H1", "H2"):
            cur = names[int(kind[1]) - 1]
            lines.append(f"[ {cur} ]")
        elif kind == "content":
            lines.append(content_text(cur, i))
        elif kind == "content+comment":
            lines.append(content_text(cur, i) + f" ; note{i}{c}tail{i} 7 8")
        elif kind == "comment-only":
            lines.append(f"; page{i}{c}break{i} 5 6")
        elif kind == "content+two-comments":
            lines.append(content_text(cur, i) + f" ; note{i} ; more{i}{c}tail{i}")
    return "".join(l + "\n" for l in lines)


def _encodable(c):
    # ItpFile.write opens the output with the default encoding: a character it cannot encode is outside the scope
    import locale
    try:
        c.encode(locale.getpreferredencoding(False))
        return True
    except Exception:
        return False


def task_files_ctl(maxlen, seed):
    tmp = _mkdtemp()
    out = []
    try:
        for label, c in CTL_CHARS:
            if not _encodable(c):
                out.append(ob(f"{PROP}/{F_FILE}/guard.default-encoding-can-write/{label}", "undecided", kind="guard", engine="smallscope",
                              backend="runtime-contract", expect="undecided", reason="the default encoding cannot encode the character; family skipped"))
                continue
            t0 = time.time()
            agg = Agg(F_CLAUSES)
            for names in CTL_NAMES:
                for first in range(len(CTL_KINDS)):
                    for seq in enum_seqs(len(CTL_KINDS), maxlen, first):
                        text = render_ctl(names, seq, c)
                        if c not in text:
                            continue    # the character occurs inside a section
                        bad, done = check_file(text, tmp)
                        agg.add(text, bad, done, {"level": "file", "text": text, "family": "line-boundary-character-in-comment",
                                                  "signature": f"comment-contains-{label}"})
            out += agg.obligations(f"line-boundary-character-in-comment/{label}/lines<={maxlen}", time.time() - t0)
    finally:
        shutil.rmtree(tmp, ignore_errors=True)
    return out


def data_dir():
    import gaddlemaps
    return os.path.join(os.path.dirname(os.path.abspath(gaddlemaps.__file__)), "data")


def shipped_names():
    return sorted(f for f in os.listdir(data_dir()) if f.endswith(".itp"))


def task_shipped(seed):
    tmp = _mkdtemp()
    t0 = time.time()
    agg = Agg(F_CLAUSES)
    out = []
    try:
        names = shipped_names()
        for name in names:
            path = os.path.join(data_dir(), name)
            text = _read(path)
            bad, done = check_file(text, tmp, src_path=path)
            agg.add(text, bad, done, {"level": "shipped", "name": name, "signature": text_signature(text)})
        out.append(ob(f"{PROP}/{F_FILE}/guard.all-16-shipped-topologies-present", "discharged" if len(names) == 16 else "refuted",
                      kind="guard", engine="smallscope", backend="runtime-contract", expect="discharged",
                      sample={"files": names}))
    finally:
        shutil.rmtree(tmp, ignore_errors=True)
    obs = agg.obligations("shipped-topologies", time.time() - t0)
    for o in obs:
        if o["status"] == "discharged":
            o["sample"] = {"files": names}
    return obs + out


# ---------------------------------------------------------------------------
# guards

GUARD_FILES = [
    "; title\n[ dihedrals ]\n1 2 3 1 ; first\n; remark\n[ angles ]\n1 2 3 1\n[ dihedrals ]\n2 3 4 1\n",
    "#include \"ff.itp\"\n[ bonds ]\n1 2 ;\n2 1 1 0.5 ; note ; more\n#ifdef X\n; remark\n",
    "[ moleculetype ]\nMOL 3\n[ atoms ]\n1 C 1 RES C1 1 0.0 12.0\n2 C 1 RES C2 2 0.0 12.0\n[ bonds ]\n1 2 1 0.1 ; b\n",
]


def _drop_first_content(t):
    lines = split_lines(t)
    for i, l in enumerate(lines):
        if not is_header(l) and ref_line(l)[0] == "content" and any(is_header(x) for x in lines[:i]):
            return "".join(lines[:i] + lines[i + 1:])
    return t


def _drop_last_content(t):
    lines = split_lines(t)
    for i in range(len(lines) - 1, -1, -1):
        if not is_header(lines[i]) and ref_line(lines[i])[0] == "content":
            return "".join(lines[:i] + lines[i + 1:])
    return t


def _drop_comment_lines(t):
    return "".join(l for l in split_lines(t) if ref_line(l)[0] != "comment" or is_header(l))


def _drop_header(t):
    lines = split_lines(t)
    k = next((i for i, l in enumerate(lines) if is_header(l)), len(lines))
    return "".join(lines[k:])


def _sort_sections(t):
    lines = split_lines(t)
    k = next((i for i, l in enumerate(lines) if is_header(l)), len(lines))
    blocks, cur = [], None
    for l in lines[k:]:
        if is_header(l):
            cur = [l]
            blocks.append(cur)
        else:
            cur.append(l)
    blocks.sort(key=lambda b: b[0])
    return "".join(lines[:k] + [l for b in blocks for l in b])


def task_guards(seed):
    out = []
    g = lambda name, caught, **kw: out.append(ob(f"{PROP}/{name}", "refuted" if caught else "discharged", kind="guard",
                                                 engine="smallscope", backend="runtime-contract", expect="refuted", **kw))
    # line level: deliberately wrong re-assembly of the line must be refuted by the matching clause
    wrongs = {
        "drops-comment": (lambda s: real_render(s).split(";")[0] if not s.startswith("#") else real_render(s),
                          "ensures.roundtrip_same_comment_text"),
        "drops-terminator": (lambda s: real_render(s).rstrip("\n"), "ensures.terminated_line_stays_terminated"),
        "drops-content": (lambda s: (";" + s.partition(";")[2]) if ";" in s else real_render(s),
                          "ensures.roundtrip_same_content_tokens"),
        "splits-on-last-semicolon": (lambda s: (lambda h, _, t_: h.replace(";", " ") + ";" + t_)(*s.rpartition(";"))
                                     if s.count(";") > 1 and not s.startswith("#") else real_render(s),
                                     "ensures.roundtrip_same_reference_reading"),
    }
    for wname, (render, clause) in wrongs.items():
        n = 0
        for s in enum_lines(("a", " ", ";", "#"), 4):
            if line_family(s) != "plain":
                continue
            if clause in check_line(s, render):
                n += 1
        g(f"{F_LINE}/guard.must-fail.{wname}", n > 0, sample={"clause": clause, "lines_refuted": n})
    # file level: the right clauses on a deliberately corrupted written file
    tmp = _mkdtemp()
    try:
        for cname, (fn, clause) in {
            "written-file-lacks-a-content-line": (_drop_first_content, "ensures.content_lines_token_by_token"),
            "written-file-lacks-comment-lines": (_drop_comment_lines, "ensures.comment_and_preprocessor_lines_in_position"),
            "written-file-lacks-header": (_drop_header, "ensures.header_lines_preserved"),
            "written-file-sections-sorted": (_sort_sections, "ensures.section_names_in_order_of_first_appearance"),
        }.items():
            n = 0
            for text in GUARD_FILES:
                bad, _ = check_file(text, tmp, corrupt=fn)
                n += clause in bad
            g(f"{F_FILE}/guard.must-fail.{cname}", n > 0, sample={"clause": clause, "files_refuted": n})
        n = sum("ensures.read_topology_equal" in check_file(text, tmp, corrupt=_drop_last_content)[0] for text in GUARD_FILES)
        g(f"{F_FILE}/guard.must-fail.written-topology-lacks-last-bond", n > 0,
          sample={"clause": "ensures.read_topology_equal", "files_refuted": n})
        n = sum("ensures.second_write_stable" in check_file(text, tmp, corrupt3=_drop_last_content)[0] for text in GUARD_FILES)
        g(f"{F_FILE}/guard.must-fail.second-write-lacks-a-content-line", n > 0,
          sample={"clause": "ensures.second_write_stable", "files_refuted": n})
    finally:
        shutil.rmtree(tmp, ignore_errors=True)
    # cover guards: the enumerated scope contains the situations the statement names
    cover = {"repeated-section-with-content-in-both-blocks": 0, "empty-trailing-comment-followed-by-a-line": 0,
             "two-trailing-comments": 0, "sections-not-in-alphabetical-order": 0, "header-text": 0}
    names = FAMILIES["generic"]
    for first in range(len(KINDS)):
        for seq in enum_seqs(len(KINDS), 4, first):
            text = render_file(names, "none", seq)
            r = ref_file(text)
            hs = [l for l in split_lines(text, False) if is_header(l)]
            if len(hs) != len(set(hs)):
                blocks = re.split(r"(?m)^\[.*\]\n", text)[1:]
                if sum(1 for h, b in zip(hs, blocks) if h == hs[0] and any(ref_line(x)[0] == "content" for x in split_lines(b))) >= 2:
                    cover["repeated-section-with-content-in-both-blocks"] += 1
            ls = split_lines(text, False)
            if any(l.endswith(" ;") and i + 1 < len(ls) and ref_line(ls[i + 1])[0] != "blank" and not is_header(ls[i + 1])
                   and not is_header(l) and any(is_header(x) for x in ls[:i]) for i, l in enumerate(ls)):
                cover["empty-trailing-comment-followed-by-a-line"] += 1
            if any(rec[0] == "content" and ";" in rec[2] for n in r["order"] for rec in r["sections"][n]):
                cover["two-trailing-comments"] += 1
            if r["order"] != sorted(r["order"]):
                cover["sections-not-in-alphabetical-order"] += 1
            if r["header"]:
                cover["header-text"] += 1
    for k, v in cover.items():
        out.append(ob(f"{PROP}/{F_FILE}/guard.scope-covers.{k}", "discharged" if v > 0 else "refuted", kind="guard",
                      engine="smallscope", backend="enumeration", expect="discharged", sample={"files": v}))
    return out


# ---------------------------------------------------------------------------


def _tasks_bounded(prop, tier, seed):
    try:    # warm the parent so that the forked children do not each pay the import
        import gaddlemaps.parsers  # noqa: F401
    except Exception:
        pass
    quick = tier != "thorough"
    t = []
    n_line = 6 if quick else 7
    t.append((f"line/len<={n_line}", task_lines, (f"len<={n_line}", ("a", " ", ";", "#"), n_line, seed), 300.0))
    if not quick:
        t.append(("line/brackets/len<=6", task_lines, ("brackets/len<=6", ("a", " ", ";", "#", "[", "]"), 6, seed), 600.0))
    t.append(("shipped", task_shipped, (seed,), 300.0))
    t.append(("guards", task_guards, (seed,), 300.0))
    t.append(("file/hash-comment", task_files_hash, (3 if quick else 4, seed), 300.0))
    t.append(("file/line-boundary-characters", task_files_ctl, (3 if quick else 4, seed), 600.0))
    n_file = 4 if quick else 5
    slices = [(k, k + 1) for k in range(0, len(KINDS), 2)] if quick else [(k,) for k in range(len(KINDS))]
    for fam in FAMILIES:
        for sl in slices:
            t.append((f"file/{fam}/first={_slice_name(sl)}", task_files, (fam, sl, n_file, tier, seed), 600.0 if quick else 1800.0))
    if not quick:
        for sl in slices:
            t.append((f"file6/generic/first={_slice_name(sl)}", task_files, ("generic", sl, 6, tier, seed, True), 1800.0))
    return t


def _replay_bounded(prop, cex):
    level = cex.get("level")
    clause = cex.get("clause")
    if level == "line":
        s = cex["line"]
        bad = check_line(s)
        L = None
        try:
            L = real_render(s)
        except Exception as e:
            L = f"raises {type(e).__name__}: {e}"
        tmp = _mkdtemp()
        try:
            conf = confirm_line(s, tmp)
        finally:
            shutil.rmtree(tmp, ignore_errors=True)
        return {"reproduced": bool(bad) and conf[0] and (clause is None or clause in bad or "ensures.no_exception" in bad),
                "observed": {"ItpLine(line).line": L, "violated": bad, "file": conf[1], "file_round_trip_violated": conf[2]},
                "expected": {"reference_reading": ref_line(s)}, "inputs": cex}
    tmp = _mkdtemp()
    try:
        if level == "shipped":
            path = os.path.join(data_dir(), cex["name"])
            text = _read(path)
            bad, done = check_file(text, tmp, src_path=path)
        else:
            text = cex["text"]
            bad, done = check_file(text, tmp)
        written = None
        try:
            written = _read(os.path.join(tmp, "f2.itp"))
        except Exception:
            pass
    finally:
        shutil.rmtree(tmp, ignore_errors=True)
    exp = ref_file(text)
    bad = {k: v for k, v in bad.items() if not k.startswith("soft:")}
    return {"reproduced": bool(bad) and (clause is None or clause in bad or "ensures.no_exception" in bad),
            "observed": {"violated": bad, "written_file": (written if written is None or len(written) < 2000 else written[:2000] + "...")},
            "expected": {"sections_in_order": exp["order"], "header": exp["header"][:20],
                         "lines": {n: exp["sections"][n][:20] for n in exp["order"][:10]}},
            "inputs": cex}


# ---------------------------------------------------------------------------
# deductive part (contracts/d16_itp_vc.py) wired in


def info(prop):
    from . import d16_itp_vc as D
    d = _info_bounded(prop)
    h = D.deductive_info()
    done = tuple(f.split(" ")[0].split("::")[1] for f in h["functions"])
    d["functions"] = h["functions"] + [f for f in d.get("functions", []) if not f.endswith(done)]
    d["stubs"] = h["stubs"] + d.get("stubs", [])
    d["assumptions"] = h["assumptions"] + d.get("assumptions", [])
    d["explanation"] = h["explanation"] + d.get("explanation", "").replace(
        "Bounded run-time contract checks (no deductive obligation: regular expressions and split/join chains). ",
        "Bounded part (run-time contract checks; regular expressions and split/join chains are outside what the SMT string solvers decide here): ")
    d["trusted_base"] = ["z3 5.1", "vf/pyvc.py + vf/seq.py"] + d.get("trusted_base", [])
    return d


def tasks(prop, tier, seed):
    from . import d16_itp_vc as D
    return list(D.deductive_tasks(prop, tier, seed)) + list(_tasks_bounded(prop, tier, seed))


def replay(prop, cex):
    if cex.get("kind") == "vc":
        # a failed proof obligation of the section bookkeeping: look for a file whose round trip fails on the real code
        cand = [t for t in _tasks_bounded(prop, "quick", 0) if t[0].startswith(("file/generic", "file/typed", "shipped"))][:6]
        for name, fn, args, _lim in cand:
            try:
                obs = fn(*args)
            except Exception:
                continue
            for o in obs:
                if o.get("status") == "refuted" and o.get("kind") != "guard" and o.get("cex"):
                    r = _replay_bounded(prop, o["cex"])
                    if r and r.get("reproduced"):
                        r["note"] = f"failed obligation {cex.get('obligation') or cex.get('clause') or cex.get('signature')} manifests on the real ItpFile"
                        return r
        return {"reproduced": False, "inputs": cex, "note": "no failing file found in the bounded scope"}
    return _replay_bounded(prop, cex)
