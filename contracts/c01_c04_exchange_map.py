"""C01-C04 -- exchange map: anchor-and-scale law, rigid-motion equivariance, locality, purity.

Contracts (from the property statements) on gaddlemaps/_exchage_map.py::ExchangeMap
  _proyect_point / _restore_point   [proved, all inputs]
  _find_closest_ref                 [all real coordinates, every anchor-key set up to the bound]
  _calculate_refsystems(_general)   [all real coordinates, every bond graph up to the bound]
  __init__ + __call__ (glue)        [all real coordinates, scale, every structure up to the bound]
with calcule_base replaced by its contract (proved in C17) and scipy's euclidean by its contract.
Lemmas over contracts (proved once per run, generic symbols): rows orthonormal => columns orthonormal.
The bounded numeric twin runs the real, unstubbed code on float inputs (incl. exactly collinear and
axis-aligned anchors) and doubles as the replay oracle.
"""
from __future__ import annotations

import contextlib
import io
import itertools

import numpy as np
import z3

from vf import symrun as S, core, spec
from vf.core import ob, discharge, Proof
from vf import backends as BK


def cert_discharge(oid, insts, goal, cex_builder=None, fallback_hyps=None):
    """goal (an equality) follows from the lemma instances `insts` (equalities) by adding them up: checked as an
    explicit polynomial identity  (goal.lhs - goal.rhs) - sum_i (inst_i.lhs - inst_i.rhs) == 0  (sound over any ring)."""
    if insts:
        v = BK.cert_check(insts, goal, [(z3.RealVal(1), h) for h in insts])
        if v.status == "discharged":
            return ob(oid, "discharged", engine="symrun", backend="cert", secs=v.secs,
                      sample={"goal": core.short(goal), "lemma_instances": len(insts)})
    return discharge(oid, fallback_hyps if fallback_hyps is not None else insts, goal, backends=("z3",), timeout_ms=3000,
                     cex_builder=cex_builder)
from . import xmap_harness as H
from . import _merge

REL = "gaddlemaps/_exchage_map.py"


def info(prop):
    common_assume = [
        "A1 float64 as reals (tolerances of the statements are the room for rounding; not analysed)",
        "A2 numpy object-dtype transparency; the real Molecule/Atom/AtomGro/Residue classes run unmodified on object arrays",
        "calcule_base by contract (C17: right-handed orthonormal frame, first vector = unit(third - first point), origin = first point, "
        "requires first != third point); scipy.spatial.distance.euclidean by contract (d >= 0, d^2 = sum of squared differences)",
        "structure scope: every labelled bond graph on 3..4 reference atoms with >= 1 atom of degree >= 2 (quick: all on 3, all connected + sampled on 4), targets of 1..2 atoms; "
        "arbitrary molecule size is not proved",
    ]
    d = {
        "level": "other",
        "functions": [f"{REL}::ExchangeMap._proyect_point", f"{REL}::ExchangeMap._restore_point", f"{REL}::ExchangeMap._find_closest_ref",
                      f"{REL}::ExchangeMap._calculate_refsystems", f"{REL}::ExchangeMap._calculate_refsystems_general",
                      f"{REL}::ExchangeMap._make_map", f"{REL}::ExchangeMap._restore_molecule", f"{REL}::ExchangeMap.__init__",
                      f"{REL}::ExchangeMap.__call__", "gaddlemaps/components/_components_top.py::AtomTop.closest_atoms (executed)"],
        "stubs": ["gaddlemaps._exchage_map.calcule_base -> functional contract stub (uninterpreted functions of the nine coordinates + C17 clauses)",
                  "gaddlemaps._exchage_map.euclidean -> contract stub", "ExchangeMap._find_closest_ref -> contract stub (nondeterministic choice among the anchor keys) in the glue runs; verified separately",
                  "numpy.random.rand -> fresh symbols in [0,1) (1- and 2-atom references)"],
        "trusted_base": ["z3 5.1", "sympy Groebner (gb)", "vf/symrun.py", "CPython/numpy executing the real methods and component classes on object arrays"],
        "assumptions": common_assume,
        "rule": "deductive: one obligation per (function, clause, structure, path); bounded: one evaluation per float scenario",
        "explanation": ("Symbolic execution of the real ExchangeMap on real Molecule objects with symbolic coordinates and scale; callees by contract; "
                        "per-path VCs discharged by z3 / Groebner ideal membership. The control flow depends only on the bond graph and atom counts, "
                        "which are enumerated up to the stated bound: the result holds for all real coordinates of those structures (structure-bounded, not a proof for arbitrary size). "
                        "The bounded float twin on the real unstubbed code covers generic, exactly collinear and axis-aligned geometries."),
    }
    if prop == "C04":
        from . import b04_history
        d = _merge.merged_info(d, b04_history)
    return d


def _X():
    import gaddlemaps._exchage_map as X
    return X


@contextlib.contextmanager
def patched_attr(obj, name, value):
    missing = object()
    old = obj.__dict__.get(name, missing)
    setattr(obj, name, value)
    try:
        yield
    finally:
        if old is missing:
            delattr(obj, name)
        else:
            setattr(obj, name, old)


SV = z3.Real("s")


def Pt(base, i):
    return [z3.Real(f"{base}_{i}_{k}") for k in range(3)]


def distinct_pre(base, n):
    return [z3.Or(*[z3.Real(f"{base}_{i}_{k}") != z3.Real(f"{base}_{j}_{k}") for k in range(3)])
            for i in range(n) for j in range(i + 1, n)]


# ---------------------------------------------------------------------------
# lemma library (generic symbols; proved once per run)


def lemma_rows_cols(prefix):
    F = [[z3.Real(f"lem_f{r}{c}") for c in range(3)] for r in range(3)]
    hy = H.frame_hyps(F)
    out = []
    for i, g in enumerate(H.columns_orthonormal(F)):
        out.append(discharge(f"{prefix}/lemma.rows_orthonormal_implies_columns_orthonormal[{i}]", hy, g, backends=("gb", "z3"),
                             engine="symrun", timeout_ms=20000))
    return out


_LAW = {}


def law_lemma(prefix):
    """Lemma C01 (over the contract of calcule_base only, generic symbols, proved once per process):
    for a right-handed orthonormal frame F, origin a, point q and scale s:
        a + (s F (q - a)) . F  ==  a + s (q - a)
    Returns (obligations, instantiate) where instantiate(F, a, q, s) -> (frame hypotheses, lhs, rhs)."""
    if "obs" not in _LAW:
        F = [[z3.Real(f"law_f{r}{c}") for c in range(3)] for r in range(3)]
        a = [z3.Real(f"law_a{k}") for k in range(3)]
        q = [z3.Real(f"law_q{k}") for k in range(3)]
        s_ = z3.Real("law_s")
        hy = H.frame_hyps(F) + H.columns_orthonormal(F)
        lhs, rhs = _law_terms(F, a, q, s_)
        obs = []
        for k in range(3):
            obs.append(discharge(f"{prefix}/lemma.restore_of_projection_is_anchor_plus_s_times_offset[{k}]", hy, lhs[k] == rhs[k],
                                 backends=("gb", "z3"), engine="symrun", timeout_ms=30000))
        _LAW["obs"] = obs
        _LAW["ok"] = all(o["status"] == "discharged" for o in obs)
    return _LAW["obs"], _LAW["ok"]


def _law_terms(F, a, q, s_):
    proj = [s_ * spec.dot(F[r], spec.sub(q, a)) for r in range(3)]
    lhs = [a[k] + sum((proj[r] * F[r][k] for r in range(1, 3)), proj[0] * F[0][k]) for k in range(3)]
    rhs = [a[k] + s_ * (q[k] - a[k]) for k in range(3)]
    return lhs, rhs


def _has_all(hy, needed):
    return all(any(h.eq(x) for x in hy) for h in needed)


# ---------------------------------------------------------------------------
# C01: kernels


def _bare_map(frames, scale, refmol=None, tgtmol=None):
    X = _X()
    xm = object.__new__(X.ExchangeMap)
    xm._refmolecule = refmol
    xm._targetmolecule = tgtmol
    xm.scale_factor = scale
    xm._refsystems = frames
    xm._equivalences = {}
    xm._target_coordinates = {}
    return xm


class _FakeAtom:
    def __init__(self, position):
        self.position = position


def task_kernels(prop, seed):
    out = []
    tag = f"{prop}/ExchangeMap"

    def run(c):
        F = tuple(S.vec(f"f{r}") for r in range(3))
        o = S.vec("o")
        xm = _bare_map({7: (F, o)}, S.real("s"))
        p = S.vec("p")
        before = S.terms(p) + S.terms(o) + [x for v in F for x in S.terms(v)]
        pr = xm._proyect_point(7, _FakeAtom(p))
        cc = S.vec("c")
        rs = xm._restore_point(7, cc)
        after = S.terms(p) + S.terms(o) + [x for v in F for x in S.terms(v)]
        return S.terms(pr), S.terms(rs), before, after

    paths = S.explore(run)
    if len(paths) != 1 or paths[0].exc is not None:
        return [ob(f"{tag}._proyect_point/single-path", "undecided" if len(paths) != 1 else "refuted", engine="symrun",
                   reason=f"{len(paths)} paths exc={paths[0].exc!r}" if paths else "none",
                   cex=None if len(paths) != 1 else {"fn": "law", "n": 3, "edges": [[0, 1], [1, 2]], "m": 1, "signature": "raises"})]
    p_ = paths[0]
    pr, rs, before, after = p_.result
    Fz = [[z3.Real(f"f{r}_{k}") for k in range(3)] for r in range(3)]
    o = [z3.Real(f"o_{k}") for k in range(3)]
    p = [z3.Real(f"p_{k}") for k in range(3)]
    cc = [z3.Real(f"c_{k}") for k in range(3)]
    hy = p_.hyps()
    cexb = lambda m: {"fn": "law", "n": 3, "edges": [[0, 1], [1, 2]], "m": 1, "signature": "kernel"}
    goal = z3.And(*[pr[r] == SV * spec.dot(Fz[r], spec.sub(p, o)) for r in range(3)])
    out.append(discharge(f"{tag}._proyect_point/ensures.scaled_components_in_the_frame", hy, goal, backends=("z3",), cex_builder=cexb))
    goal = z3.And(*[rs[k] == o[k] + sum((cc[r] * Fz[r][k] for r in range(1, 3)), cc[0] * Fz[0][k]) for k in range(3)])
    out.append(discharge(f"{tag}._restore_point/ensures.origin_plus_combination_of_frame_vectors", hy, goal, backends=("z3",), cex_builder=cexb))
    out.append(discharge(f"{tag}._proyect_point+_restore_point/ensures.inputs_unmodified", hy,
                         z3.And(*[a == b for a, b in zip(before, after)]), backends=("z3",), cex_builder=cexb))
    out.append(core.must_fail(f"{tag}._proyect_point/guard.must-fail", hy, pr[0] == spec.dot(Fz[0], spec.sub(p, o))))
    return out


def task_find_closest(prop, tier, seed):
    """_find_closest_ref returns a key of _refsystems whose reference atom is nearest (all key sets up to the bound)"""
    X = _X()
    out = []
    tag = f"{prop}/ExchangeMap._find_closest_ref"
    nmax = 3 if tier == "quick" else 4
    ref = H.ref_molecule(4, [(0, 1), (1, 2), (2, 3)])
    keysets = [ks for r in range(1, nmax + 1) for ks in itertools.combinations(range(4), r)]
    if tier == "quick":
        keysets = [ks for ks in keysets if len(ks) <= 2] + [(0, 1, 2), (1, 2, 3), (3, 1, 0)]
    for ks in keysets:
        sid = "keys" + "".join(map(str, ks))

        def run(c, ks=ks):
            H.set_symbolic_positions(ref, "p")
            st = H.Stubs(c)
            frames = {k: ((None, None, None), None) for k in ks}
            xm = _bare_map(frames, S.real("s"), refmol=ref)
            with st.installed():
                r = xm._find_closest_ref(_FakeAtom(S.vec("q")))
            return r, st.euclid

        try:
            paths = S.explore(run, max_paths=400, feas_timeout_ms=1500)
        except S.SymError as e:
            out.append(ob(f"{tag}/symbolic-run/{sid}", "undecided", engine="symrun", reason=str(e)))
            continue
        n_ok = 0
        worst = None
        for p_ in paths:
            if p_.exc is not None:
                worst = ob(f"{tag}/no-exception/{sid}", "refuted", engine="symrun", reason=repr(p_.exc),
                           cex={"fn": "closest", "keys": list(ks), "signature": "raises"})
                break
            r, eu = p_.result
            hy = p_.hyps()
            if r not in ks or len(eu) != len(ks):
                worst = ob(f"{tag}/ensures.returns_a_reference_key/{sid}", "refuted", engine="symrun", reason=f"returned {r!r}",
                           cex={"fn": "closest", "keys": list(ks), "signature": "key"})
                break
            # euclid log is in the iteration order of the keys; check each call compared the target with that key's atom
            q = [z3.Real(f"q_{k}") for k in range(3)]
            dsym = {}
            okargs = True
            for k, (ta, tb, d) in zip(ks, eu):
                pk = Pt("p", k)
                same = all(z3.simplify(x - y).eq(z3.RealVal(0)) for x, y in zip(ta + tb, q + pk)) or \
                    all(z3.simplify(x - y).eq(z3.RealVal(0)) for x, y in zip(ta + tb, pk + q))
                okargs = okargs and same
                dsym[k] = d
            if not okargs:
                worst = ob(f"{tag}/callsite.distance_between_target_and_reference_atom/{sid}", "refuted", engine="symrun",
                           cex={"fn": "closest", "keys": list(ks), "signature": "args"})
                break
            goal = z3.And(*[dsym[r] <= dsym[k] for k in ks])
            v = discharge(f"{tag}/ensures.nearest_reference_atom/{sid}", hy, goal, backends=("z3",), timeout_ms=10000,
                          cex_builder=lambda m, ks=ks: {"fn": "closest", "keys": list(ks), "signature": "nearest"})
            if v["status"] != "discharged":
                worst = v
                break
            n_ok += 1
        if worst is not None:
            out.append(worst)
        else:
            out.append(ob(f"{tag}/ensures.nearest_reference_atom/{sid}", "discharged", engine="symrun", backend="z3",
                          evaluations=n_ok, nontrivial=n_ok, sample={"keys": list(ks), "paths": len(paths)}))
    return out


# ---------------------------------------------------------------------------
# structures


def structures(tier, seed, prop="C01"):
    """(n, edges, m): reference graph and target size"""
    out = []
    for es in H.all_graphs_with_anchor(3):
        out.append((3, es, 1))
        out.append((3, es, 2))
    g4 = list(H.all_graphs_with_anchor(4))
    if tier == "quick" and prop in ("C01", "C03"):
        # every labelled graph on 4 atoms with an atom of degree >= 2 (54 graphs), one target atom
        for g in g4:
            out.append((4, sorted(g), 1))
    elif tier == "quick":
        rng = np.random.default_rng(11 + seed)
        conn = [g for g in g4 if _connected(4, g)]
        pick = [conn[i] for i in rng.choice(len(conn), 10, replace=False)]
        # always include the path, the star, the ring, the complete graph and disconnected graphs
        must = [[(0, 1), (1, 2), (2, 3)], [(0, 1), (0, 2), (0, 3)], [(0, 1), (1, 2), (2, 3), (0, 3)],
                [(0, 1), (0, 2), (0, 3), (1, 2), (1, 3), (2, 3)], [(0, 1), (1, 2)], [(0, 2), (0, 3), (1, 2)]]
        seen = set()
        for g in must + pick:
            key = tuple(sorted(g))
            if key not in seen:
                seen.add(key)
                out.append((4, sorted(g), 1))
    else:
        for g in g4:
            out.append((4, g, 1))
        g5 = list(H.all_graphs_with_anchor(5))
        rng5 = np.random.default_rng(55 + seed)
        for g in [g5[i] for i in rng5.choice(len(g5), 40 if prop != "C02" else 12, replace=False)]:
            out.append((5, sorted(g), 1))
        rng = np.random.default_rng(5 + seed)
        for g in [g4[i] for i in rng.choice(len(g4), 12, replace=False)]:
            out.append((4, g, 2))
    return out


def _connected(n, edges):
    nb = H.neighbours(n, edges)
    seen, st = {0}, [0]
    while st:
        x = st.pop()
        for y in nb[x]:
            if y not in seen:
                seen.add(y)
                st.append(y)
    return len(seen) == n


def _sid(n, edges, m):
    return f"n{n}/" + "-".join(f"{a}{b}" for a, b in edges) + f"/m{m}"


def closest_stub_factory(c):
    """contract stub of _find_closest_ref for the glue runs: returns *some* key of _refsystems
    (a nondeterministic choice, explored exhaustively); the nearest-ness of the real method is a
    separate obligation family."""
    picks = []

    def stub(self, targetatom):
        keys = list(self._refsystems)
        for k in keys[:-1]:
            if c.choose():
                picks.append(k)
                return k
        picks.append(keys[-1])
        return keys[-1]
    return stub, picks


def glue_paths(n, edges, m, second=None, junk_frames=False, max_paths=48, extra_pre=(), also_first=False, small=None):
    """Runs the real ExchangeMap(ref, tgt, s) and then __call__ on (a) the same configuration (second=None),
    (b) a configuration produced by second(c, P) -> object array.  Returns (paths, ref, tgt)."""
    X = _X()
    ref = H.ref_molecule(n, edges)
    tgt = H.tgt_molecule(m)

    def run(c):
        H.set_symbolic_positions(ref, "p")
        H.set_symbolic_positions(tgt, "q")
        st = H.Stubs(c)
        stub, picks = closest_stub_factory(c)
        with st.installed(), patched_attr(X.ExchangeMap, "_find_closest_ref", stub):
            xm = X.ExchangeMap(ref, tgt, S.real("s"))
            n_cb_init = len(st.cb_calls)
            out_first = None
            if also_first:
                out_first = S.terms(xm(ref).atoms_positions)
            n_cb_first = len(st.cb_calls)
            ref_before = S.terms(ref.atoms_positions)
            tgt_before = S.terms(tgt.atoms_positions)
            if junk_frames:
                for k in list(xm._refsystems):
                    xm._refsystems[k] = (tuple(S.vec(f"junk{k}_{r}") for r in range(3)), S.vec(f"junko{k}"))
            arg = ref
            if second is not None:
                arg = ref.copy()
                arg.atoms_positions = second(c, ref)
            arg_before = S.terms(arg.atoms_positions)
            res = xm(arg)
            out = S.terms(res.atoms_positions)
            frame_ok = {
                "ref": [a == b for a, b in zip(S.terms(ref.atoms_positions), ref_before)],
                "tgt": [a == b for a, b in zip(S.terms(tgt.atoms_positions), tgt_before)],
                "arg": [a == b for a, b in zip(S.terms(arg.atoms_positions), arg_before)],
            }
            shares = any(np.shares_memory(a1.position, a2.position) for a1 in res._residues[0] for mol in (tgt, arg, ref)
                         for r_ in mol._residues for a2 in r_)
        eq = getattr(xm, "_equivalences", None)          # private: when absent, the anchors are the stub's picks (one per target atom, in target order)
        eq = dict(eq) if isinstance(eq, dict) else ({j: k for j, k in enumerate(picks[:m])} if len(picks) >= m else None)
        if eq is None:
            raise S.SymError("the anchor assignment of the map cannot be observed (no _equivalences, no picks)")
        return {"out": out, "eq": eq, "stubs": st, "n_cb_init": n_cb_init, "frame": frame_ok,
                "out_first": out_first, "n_cb_first": n_cb_first, "xm": xm,
                "shares": shares, "res": res, "arg": arg, "picks": picks}

    pre = [SV > 0, SV <= 2] + distinct_pre("p", n) + list(extra_pre)
    paths = S.explore(run, assumptions=pre, max_paths=max_paths, feas_timeout_ms=400, max_secs=_EXPLORE_SECS[0])
    return paths, ref, tgt


def _law_cex(n, edges, m, kind="law"):
    def build(model):
        from vf.backends import model_value
        g = lambda nm, d=0.0: model_value(model[nm]) if nm in model else d
        return {"fn": kind, "n": n, "edges": [list(e) for e in edges], "m": m, "s": g("s", 0.7),
                "P": [[g(f"p_{i}_{k}") for k in range(3)] for i in range(n)],
                "Q": [[g(f"q_{j}_{k}") for k in range(3)] for j in range(m)], "signature": kind}
    return build


def _apps(e):
    """sexprs of the applications of uninterpreted functions (arity > 0) occurring in e"""
    seen, out, st = set(), set(), [e]
    while st:
        t = st.pop()
        if t.get_id() in seen:
            continue
        seen.add(t.get_id())
        if z3.is_app(t) and t.num_args() > 0 and t.decl().kind() == z3.Z3_OP_UNINTERPRETED:
            out.add(t.sexpr())
        st.extend(t.children())
    return out


def _sel_frames(hy, frames=None):
    """hypothesis selection (proof scripting): the frame clauses of the calcule_base contract for the given
    frames only (polynomial equalities over their cb_* applications); all frames when frames is None"""
    allowed = None
    if frames is not None:
        allowed = {x.sexpr() for F in frames for row in F for x in row}
    out = []
    for h in hy:
        fc = core.free_consts(h)
        if any(k_.startswith(("cbnorm!", "dist!")) for k_ in fc):
            continue
        ap = _apps(h)
        if not ap:
            continue
        if allowed is None or ap <= allowed:
            out.append(h)
    return out


def _frame_of(stubs, anchor_pt, which="last"):
    """the frame (rows of cb_* applications) the stub returned for the triple whose first point is anchor_pt"""
    hits = [F for (pts9, F, _p0) in stubs.cb_calls if all(x.eq(y) for x, y in zip(pts9[:3], anchor_pt))]
    if not hits:
        return None
    return hits[-1] if which == "last" else hits[0]


def task_law(prop, part, nparts, tier, seed):
    """C01: ExchangeMap(ref, tgt, s)(ref) places target atom j at a + s (q_j - a), a = anchor chosen for j"""
    out = []
    tag = f"{prop}/ExchangeMap.__call__"
    lem_obs, lemma_ok = law_lemma(f"{prop}/lemma")
    if part == 0:
        out += lem_obs
    for (n, edges, m) in structures(tier, seed, prop)[part::nparts]:
        sid = _sid(n, edges, m)
        try:
            paths, ref, tgt = glue_paths(n, edges, m)
        except S.SymError as e:
            out.append(ob(f"{tag}/symbolic-run/{sid}", "undecided", engine="symrun", reason=str(e)))
            continue
        cexb = _law_cex(n, edges, m)
        anchors = H.degree2(n, edges)
        nb = H.neighbours(n, edges)
        fails = []
        n_vc = 0
        for pi, p_ in enumerate(paths):
            if p_.exc is not None:
                fails.append(ob(f"{tag}/no-exception/{sid}", "refuted", engine="symrun", reason=f"real code raises {p_.exc!r}",
                                cex={"fn": "law", "n": n, "edges": [list(e) for e in edges], "m": m, "signature": "raises"}))
                break
            r = p_.result
            hy = p_.hyps()
            # structure clauses (concrete): anchors are exactly the atoms with >= 2 bonds; frames from the anchor and its two lowest-numbered bonded atoms
            st = r["stubs"]
            init_calls = st.cb_calls[:r["n_cb_init"]]
            call_calls = st.cb_calls[r["n_cb_init"]:]
            # C01 only needs: the anchors are exactly the atoms with >= 2 bonded neighbours (which neighbours build the
            # frame is pinned down by C03, not here)
            for which, calls in (("construction", init_calls), ("call", call_calls)):
                got = [c_[0][:3] for c_ in calls]
                exp = [Pt("p", a) for a in anchors]
                good = len(got) == len(exp) and all(all(x.eq(y) for x, y in zip(g_, e_)) for g_, e_ in zip(got, exp))
                if not good:
                    fails.append(ob(f"{tag}/ensures.frames_exactly_for_atoms_with_two_bonded_neighbours[{which}]/{sid}",
                                    "refuted", engine="symrun", backend="structure",
                                    reason=f"calcule_base called on {len(got)} triples; atoms with >= 2 bonds: {anchors}",
                                    cex={"fn": "law", "n": n, "edges": [list(e) for e in edges], "m": m, "signature": "frames"}))
            if fails:
                break
            if set(r["eq"].values()) - set(anchors) or len(r["eq"]) != m:
                fails.append(ob(f"{tag}/ensures.every_target_atom_has_an_anchor_with_two_bonds/{sid}", "refuted", engine="symrun",
                                reason=f"equivalences {r['eq']}", cex={"fn": "law", "n": n, "edges": [list(e) for e in edges], "m": m, "signature": "anchor"}))
                break
            # safety obligations (preconditions of the callee contracts at the call sites)
            for i, (name, cond, h) in enumerate(p_.ctx.safety):
                v = discharge(f"{tag}/callsite.{name}#{i}/{sid}/path{pi}", h, cond, backends=("z3",), timeout_ms=10000, cex_builder=cexb)
                n_vc += 1
                if v["status"] != "discharged":
                    fails.append(v)
            for j in range(m):
                k = r["eq"][j]
                a, q = Pt("p", k), Pt("q", j)
                F = _frame_of(st, a)
                # lemma call: the frame clauses of the contract are hypotheses of this path (structurally), the
                # mapped coordinate is the lemma's left-hand side (a polynomial identity, no hypotheses needed)
                lhs, rhs = _law_terms(F, a, q, SV)
                pre_ok = lemma_ok and _has_all(hy, H.frame_hyps(F) + H.columns_orthonormal(F))
                inst = [lhs[c] == rhs[c] for c in range(3)] if pre_ok else []
                goal = z3.And(*[r["out"][3 * j + c] == rhs[c] for c in range(3)])
                v = discharge(f"{tag}/ensures.target_atom_at_anchor_plus_s_times_offset[{j}]/{sid}/path{pi}", inst, goal,
                              backends=("z3",), timeout_ms=3000, cex_builder=cexb)
                if v["status"] == "undecided" and not pre_ok:
                    v = discharge(f"{tag}/ensures.target_atom_at_anchor_plus_s_times_offset[{j}]/{sid}/path{pi}", _sel_frames(hy, [F]), goal,
                                  backends=("gb", "z3"), timeout_ms=20000, cex_builder=cexb, full_hyps=hy)
                n_vc += 1
                if v["status"] != "discharged":
                    fails.append(v)
                # s = 1 reproduces the target
                goal1 = z3.And(*[r["out"][3 * j + c] == q[c] for c in range(3)])
                v = discharge(f"{tag}/ensures.s_equal_1_reproduces_target[{j}]/{sid}/path{pi}", inst + [SV == 1], goal1,
                              backends=("z3",), timeout_ms=3000, cex_builder=cexb)
                n_vc += 1
                if v["status"] != "discharged":
                    fails.append(v)
            for who, eqs_ in r["frame"].items():
                v = discharge(f"{tag}/frame.{who}_coordinates_unchanged/{sid}/path{pi}", hy, z3.And(*eqs_), backends=("z3",), cex_builder=cexb)
                n_vc += 1
                if v["status"] != "discharged":
                    fails.append(v)
        if fails:
            out += fails
        else:
            out.append(ob(f"{tag}/ensures.anchor_and_scale_law/{sid}", "discharged", engine="symrun", backend="gb+z3",
                          evaluations=n_vc, nontrivial=n_vc, sample={"n": n, "edges": edges, "m": m, "paths": len(paths), "vcs": n_vc}))
        if paths and paths[0].exc is None:
            p0 = paths[0]
            I3 = spec.ident()
            hint = [F[r_][c_] == I3[r_][c_] for (_a, F, _b) in p0.result["stubs"].cb_calls for r_ in range(3) for c_ in range(3)]
            hint += [SV == z3.Q(1, 2)] + [z3.Real(f"q_0_{c_}") == 5 for c_ in range(3)] + [z3.Real(f"p_{i_}_{c_}") == i_ + c_ for i_ in range(n) for c_ in range(3)]
            out.append(core.must_fail(f"{tag}/guard.must-fail/{sid}", _sel_frames(p0.hyps()),
                                      p0.result["out"][0] == Pt("q", 0)[0], timeout_ms=4000, hint=hint))
    return out


_LEM2 = {}


def norm_lemmas(prefix):
    """Lemmas over the calcule_base contract (generic symbols, proved once per process):
       N1  F' orthonormal rows:  |sum_r c_r F'_r|^2 = |c|^2
       N2  F' orthonormal rows:  (sum_r c_r F'_r) . F'_0 = c_0
       N3  F  orthonormal rows and columns:  |s F w|^2 = s^2 |w|^2"""
    if "obs" not in _LEM2:
        F = [[z3.Real(f"nl_f{r}{c}") for c in range(3)] for r in range(3)]
        cc = [z3.Real(f"nl_c{k}") for k in range(3)]
        w = [z3.Real(f"nl_w{k}") for k in range(3)]
        s_ = z3.Real("nl_s")
        hy = H.frame_hyps(F) + H.columns_orthonormal(F)
        comb = _comb(F, cc)
        obs = [discharge(f"{prefix}/lemma.N1_norm_of_combination_of_frame_vectors", hy, spec.norm2(comb) == spec.norm2(cc),
                         backends=("gb", "z3"), engine="symrun", timeout_ms=30000),
               discharge(f"{prefix}/lemma.N2_component_along_first_frame_vector", hy, spec.dot(comb, F[0]) == cc[0],
                         backends=("gb", "z3"), engine="symrun", timeout_ms=30000),
               discharge(f"{prefix}/lemma.N3_projection_scales_norm_by_s", hy,
                         spec.norm2([s_ * spec.dot(F[r], w) for r in range(3)]) == s_ * s_ * spec.norm2(w),
                         backends=("gb", "z3"), engine="symrun", timeout_ms=30000)]
        _LEM2["obs"] = obs
        _LEM2["ok"] = all(o["status"] == "discharged" for o in obs)
    return _LEM2["obs"], _LEM2["ok"]


def _comb(F, cc):
    return [sum((cc[r] * F[r][k] for r in range(1, 3)), cc[0] * F[0][k]) for k in range(3)]


def _proj(F, w, s_):
    return [s_ * spec.dot(F[r], w) for r in range(3)]


def _frames_for(st, n_init, anchor_pt_init, anchor_pt_call):
    """(construction frame, call frame) of an anchor"""
    F0 = F1 = None
    for (pts9, F, _p) in st.cb_calls[:n_init]:
        if all(x.eq(y) for x, y in zip(pts9[:3], anchor_pt_init)):
            F0 = F
    for (pts9, F, _p) in st.cb_calls[n_init:]:
        if all(z3.simplify(x - y).eq(z3.RealVal(0)) for x, y in zip(pts9[:3], anchor_pt_call)):
            F1 = F
    return F0, F1


def _second_fresh(c, ref):
    return S.mat("pp", len(ref))


def task_deform(prop, part, nparts, tier, seed):
    """C03: arbitrary new conformation P' of the reference"""
    out = []
    tag = f"{prop}/ExchangeMap.__call__"
    lem_obs, lemma_ok = norm_lemmas(f"{prop}/lemma")
    if part == 0:
        out += lem_obs
    for (n, edges, m) in structures(tier, seed, prop)[part::nparts]:
        sid = _sid(n, edges, m)
        try:
            paths, ref, tgt = glue_paths(n, edges, m, second=_second_fresh)
        except S.SymError as e:
            out.append(ob(f"{tag}/symbolic-run/{sid}", "undecided", engine="symrun", reason=str(e)))
            continue
        cexb = _law_cex(n, edges, m, "deform")
        anchors = H.degree2(n, edges)
        nb = H.neighbours(n, edges)
        fails, n_vc = [], 0
        for pi, p_ in enumerate(paths):
            if p_.exc is not None:
                fails.append(ob(f"{tag}/no-exception/{sid}", "refuted", engine="symrun", reason=f"real code raises {p_.exc!r}",
                                cex={"fn": "deform", "n": n, "edges": [list(e) for e in edges], "m": m, "signature": "raises"}))
                break
            r = p_.result
            hy = p_.hyps()
            st = r["stubs"]
            # frames: anchor + its two lowest-numbered bonded atoms, at construction (P) and at the call (P')
            for which, base, calls in (("construction", "p", st.cb_calls[:r["n_cb_init"]]), ("call", "pp", st.cb_calls[r["n_cb_init"]:])):
                exp = [Pt(base, a) + Pt(base, sorted(nb[a])[0]) + Pt(base, sorted(nb[a])[1]) for a in anchors]
                got = [c_[0] for c_ in calls]
                good = len(got) == len(exp) and all(all(x.eq(y) for x, y in zip(g_, e_)) for g_, e_ in zip(got, exp))
                if not good:
                    fails.append(ob(f"{tag}/ensures.frame_from_anchor_and_its_two_lowest_numbered_bonded_atoms[{which}]/{sid}", "refuted",
                                    engine="symrun", backend="structure", reason=f"calcule_base called on {len(got)} triples, anchors {anchors}",
                                    cex={"fn": "deform", "n": n, "edges": [list(e) for e in edges], "m": m, "signature": "frames"}))
            if fails:
                break
            outv = [[r["out"][3 * j + c] for c in range(3)] for j in range(m)]
            for j in range(m):
                k = r["eq"][j]
                a, a2, q = Pt("p", k), Pt("pp", k), Pt("q", j)
                F0, F1 = _frames_for(st, r["n_cb_init"], a, a2)
                if F0 is None or F1 is None:
                    fails.append(ob(f"{tag}/ensures.anchor_frame_recomputed_from_argument/{sid}/path{pi}", "refuted", engine="symrun",
                                    cex={"fn": "deform", "n": n, "edges": [list(e) for e in edges], "m": m, "signature": "frames"}))
                    continue
                # locality: the mapped atom is a function of the new positions of anchor, and its two frame neighbours only
                allowed = {f"pp_{i}_{c}" for i in [k] + sorted(nb[k])[:2] for c in range(3)}
                used = {nm for x in outv[j] for nm in core.free_consts(x) if nm.startswith("pp_")}
                good = used <= allowed
                n_vc += 1
                if not good:
                    fails.append(ob(f"{tag}/ensures.depends_only_on_anchor_and_its_two_frame_neighbours[{j}]/{sid}/path{pi}", "refuted",
                                    engine="symrun", backend="free-symbols", reason=f"mapped atom {j} depends on {sorted(used - allowed)}",
                                    cex={"fn": "deform", "n": n, "edges": [list(e) for e in edges], "m": m, "signature": "locality"}))
                w = spec.sub(q, a)
                pr = _proj(F0, w, SV)
                inst = []
                if lemma_ok and _has_all(hy, H.frame_hyps(F0) + H.columns_orthonormal(F0) + H.frame_hyps(F1)):
                    inst = [spec.norm2(_comb(F1, pr)) == spec.norm2(pr), spec.norm2(pr) == SV * SV * spec.norm2(w)]
                goal = spec.norm2(spec.sub(outv[j], a2)) == SV * SV * spec.norm2(w)
                v = cert_discharge(f"{tag}/ensures.distance_to_anchor_is_s_times_construction_distance[{j}]/{sid}/path{pi}", inst, goal,
                                   cex_builder=cexb)
                n_vc += 1
                if v["status"] != "discharged":
                    fails.append(v)
                for i in range(j):
                    if r["eq"][i] != k:
                        continue
                    w2 = spec.sub(Pt("q", i), q)
                    pr2 = _proj(F0, w2, SV)
                    inst2 = []
                    if inst:
                        inst2 = [spec.norm2(_comb(F1, pr2)) == spec.norm2(pr2), spec.norm2(pr2) == SV * SV * spec.norm2(w2)]
                    goal2 = spec.norm2(spec.sub(outv[i], outv[j])) == SV * SV * spec.norm2(w2)
                    v = cert_discharge(f"{tag}/ensures.atoms_sharing_an_anchor_keep_mutual_distance_times_s[{i},{j}]/{sid}/path{pi}", inst2, goal2,
                                       cex_builder=cexb)
                    n_vc += 1
                    if v["status"] != "discharged":
                        fails.append(v)
            for who, eqs_ in r["frame"].items():
                v = discharge(f"{tag}/frame.{who}_coordinates_unchanged/{sid}/path{pi}", hy, z3.And(*eqs_), backends=("z3",), cex_builder=cexb)
                n_vc += 1
                if v["status"] != "discharged":
                    fails.append(v)
        if fails:
            out += fails
        else:
            out.append(ob(f"{tag}/ensures.local_and_shape_preserving/{sid}", "discharged", engine="symrun", backend="gb+z3",
                          evaluations=n_vc, nontrivial=n_vc, sample={"n": n, "edges": edges, "m": m, "paths": len(paths), "vcs": n_vc}))
    return out


RM = [[z3.Real(f"R_{i}_{j}") for j in range(3)] for i in range(3)]
TV = [z3.Real(f"t_{k}") for k in range(3)]


def _second_rigid(c, ref):
    P = ref.atoms_positions
    R = S.mat("R", 3, 3)
    t = S.vec("t")
    return np.dot(P, R.T) + t


def _rot(v):
    return [spec.dot(RM[c], v) for c in range(3)]


def _moved(pt):
    return [x + TV[c] for c, x in enumerate(_rot(pt))]


_LEM3 = {}


def so3_lemmas(prefix):
    """SO(3) lemma (generic symbols, once per process): |R d|^2 = |d|^2; and the logical lemma I3"""
    if "obs" not in _LEM3:
        d = [z3.Real(f"so_d{k}") for k in range(3)]
        hy = spec.is_rotation_hyps(RM)
        obs = [discharge(f"{prefix}/lemma.rotation_preserves_norm", hy, spec.norm2(_rot(d)) == spec.norm2(d), backends=("gb", "z3"),
                         engine="symrun", timeout_ms=30000)]
        A, B_, C, D = z3.Reals("i3_A i3_B i3_C i3_D")
        obs.append(discharge(f"{prefix}/lemma.I3_distance_from_axis_follows_from_I1_and_I2", [A == B_, C == D], A - C * C == B_ - D * D,
                             backends=("z3",), engine="symrun"))
        _LEM3["obs"] = obs
        _LEM3["ok"] = all(o["status"] == "discharged" for o in obs)
    return _LEM3["obs"], _LEM3["ok"]


def _rigid_invariants(tag, sid, pi, hy, F0, F1, v_first, v_second, pr, lemma_ok, cexb, with_axis=True):
    """I1 distance to the anchor, I2 coordinate along the axis (first frame vector), for any two orthonormal frames
    that restore the same stored projection pr: v = sum_r pr_r F_r"""
    out = []
    ok = lemma_ok and _has_all(hy, H.frame_hyps(F0) + H.frame_hyps(F1))
    i1 = [spec.norm2(_comb(F1, pr)) == spec.norm2(pr), spec.norm2(_comb(F0, pr)) == spec.norm2(pr)] if ok else []
    goal = spec.norm2(v_second) == spec.norm2(v_first)
    out.append(_cert_pm(f"{tag}/ensures.distance_to_anchor_preserved/{sid}/path{pi}", i1, goal, cexb))
    if with_axis:
        i2 = [spec.dot(_comb(F1, pr), F1[0]) == pr[0], spec.dot(_comb(F0, pr), F0[0]) == pr[0]] if ok else []
        goal = spec.dot(v_second, F1[0]) == spec.dot(v_first, F0[0])
        out.append(_cert_pm(f"{tag}/ensures.coordinate_along_axis_preserved/{sid}/path{pi}", i2, goal, cexb))
    return out


def _cert_pm(oid, insts, goal, cexb):
    """goal = inst[0] - inst[1] (as polynomial identity)"""
    if len(insts) == 2:
        v = BK.cert_check(insts, goal, [(z3.RealVal(1), insts[0]), (z3.RealVal(-1), insts[1])])
        if v.status == "discharged":
            return ob(oid, "discharged", engine="symrun", backend="cert", secs=v.secs, sample={"goal": core.short(goal)})
    return discharge(oid, insts, goal, backends=("z3",), timeout_ms=3000, cex_builder=cexb)


def task_rigid(prop, part, nparts, tier, seed):
    """C02: map(R ref + t) vs R map(ref) + t for references of >= 3 atoms"""
    out = []
    tag = f"{prop}/ExchangeMap.__call__"
    l1, ok1 = norm_lemmas(f"{prop}/lemma")
    l2, ok2 = so3_lemmas(f"{prop}/lemma")
    if part == 0:
        out += l1 + l2
    so3 = spec.is_rotation_hyps(RM)
    small = [(2, [(0, 1)], 1), (2, [(0, 1)], 2), (1, [], 1), (1, [], 2)]
    for si, (n, edges, m) in enumerate((small + structures(tier, seed, prop))[part::nparts]):
        sid = _sid(n, edges, m)
        axis_script = True
        try:
            paths, ref, tgt = glue_paths(n, edges, m, second=_second_rigid, also_first=True, extra_pre=so3)
        except S.SymError as e:
            out.append(ob(f"{tag}/symbolic-run/{sid}", "undecided", engine="symrun", reason=str(e)))
            continue
        cexb = _law_cex(n, edges, m, "rigid")
        nb = H.neighbours(n, edges)
        fails, n_vc = [], 0
        for pi, p_ in enumerate(paths):
            if p_.exc is not None:
                fails.append(ob(f"{tag}/no-exception/{sid}", "refuted", engine="symrun", reason=f"real code raises {p_.exc!r}",
                                cex={"fn": "rigid", "n": n, "edges": [list(e) for e in edges], "m": m, "signature": "raises"}))
                break
            r = p_.result
            hy = p_.hyps()
            st = r["stubs"]
            for j in range(m):
                k = r["eq"][j]
                a, q = Pt("p", k), Pt("q", j)
                a2 = _moved(a)
                F0 = F1 = None
                for (pts9, F, _p) in st.cb_calls[r["n_cb_init"]:r["n_cb_first"]]:
                    if all(x.eq(y) for x, y in zip(pts9[:3], a)):
                        F0 = F
                idx1 = None
                for ci, (pts9, F, _p) in enumerate(st.cb_calls[r["n_cb_first"]:]):
                    if all(z3.simplify(x - y).eq(z3.RealVal(0)) for x, y in zip(pts9[:3], a2)):
                        F1, idx1 = F, r["n_cb_first"] + ci
                Fc = _frame_of(st, a, which="first")
                if F0 is None or F1 is None or Fc is None:
                    fails.append(ob(f"{tag}/ensures.anchor_frame_recomputed_from_argument/{sid}/path{pi}", "refuted", engine="symrun",
                                    cex={"fn": "rigid", "n": n, "edges": [list(e) for e in edges], "m": m, "signature": "frames"}))
                    continue
                if n == 2 and j == 0:
                    # the only direction a two-atom reference defines is its bond: the frame's first vector must be built from it
                    # (third point handed to calcule_base = the second atom), at construction and on every call
                    for ci, (pts9, F, _p) in enumerate(st.cb_calls):
                        exp3 = Pt("p", 1) if ci < r["n_cb_first"] else _moved(Pt("p", 1))
                        okb = all(z3.simplify(x - y).eq(z3.RealVal(0)) for x, y in zip(pts9[6:9], exp3))
                        n_vc += 1
                        if not okb:
                            # informational (another argument order may still define the bond axis): the deciding clauses are the
                            # invariants below and the real-code twin on two-atom references
                            fails.append(ob(f"{tag}/callsite.two_atom_reference_frame_axis_built_from_the_bond[call{ci}]/{sid}/path{pi}", "undecided",
                                            engine="symrun", backend="structure",
                                            reason="the third point given to calcule_base (end of the first frame vector) is not the second atom: "
                                                   "frame axis not recognised as the bond by the structural check"))
                pr = _proj(Fc, spec.sub(q, a), SV)
                o1 = [r["out_first"][3 * j + c] for c in range(3)]
                o2 = [r["out"][3 * j + c] for c in range(3)]
                # (i) generic anchors: with the equivariance clause of calcule_base (frame rows rotate with the points)
                equiv = {(rr, c): F1[rr][c] == spec.dot(RM[c], F0[rr]) for rr in range(3) for c in range(3)}
                mo1 = _moved(o1)
                okc = True
                if n < 3:
                    equiv = None
                tcert = 0.0
                for c in range(3) if equiv else ():
                    # certificate: o2_c - (R o1 + t)_c = sum_r pr_r * (F1_rc - (R F0_r)_c)
                    vv = BK.cert_check(list(equiv.values()), o2[c] == mo1[c], [(pr[rr], equiv[(rr, c)]) for rr in range(3)])
                    tcert += vv.secs
                    okc = okc and vv.status == "discharged"
                oid = f"{tag}/ensures.commutes_with_rigid_motion(generic anchor, by calcule_base equivariance)[{j}]/{sid}/path{pi}"
                if equiv is None:
                    v = {"status": "discharged"}
                    n_vc -= 1
                elif okc:
                    v = ob(oid, "discharged", engine="symrun", backend="cert", secs=tcert)
                else:
                    v = discharge(oid, list(equiv.values()), z3.And(*[o2[c] == mo1[c] for c in range(3)]), backends=("z3",),
                                  timeout_ms=3000, cex_builder=cexb)
                n_vc += 1
                if v["status"] != "discharged":
                    fails.append(v)
                # (ii) every anchor, collinear or not: invariants that need orthonormality only
                for v in _rigid_invariants(tag, sid, f"{pi}[{j}]", hy, F0, F1, spec.sub(o1, a), spec.sub(o2, a2), pr, ok1, cexb,
                                           with_axis=(n >= 2)):
                    n_vc += 1
                    if v["status"] != "discharged":
                        fails.append(v)
                # (iii) the axis (first frame vector) itself moves rigidly: F1_0 = R F0_0
                r0 = st.cb_norms[[i for i, c_ in enumerate(st.cb_calls) if c_[1] is F0][0]]
                r1 = st.cb_norms[idx1]
                if n == 1:
                    axis_script = False
                if ok2 and r0 is not None and r1 is not None and axis_script:
                    n2 = sorted(nb[k])[1] if n >= 3 else 1
                    ds0 = spec.sub(Pt("p", n2), a)                       # third - first point at P (as the stub formed it)
                    i1 = [i for i, c_ in enumerate(st.cb_calls) if c_[1] is F1][0]
                    pts1 = st.cb_calls[i1][0]
                    ds1 = [pts1[6 + c] - pts1[c] for c in range(3)]      # third - first point at R P + t
                    G0, G1 = z3.Real("ghost_d0sq"), z3.Real("ghost_d1sq")
                    gdefs = [G0 == spec.norm2(ds0), G1 == spec.norm2(ds1)]
                    prf = Proof(f"{tag}/ensures.axis_moves_rigidly[{j}]/{sid}/path{pi}", hy + gdefs, cex_builder=cexb, timeout_ms=5000)
                    binst = spec.norm2(_rot(ds0)) == spec.norm2(ds0)
                    prf.have("rotation_preserves_this_difference", binst, by=so3, backends=("gb",))
                    # G1 - G0 = (G1 - |ds1|^2) + (|ds1|^2 - |R ds0|^2)[identically 0] + (|R ds0|^2 - |ds0|^2) + (|ds0|^2 - G0)
                    prf.have_cert("squared_lengths_equal", G1 == G0, [(z3.RealVal(1), gdefs[1]), (z3.RealVal(1), binst), (z3.RealVal(-1), gdefs[0])])
                    prf.have("r0_sq", r0 * r0 == G0, by=[r0 * r0 == spec.norm2(ds0), gdefs[0]], backends=("z3",))
                    prf.have("r1_sq", r1 * r1 == G1, by=[r1 * r1 == spec.norm2(ds1), gdefs[1]], backends=("z3",))
                    prf.have("same_length", r1 == r0, by=[r0 > 0, r1 > 0], use=["squared_lengths_equal", "r0_sq", "r1_sq"], backends=("z3", "nlsat"))
                    lin = [F0[0][c] * r0 == ds0[c] for c in range(3)] + [F1[0][c] * r1 == ds1[c] for c in range(3)]
                    prf.have("r0_nonzero", r0 != 0, by=[r0 > 0], backends=("z3",))
                    prf.have("first_vector_rotates", z3.And(*[F1[0][c] == spec.dot(RM[c], F0[0]) for c in range(3)]),
                             by=lin, use=["same_length", "r0_nonzero"], backends=("gb", "z3"))
                    for o_ in prf.obs:
                        n_vc += 1
                        if o_["status"] != "discharged":
                            fails.append(o_)
            for who, eqs_ in r["frame"].items():
                v = discharge(f"{tag}/frame.{who}_coordinates_unchanged/{sid}/path{pi}", hy, z3.And(*eqs_), backends=("z3",), cex_builder=cexb)
                n_vc += 1
                if v["status"] != "discharged":
                    fails.append(v)
        if fails:
            out += fails
        else:
            out.append(ob(f"{tag}/ensures.commutes_with_rigid_motion/{sid}", "discharged", engine="symrun", backend="z3+gb+cert",
                          evaluations=n_vc, nontrivial=n_vc, sample={"n": n, "edges": edges, "m": m, "paths": len(paths), "vcs": n_vc}))
    return out


def task_cb_equivariance(prop, seed):
    """The clause of calcule_base's contract that C02 relies on, proved on the REAL function: for non-collinear points
    (the branch the real code takes on p) and R in SO(3), t:  calcule_base(R p + t) = (R v1, R v2, R v3), and the second
    run takes the same (non-collinear) branch.  Two symbolic runs of the real code in one context; scripted proof."""
    import gaddlemaps._auxilliary as aux
    tag = f"{prop}/calcule_base/equivariance"
    so3 = spec.is_rotation_hyps(RM)
    PP = [[z3.Real(f"p{k}_{i}") for i in range(3)] for k in range(3)]

    def run(c):
        pts = [S.vec(f"p{k}") for k in range(3)]
        R = S.mat("R", 3, 3)
        t = S.vec("t")
        pts2 = [np.dot(R, p_) + t for p_ in pts]
        (v1, v2, v3), o = aux.calcule_base(pts)
        n1 = len(c.events)
        (w1, w2, w3), o2 = aux.calcule_base(pts2)
        return [S.terms(x) for x in (v1, v2, v3)], [S.terms(x) for x in (w1, w2, w3)], n1, [S.terms(x) for x in pts2]

    pre = so3 + [z3.Or(*[PP[0][i] != PP[2][i] for i in range(3)])]
    try:
        with S.patched(aux, np=S.NumpyFacade()):
            paths = S.explore(run, assumptions=pre, max_paths=64, feas_timeout_ms=1500)
    except S.SymError as e:
        return [ob(f"{tag}/symbolic-run", "undecided", engine="symrun", reason=str(e))]
    out = [ob(f"{tag}/paths-enumerated", "discharged" if 1 <= len(paths) <= 40 else "undecided", engine="symrun", backend="explorer",
              sample={"paths": len(paths)})]
    cex = {"fn": "cb_equiv", "signature": "equivariance"}

    def parts(evs):
        sq = [e_ for e_ in evs if e_[0] == "sqrt"]
        dv = [e_ for e_ in evs if e_[0] == "div"]
        return dict(r1=sq[0][2], n3=sq[1][2], ne=sq[2][2], q1=[d_[3] for d_ in dv[:3]], q3=[d_[3] for d_ in dv[3:6]],
                    r1arg=sq[0][1], n3arg=sq[1][1], nearg=sq[2][1], dv=dv)

    n_generic = 0
    for p_ in paths:
        if p_.exc is not None or not p_.decisions or p_.decisions[0] is True:
            continue            # first run collinear: outside the clause's precondition
        V, W, n1, pts2 = p_.result
        ev = p_.ctx.events
        hy = p_.hyps()
        A, B2 = parts(ev[:n1]), parts(ev[n1:])
        ptag = "path[" + "".join("T" if x else "F" for x in p_.decisions) + "]"
        d = spec.sub(PP[2], PP[0])
        e = spec.sub(PP[1], PP[0])
        d2 = spec.sub(pts2[2], pts2[0])
        e2 = spec.sub(pts2[1], pts2[0])
        G = {k: z3.Real("ghost_" + k) for k in ("d0", "d1", "c0", "c1", "e0", "e1")}
        gdefs = {"d0": G["d0"] == A["r1arg"], "d1": G["d1"] == B2["r1arg"], "c0": G["c0"] == A["n3arg"], "c1": G["c1"] == B2["n3arg"],
                 "e0": G["e0"] == A["nearg"], "e1": G["e1"] == B2["nearg"]}
        pr = Proof(f"{tag}/{ptag}", hy + list(gdefs.values()), cex_builder=lambda m: cex, timeout_ms=8000)

        def same_len(name, ra, rb, ka, kb, sq_equal_by, sq_goal_parts):
            """rb == ra from rb^2 = G[kb], ra^2 = G[ka], G[kb] == G[ka]"""
            ok = sq_equal_by()
            pr.have(f"{name}/ra_sq", ra * ra == G[ka], by=[h for h in hy if str(ra) in core.free_consts(h)] + [gdefs[ka]], backends=("z3",))
            pr.have(f"{name}/rb_sq", rb * rb == G[kb], by=[h for h in hy if str(rb) in core.free_consts(h)] + [gdefs[kb]], backends=("z3",))
            return pr.have(f"{name}/same", rb == ra, by=[ra >= 0, rb >= 0], use=[f"{name}/sq_equal", f"{name}/ra_sq", f"{name}/rb_sq"],
                           backends=("z3", "nlsat"))

        # |d'|^2 = |d|^2 : d' is polynomially R d
        def sq_d():
            inst = spec.norm2(_rot(d)) == spec.norm2(d)
            pr.have("r1/rot_norm", inst, by=so3, backends=("gb",))
            return pr.have_cert("r1/sq_equal", G["d1"] == G["d0"], [(z3.RealVal(1), gdefs["d1"]), (z3.RealVal(1), inst), (z3.RealVal(-1), gdefs["d0"])])
        same_len("r1", A["r1"], B2["r1"], "d0", "d1", sq_d, None)
        lin = [A["q1"][k] * A["r1"] == d[k] for k in range(3)] + [B2["q1"][k] * B2["r1"] == d2[k] for k in range(3)]
        pr.have("q1/definitions", z3.And(*lin), backends=("z3",))
        pr.have("r1/nonzero", A["r1"] != 0, backends=("z3",))
        q1rot = [B2["q1"][c] == spec.dot(RM[c], A["q1"]) for c in range(3)]
        pr.have("q1/rotates", z3.And(*q1rot), by=lin, use=["r1/same", "r1/nonzero"], backends=("gb", "z3"))
        # |e'|^2 = |e|^2
        def sq_e():
            inst = spec.norm2(_rot(e)) == spec.norm2(e)
            pr.have("ne/rot_norm", inst, by=so3, backends=("gb",))
            return pr.have_cert("ne/sq_equal", G["e1"] == G["e0"], [(z3.RealVal(1), gdefs["e1"]), (z3.RealVal(1), inst), (z3.RealVal(-1), gdefs["e0"])])
        same_len("ne", A["ne"], B2["ne"], "e0", "e1", sq_e, None)
        # c' = q1' x e' = R (q1 x e)   and   |c'|^2 = |c|^2
        c1v = spec.cross(A["q1"], e)
        c2v = spec.cross(B2["q1"], e2)
        crot = [c2v[c] == spec.dot(RM[c], c1v) for c in range(3)]
        pr.have("c/rotates", z3.And(*crot), by=so3, use=["q1/rotates"], backends=("gb",))

        GX = [z3.Real(f"gen_x{k}") for k in range(3)]
        pr.have_generic("lemma/rot_norm", spec.norm2(_rot(GX)) == spec.norm2(GX), by=so3, backends=("gb",))

        def sq_c():
            rc = _rot(c1v)
            pr.have_instance("n3/rot_norm_instance", "lemma/rot_norm", list(zip(GX, c1v)))
            inst = pr.facts.get("n3/rot_norm_instance")
            if inst is None:
                return False
            # G_c1 - G_c0 = (G_c1 - |c'|^2) + sum_k (c'_k + (Rc)_k)(c'_k - (Rc)_k) + (|Rc|^2 - |c|^2) + (|c|^2 - G_c0)
            pr.facts.update({f"c/rot[{k}]": crot[k] for k in range(3)} if "c/rotates" in pr.facts else {})
            combos = [(z3.RealVal(1), gdefs["c1"]), (z3.RealVal(1), inst), (z3.RealVal(-1), gdefs["c0"])]
            combos += [(c2v[k] + rc[k], crot[k]) for k in range(3)]
            return pr.have_cert("n3/sq_equal", G["c1"] == G["c0"], combos)
        same_len("n3", A["n3"], B2["n3"], "c0", "c1", sq_c, None)
        generic2 = len(p_.decisions) == 2 and p_.decisions[1] is False
        if not generic2:
            # the second run claims to be collinear although the first is not: infeasible
            okf = pr.have("second_run_takes_the_same_branch(path infeasible)", z3.BoolVal(False), by=list(p_.ctx.pc),
                          use=["n3/same", "ne/same"], backends=("z3", "nlsat"))
            out += pr.obs
            continue
        n_generic += 1
        pr.have("n3/nonzero", A["n3"] != 0, by=list(p_.ctx.pc) + [A["ne"] >= 0, A["n3"] >= 0], backends=("z3",))
        lin3 = [A["q3"][k] * A["n3"] == c1v[k] for k in range(3)] + [B2["q3"][k] * B2["n3"] == c2v[k] for k in range(3)]
        pr.have("q3/definitions", z3.And(*lin3), backends=("z3",))
        q3rot = [B2["q3"][c] == spec.dot(RM[c], A["q3"]) for c in range(3)]
        # n3 * (q3'_c - (R q3)_c) == 0 by an explicit certificate, then cancel n3 != 0
        okq3 = True
        for c in range(3):
            Xc = B2["q3"][c] - spec.dot(RM[c], A["q3"])
            H1 = pr.facts.get("n3/same")
            if H1 is None or "c/rotates" not in pr.facts:
                okq3 = False
                break
            H2 = B2["q3"][c] * B2["n3"] == c2v[c]
            H4 = [A["q3"][m_] * A["n3"] == c1v[m_] for m_ in range(3)]
            combos = [(z3.RealVal(1), H2), (-B2["q3"][c], H1), (z3.RealVal(1), crot[c])] + [(-RM[c][m_], H4[m_]) for m_ in range(3)]
            pr.facts.setdefault(f"c/rot[{c}]", crot[c])
            pr.facts.setdefault(f"q3/def2[{c}]", H2)
            for m_ in range(3):
                pr.facts.setdefault(f"q3/def1[{m_}]", H4[m_])
            okq3 = pr.have_cert(f"q3/n3_times_difference_is_zero[{c}]", A["n3"] * Xc == 0, combos) and okq3
            Y = z3.Real(f"ghost_q3diff{c}")
            okq3 = pr.have(f"q3/rotates[{c}]", Xc == 0, by=[A["n3"] * Xc == 0, A["n3"] != 0], backends=("z3", "nlsat")) and okq3
        if okq3:
            pr.have("q3/rotates", z3.And(*q3rot), by=[], use=[f"q3/rotates[{c}]" for c in range(3)], backends=("z3",))
        # final: the three returned vectors
        pr.have("ensures.first_vector_rotates", z3.And(*[W[0][c] == spec.dot(RM[c], V[0]) for c in range(3)]), by=[], use=["q1/rotates"],
                backends=("z3", "gb"))
        pr.have("ensures.third_vector_rotates", z3.And(*[W[2][c] == spec.dot(RM[c], V[2]) for c in range(3)]), by=[], use=["q3/rotates"],
                backends=("z3", "gb"))
        pr.have("ensures.second_vector_rotates", z3.And(*[W[1][c] == spec.dot(RM[c], V[1]) for c in range(3)]), by=so3,
                use=["q1/rotates", "q3/rotates"], backends=("gb",))
        out += pr.obs
        I3 = spec.ident()
        hint = [RM[i][j] == I3[i][j] for i in range(3) for j in range(3)] + [TV[k] == 0 for k in range(3)]
        hint += [PP[0][k] == 0 for k in range(3)] + [PP[1][0] == 0, PP[1][1] == 1, PP[1][2] == 0, PP[2][0] == 1, PP[2][1] == 0, PP[2][2] == 0]
        m = core.get_model(hy, extra=hint, timeout_ms=10000) or core.get_model(hy, timeout_ms=5000)
        out.append(ob(f"{tag}/{ptag}/guard.path-satisfiable", "discharged" if m is not None else "undecided", kind="guard", engine="symrun",
                      backend="z3", expect="discharged"))
    if n_generic != 1:
        out.append(ob(f"{tag}/generic-path-found", "undecided", engine="symrun", reason=f"{n_generic} (generic, generic) paths"))
    return out


def task_history(prop, part, nparts, tier, seed):
    """C04 single-step obligation: from ANY prior content of the per-anchor frames (fresh junk symbols = any call history),
    __call__(arg) returns the value determined by the construction-time data and arg alone; frames of the argument,
    the construction molecules untouched; result is a new object."""
    out = []
    tag = f"{prop}/ExchangeMap.__call__"
    for (n, edges, m) in structures(tier, seed, prop)[part::nparts]:
        sid = _sid(n, edges, m)
        try:
            paths, ref, tgt = glue_paths(n, edges, m, second=_second_fresh, junk_frames=True)
        except S.SymError as e:
            out.append(ob(f"{tag}/symbolic-run/{sid}", "undecided", engine="symrun", reason=str(e)))
            continue
        cexb = _law_cex(n, edges, m, "history")
        nb = H.neighbours(n, edges)
        fails, n_vc = [], 0
        for pi, p_ in enumerate(paths):
            if p_.exc is not None:
                fails.append(ob(f"{tag}/no-exception/{sid}", "refuted", engine="symrun", reason=f"real code raises {p_.exc!r}",
                                cex={"fn": "history", "n": n, "edges": [list(e) for e in edges], "m": m, "signature": "raises"}))
                break
            r = p_.result
            hy = p_.hyps()
            st = r["stubs"]
            for j in range(m):
                k = r["eq"][j]
                a, a2, q = Pt("p", k), Pt("pp", k), Pt("q", j)
                o2 = [r["out"][3 * j + c] for c in range(3)]
                used = {nm for x in o2 for nm in core.free_consts(x) if nm.startswith("junk")}
                n_vc += 1
                if used:
                    fails.append(ob(f"{tag}/ensures.result_independent_of_earlier_calls[{j}]/{sid}/path{pi}", "refuted", engine="symrun",
                                    backend="free-symbols", reason=f"mapped atom {j} depends on frames left by earlier calls: {sorted(used)[:4]}",
                                    cex={"fn": "history", "n": n, "edges": [list(e) for e in edges], "m": m, "signature": "stale-frames"}))
                    continue
                F0, F1 = _frames_for(st, r["n_cb_init"], a, a2)
                if F0 is None or F1 is None:
                    fails.append(ob(f"{tag}/ensures.anchor_frame_recomputed_from_argument/{sid}/path{pi}", "refuted", engine="symrun",
                                    cex={"fn": "history", "n": n, "edges": [list(e) for e in edges], "m": m, "signature": "frames"}))
                    continue
                pr = _proj(F0, spec.sub(q, a), SV)
                exp = [a2[c] + _comb(F1, pr)[c] for c in range(3)]
                v = discharge(f"{tag}/ensures.result_determined_by_construction_data_and_argument[{j}]/{sid}/path{pi}", [],
                              z3.And(*[o2[c] == exp[c] for c in range(3)]), backends=("z3",), timeout_ms=5000, cex_builder=cexb)
                n_vc += 1
                if v["status"] != "discharged":
                    fails.append(v)
            for who, eqs_ in r["frame"].items():
                v = discharge(f"{tag}/frame.{who}_coordinates_unchanged/{sid}/path{pi}", hy, z3.And(*eqs_), backends=("z3",), cex_builder=cexb)
                n_vc += 1
                if v["status"] != "discharged":
                    fails.append(v)
            n_vc += 1
            if r["shares"]:
                fails.append(ob(f"{tag}/frame.result_shares_no_coordinate_array_with_inputs/{sid}/path{pi}", "refuted", engine="symrun",
                                backend="numpy.shares_memory", cex={"fn": "history", "n": n, "edges": [list(e) for e in edges], "m": m, "signature": "aliasing"}))
            res, arg = r["res"], r["arg"]
            names_ok = [a_.name for a_ in res] == [a_.name for a_ in tgt] and res.resnames == tgt.resnames and len(res) == len(tgt)
            n_vc += 1
            if not names_ok:
                fails.append(ob(f"{tag}/ensures.result_has_target_names_count_and_order/{sid}/path{pi}", "refuted", engine="symrun",
                                backend="concrete", cex={"fn": "history", "n": n, "edges": [list(e) for e in edges], "m": m, "signature": "names"}))
        if fails:
            out += fails
        else:
            out.append(ob(f"{tag}/ensures.single_step_pure_and_history_independent/{sid}", "discharged", engine="symrun", backend="z3",
                          evaluations=n_vc, nontrivial=n_vc, sample={"n": n, "edges": edges, "m": m, "paths": len(paths), "vcs": n_vc}))
    return out


# ---------------------------------------------------------------------------
# numeric twin on the real unstubbed code (also the replay oracle)


def _real_molecules(n, edges, m, P, Q):
    ref = H.ref_molecule(n, [tuple(e) for e in edges])
    tgt = H.tgt_molecule(m)
    ref.atoms_positions = np.array(P, dtype=float)
    tgt.atoms_positions = np.array(Q, dtype=float)
    return ref, tgt


def expected_anchor(n, edges, P, q):
    """independent oracle: the closest reference atom with >= 2 bonded neighbours (None if not unique within 1e-9)"""
    anchors = H.degree2(n, [tuple(e) for e in edges])
    d = sorted((float(np.linalg.norm(np.array(P[a]) - np.array(q))), a) for a in anchors)
    if len(d) > 1 and d[1][0] - d[0][0] <= 1e-12 * max(1.0, d[1][0]):
        return None          # an exact tie (to rounding): "the closest" is ambiguous
    return d[0][1]


def numeric_law(n, edges, m, P, Q, s, tol=1e-9):
    X = _X()
    ref, tgt = _real_molecules(n, edges, m, P, Q)
    P0, Q0 = ref.atoms_positions.copy(), tgt.atoms_positions.copy()
    with np.errstate(all="ignore"):
        xm = X.ExchangeMap(ref, tgt, s)
        res = xm(ref)
    out = np.asarray(res.atoms_positions, dtype=float)
    bad = []
    if not np.all(np.isfinite(out)):
        return ["non-finite mapped coordinates"]
    for j in range(m):
        a = expected_anchor(n, edges, P, Q[j])
        if a is None:
            continue
        exp = np.array(P[a]) + s * (np.array(Q[j]) - np.array(P[a]))
        sc = max(1.0, float(np.abs(exp).max()))
        if float(np.abs(out[j] - exp).max()) > tol * sc:
            bad.append(f"target atom {j} mapped to {out[j].tolist()}, a + s(q - a) = {exp.tolist()} (anchor {a}, s={s})")
    if not np.array_equal(ref.atoms_positions, P0) or not np.array_equal(tgt.atoms_positions, Q0):
        bad.append("construction molecules modified")
    return bad


def _geometries(rng, n, edges, kind):
    P = rng.uniform(-2, 2, size=(n, 3))
    if kind == "tiny-reference":
        # all reference atoms within ~1e-3 nm of each other (distinct positions, nearly coincident): bonds of 1e-4 .. 1e-3 nm
        return np.round(rng.uniform(-2, 2, size=3) * 4) / 4 + P * float(rng.choice([1e-3, 3e-4]))
    anchors = H.degree2(n, edges)
    nb = H.neighbours(n, edges)
    if kind != "generic" and anchors:
        a = anchors[int(rng.integers(0, len(anchors)))]
        n1, n2 = sorted(nb[a])[:2]
        if kind == "collinear-axis":
            dvec = np.eye(3)[int(rng.integers(0, 3))] * rng.choice([-1.0, 1.0])
        elif kind == "collinear-diagonal":
            dvec = rng.choice([-1.0, 1.0], 3)
        elif kind == "collinear-near-axis":
            dvec = np.eye(3)[int(rng.integers(0, 3))] * rng.choice([-1.0, 1.0]) + np.array([0.6, -0.8, 0.3]) * float(rng.choice([3e-7, 1e-6, 4e-5, 1e-3]))
        elif kind == "unit-neighbour-distance":
            # distances from the anchor to its frame neighbours equal or very close to 1 nm (special magnitude of a normalisation)
            u = rng.normal(size=3)
            u /= np.linalg.norm(u)
            w = rng.normal(size=3)
            w /= np.linalg.norm(w)
            P[a] = np.round(P[a] * 4) / 4
            P[n2] = P[a] + u * (1.0 + float(rng.choice([0.0, 1e-7, -3e-6, 9e-6])))
            P[n1] = P[a] + w * float(rng.choice([1.0, 1.0 + 3e-6, 0.6]))
            return P
        elif kind == "nearly-straight":
            # NOT collinear: the angle at the anchor differs from straight by a small but resolvable amount (sine 1e-5 .. 2e-2)
            dvec = rng.normal(size=3)
            dvec /= np.linalg.norm(dvec)
            if rng.integers(0, 3) == 0:
                dvec = np.eye(3)[int(rng.integers(0, 3))] * rng.choice([-1.0, 1.0])
            perp = np.cross(dvec, rng.normal(size=3))
            perp /= np.linalg.norm(perp)
            P[a] = np.round(P[a] * 4) / 4
            P[n1] = P[a] + dvec * 0.5
            P[n2] = P[a] - dvec * 0.75 + perp * 0.75 * float(rng.choice([1e-5, 1e-4, 5e-4, 3e-3, 2e-2]))
            return P
        else:
            dvec = rng.integers(-5, 6, 3).astype(float)
            if not dvec.any():
                dvec = np.array([1.0, 2.0, -1.0])
        P[a] = np.round(P[a] * 4) / 4
        P[n1] = P[a] + dvec * 0.5
        P[n2] = P[a] - dvec * 0.75
    return P


def _special_rot(rng):
    """rotations and translations with special structure: identity, half and quarter turns about coordinate axes, pure translation, pure rotation"""
    k = int(rng.integers(0, 6))
    R = np.eye(3)
    if k in (1, 2):
        ax = int(rng.integers(0, 3))
        ang = np.pi if k == 1 else np.pi / 2 * int(rng.choice([1, 3]))
        c, s_ = np.round(np.cos(ang)), np.round(np.sin(ang))
        i, j = [(1, 2), (2, 0), (0, 1)][ax]
        R[i, i], R[i, j], R[j, i], R[j, j] = c, -s_, s_, c
    elif k in (3, 4):
        R = _rand_rot(rng)
    t = np.zeros(3) if k in (0, 3) and rng.integers(0, 2) == 0 else rng.uniform(-30, 30, size=3)
    if k == 5:
        t = rng.integers(-5, 6, 3).astype(float)      # identity rotation, lattice-like translation
    return R, t


def _rand_rot(rng):
    q = rng.normal(size=4)
    q /= np.linalg.norm(q)
    w, x, y, z = q
    return np.array([[1 - 2 * (y * y + z * z), 2 * (x * y - z * w), 2 * (x * z + y * w)],
                     [2 * (x * y + z * w), 1 - 2 * (x * x + z * z), 2 * (y * z - x * w)],
                     [2 * (x * z - y * w), 2 * (y * z + x * w), 1 - 2 * (x * x + y * y)]])


def _frame_atoms(n, edges, a):
    """(anchor, first neighbour, axis atom) used by the statement: two lowest-numbered bonded atoms; 2-atom reference: the other atom"""
    if n == 2:
        return (0, None, 1)
    if n == 1:
        return (0, None, None)
    nbs = sorted(H.neighbours(n, edges)[a])
    return (a, nbs[0], nbs[1])


def _collinear(P, a, n1, n2, tol=1e-6):
    d, e = np.array(P[n2]) - np.array(P[a]), np.array(P[n1]) - np.array(P[a])
    return np.linalg.norm(np.cross(d, e)) <= tol * np.linalg.norm(d) * np.linalg.norm(e)


def _near_collinear(P, a, n1, n2):
    d, e = np.array(P[n2]) - np.array(P[a]), np.array(P[n1]) - np.array(P[a])
    x = np.linalg.norm(np.cross(d, e)) / (np.linalg.norm(d) * np.linalg.norm(e))
    return 1e-9 < x <= GENERIC_FROM


# sine of the angle between the two frame directions from which an anchor counts as "not collinear" in the bounded twin: the statement
# demands full equivariance for every anchor that is not EXACTLY collinear; float64 delivers 1e-8 nm only from about 2e-6 on
# (measured on the unchanged code: error ~ 2.5e-14 / sine), so the band (1e-9, 2e-6] is left undemanded.
GENERIC_FROM = 2e-6


def numeric_rigid(n, edges, m, P, Q, s, R, t, seed=0):
    X = _X()
    edges = [tuple(e) for e in edges]
    ref, tgt = _real_molecules(n, edges, m, P, Q)
    R, t = np.array(R, dtype=float), np.array(t, dtype=float)
    np.random.seed(seed)
    with np.errstate(all="ignore"):
        xm = X.ExchangeMap(ref, tgt, s)
        o1 = np.asarray(xm(ref).atoms_positions, dtype=float)
        moved = ref.copy()
        P2 = np.dot(np.array(P, dtype=float), R.T) + t
        moved.atoms_positions = P2
        o2 = np.asarray(xm(moved).atoms_positions, dtype=float)
    bad = []
    if not (np.all(np.isfinite(o1)) and np.all(np.isfinite(o2))):
        return ["non-finite mapped coordinates"]
    sc = max(1.0, float(np.abs(P2).max()), float(np.abs(o2).max()))
    for j in range(m):
        if n >= 3:
            a = expected_anchor(n, edges, P, Q[j])
            if a is None:
                continue
        else:
            a = 0
        a_, n1, n2 = _frame_atoms(n, edges, a)
        v1, v2 = o1[j] - np.array(P[a]), o2[j] - P2[a]
        generic = n >= 3 and not _collinear(P, a, n1, n2, GENERIC_FROM)
        if n >= 3 and _near_collinear(P, a, n1, n2) and not _collinear(P, a, n1, n2, 1e-9):
            continue        # neither clearly generic nor exactly collinear: the statement separates the two regimes
        if generic:
            exp = np.dot(R, o1[j]) + t
            if float(np.abs(o2[j] - exp).max()) > 1e-8 * sc:
                bad.append(f"atom {j}: map(R ref + t) = {o2[j].tolist()}, R map(ref) + t = {exp.tolist()}")
            continue
        if abs(np.linalg.norm(v1) - np.linalg.norm(v2)) > 1e-8 * sc:
            bad.append(f"atom {j}: distance to its anchor changed from {np.linalg.norm(v1)!r} to {np.linalg.norm(v2)!r}")
        if n2 is not None:
            u1 = np.array(P[n2]) - np.array(P[a])
            u1 /= np.linalg.norm(u1)
            u2 = P2[n2] - P2[a]
            u2 /= np.linalg.norm(u2)
            if abs(np.dot(v1, u1) - np.dot(v2, u2)) > 1e-8 * sc:
                bad.append(f"atom {j}: coordinate along the axis changed from {float(np.dot(v1, u1))!r} to {float(np.dot(v2, u2))!r}")
            d1 = np.linalg.norm(v1 - np.dot(v1, u1) * u1)
            d2 = np.linalg.norm(v2 - np.dot(v2, u2) * u2)
            if abs(d1 - d2) > 1e-7 * sc:
                bad.append(f"atom {j}: distance from the axis changed from {d1!r} to {d2!r}")
    return bad


def numeric_deform(n, edges, m, P, Q, s, P2, seed=0):
    X = _X()
    edges = [tuple(e) for e in edges]
    ref, tgt = _real_molecules(n, edges, m, P, Q)
    with np.errstate(all="ignore"):
        xm = X.ExchangeMap(ref, tgt, s)
        arg = ref.copy()
        arg.atoms_positions = np.array(P2, dtype=float)
        o = np.asarray(xm(arg).atoms_positions, dtype=float)
    bad = []
    if not np.all(np.isfinite(o)):
        return ["non-finite mapped coordinates"]
    anc = [expected_anchor(n, edges, P, Q[j]) for j in range(m)]
    sc = max(1.0, float(np.abs(np.array(P2)).max()))
    for j in range(m):
        a = anc[j]
        if a is None:
            continue
        d_new = np.linalg.norm(o[j] - np.array(P2[a]))
        d_old = np.linalg.norm(np.array(Q[j]) - np.array(P[a]))
        if abs(d_new - s * d_old) > 1e-9 * sc:
            bad.append(f"atom {j}: distance to anchor {a} is {d_new!r}, s * construction distance = {s * d_old!r}")
        for i in range(j):
            if anc[i] == a:
                dd = np.linalg.norm(o[i] - o[j])
                d0 = np.linalg.norm(np.array(Q[i]) - np.array(Q[j]))
                if abs(dd - s * d0) > 1e-9 * sc:
                    bad.append(f"atoms {i},{j} share anchor {a}: mutual distance {dd!r}, s * construction distance = {s * d0!r}")
    # locality: displacing any atom other than the anchor and its two lowest-numbered bonded atoms leaves the atom unchanged
    rng = np.random.default_rng(seed)
    for x in range(n):
        P3 = np.array(P2, dtype=float)
        P3[x] = P3[x] + rng.normal(size=3)
        arg.atoms_positions = P3
        with np.errstate(all="ignore"):
            o3 = np.asarray(xm(arg).atoms_positions, dtype=float)
        for j in range(m):
            a = anc[j]
            if a is None:
                continue
            a_, n1, n2 = _frame_atoms(n, edges, a)
            if x in (a_, n1, n2):
                continue
            if float(np.abs(o3[j] - o[j]).max()) > 1e-12 * sc:
                bad.append(f"atom {j} (anchor {a}, frame neighbours {n1},{n2}) moved by {float(np.abs(o3[j] - o[j]).max())!r} when reference atom {x} was displaced")
    return bad[:6]


def numeric_history(n, edges, m, P, Q, s, confs, seed=0):
    """map applied to a sequence of conformations: each result equals the result of a fresh map; argument, construction
    molecules and earlier results are not modified"""
    X = _X()
    edges = [tuple(e) for e in edges]
    ref, tgt = _real_molecules(n, edges, m, P, Q)
    P0, Q0 = ref.atoms_positions.copy(), tgt.atoms_positions.copy()
    bad = []
    with np.errstate(all="ignore"):
        xm = X.ExchangeMap(ref, tgt, s)
        earlier = []
        for ci, C_ in enumerate(confs):
            arg = ref.copy()
            arg.atoms_positions = np.array(C_, dtype=float)
            before = arg.atoms_positions.copy()
            res = xm(arg)
            o = np.asarray(res.atoms_positions, dtype=float).copy()
            ref2, tgt2 = _real_molecules(n, edges, m, P, Q)
            fresh = np.asarray(X.ExchangeMap(ref2, tgt2, s)(arg).atoms_positions, dtype=float)
            if float(np.abs(o - fresh).max()) > 1e-12 * max(1.0, float(np.abs(fresh).max())):
                bad.append(f"call {ci}: result differs from a freshly built map by {float(np.abs(o - fresh).max())!r}")
            if not np.array_equal(arg.atoms_positions, before):
                bad.append(f"call {ci}: argument coordinates modified")
            if not np.array_equal(ref.atoms_positions, P0) or not np.array_equal(tgt.atoms_positions, Q0):
                bad.append(f"call {ci}: construction molecules modified")
            for ei, (r_old, o_old) in enumerate(earlier):
                if not np.array_equal(np.asarray(r_old.atoms_positions, dtype=float), o_old):
                    bad.append(f"call {ci}: molecule returned by call {ei} was modified")
            if [a_.name for a_ in res] != [a_.name for a_ in tgt] or len(res) != m:
                bad.append(f"call {ci}: result does not have the target's atom names/count")
            earlier.append((res, o))
    return bad[:6]


def _scenario(rng, kind, small_ok=False):
    """random scenario; kind in generic / collinear-* / two-atom / one-atom"""
    if kind == "two-atom":
        n, edges = 2, [(0, 1)]
    elif kind == "one-atom":
        n, edges = 1, []
    else:
        n = int(rng.integers(3, 8))
        edges = sorted((int(rng.integers(0, i)), i) for i in range(1, n))
        if rng.integers(0, 3) == 0:
            a, b = sorted(rng.choice(n, 2, replace=False).tolist())
            if (a, b) not in edges:
                edges.append((a, b))
        if not H.degree2(n, edges):
            return None
    m = int(rng.integers(1, 6))
    P = _geometries(rng, n, edges, kind if n >= 3 else "generic")
    if len({tuple(np.round(p, 9)) for p in P}) < n:
        return None
    Q = rng.uniform(-2.5, 2.5, size=(m, 3))
    if rng.integers(0, 5) == 0:
        Q[0] = P[int(rng.integers(0, n))]          # a target atom exactly on a reference atom (anchor or terminal)
    s = float(rng.choice([1.0, 0.5, 2.0, rng.uniform(0.01, 2.0)]))
    return n, edges, m, P, Q, s


def task_numeric_generic(prop, tier, seed):
    """bounded twins of C02 / C03 / C04 on the real unstubbed code"""
    rng = np.random.default_rng(777 + seed)
    N = 30 if tier == "quick" else 300
    out = []
    kinds = {"C02": ("generic", "nearly-straight", "unit-neighbour-distance", "tiny-reference", "collinear-axis", "collinear-diagonal", "collinear-near-axis", "collinear-integer-direction", "two-atom", "one-atom"),
             "C03": ("generic", "nearly-straight", "unit-neighbour-distance", "tiny-reference", "collinear-axis", "collinear-near-axis", "collinear-integer-direction"),
             "C04": ("generic", "nearly-straight", "unit-neighbour-distance", "tiny-reference", "collinear-axis")}[prop]
    for kind in kinds:
        first, nbad, nrun = None, 0, 0
        for t_ in range(N):
            sc = _scenario(rng, kind)
            if sc is None:
                continue
            n, edges, m, P, Q, s = sc
            try:
                if prop == "C02":
                    R, t = (_rand_rot(rng), rng.uniform(-30, 30, size=3)) if t_ % 4 else _special_rot(rng)
                    cex = {"fn": "rigid", "R": R.tolist(), "t": t.tolist()}
                    bad = numeric_rigid(n, edges, m, P.tolist(), Q.tolist(), s, R, t, seed=t_)
                elif prop == "C03":
                    P2 = P + rng.normal(size=P.shape) * 0.4
                    cex = {"fn": "deform", "P2": P2.tolist()}
                    bad = numeric_deform(n, edges, m, P.tolist(), Q.tolist(), s, P2.tolist(), seed=t_)
                else:
                    confs = [(np.dot(P, _rand_rot(rng).T) + rng.uniform(-5, 5, 3) + rng.normal(size=P.shape) * rng.choice([0, 0.3])).tolist()
                             for _ in range(int(rng.integers(2, 6)))]
                    confs.insert(int(rng.integers(0, len(confs))), confs[0])
                    cex = {"fn": "history", "confs": confs}
                    bad = numeric_history(n, edges, m, P.tolist(), Q.tolist(), s, confs, seed=t_)
            except Exception as e:
                bad = [f"raises {type(e).__name__}: {e}"]
            nrun += 1
            if bad:
                nbad += 1
                if first is None:
                    cex.update({"n": n, "edges": [list(e) for e in edges], "m": m, "P": P.tolist(), "Q": Q.tolist(), "s": s, "seed": t_, "signature": kind})
                    first = (cex, bad)
        oid = f"{prop}/ExchangeMap.__call__/bounded.real-code-twin/{kind}"
        if first:
            out.append(ob(oid, "refuted", kind="bounded", engine="smallscope", backend="numeric-contract", evaluations=nrun,
                          reason=f"{nbad}/{nrun} scenarios violate; first: {first[1][0]}", cex=first[0]))
        else:
            out.append(ob(oid, "discharged", kind="bounded", engine="smallscope", backend="numeric-contract", evaluations=nrun,
                          sample={"kind": kind, "scenarios": nrun}))
    return out


def task_numeric_law(prop, tier, seed):
    rng = np.random.default_rng(321 + seed)
    N = 40 if tier == "quick" else 400
    out = []
    for kind in ("generic", "collinear-axis", "collinear-diagonal", "collinear-near-axis", "collinear-integer-direction", "nearly-straight", "unit-neighbour-distance", "tiny-reference"):
        first, nbad, nrun = None, 0, 0
        for t in range(N):
            n = int(rng.integers(3, 8))
            edges = sorted((int(rng.integers(0, i)), i) for i in range(1, n))
            if t % 3 == 0:
                a, b = sorted(rng.choice(n, 2, replace=False).tolist())
                if (a, b) not in edges:
                    edges.append((a, b))
            if not H.degree2(n, edges):
                continue
            m = int(rng.integers(1, 7))
            P = _geometries(rng, n, edges, kind)
            if len({tuple(np.round(p, 9)) for p in P}) < n:
                continue
            Q = rng.uniform(-2.5, 2.5, size=(m, 3))
            s = float(rng.choice([1.0, 0.5, 2.0, rng.uniform(0.01, 2.0)]))
            if kind == "generic" and t % 2 == 1:
                # near-tie: put the first target atom on the bisector plane of two anchors, then nudge it towards the higher-index one
                anc = H.degree2(n, edges)
                if len(anc) >= 2:
                    a1, a2 = sorted(rng.choice(anc, 2, replace=False).tolist())
                    mid = 0.5 * (P[a1] + P[a2])
                    u = P[a2] - P[a1]
                    u = u / np.linalg.norm(u)
                    w = np.cross(u, rng.normal(size=3))
                    Q[0] = mid + 0.3 * w / np.linalg.norm(w) + u * float(rng.choice([2e-7, 6e-7, 1.5e-6, 1e-5]))
                    s = float(rng.choice([0.5, 1.5, 0.37]))
            try:
                bad = numeric_law(n, edges, m, P.tolist(), Q.tolist(), s)
            except Exception as e:
                bad = [f"raises {type(e).__name__}: {e}"]
            nrun += 1
            if bad:
                nbad += 1
                first = first or ({"fn": "law", "n": n, "edges": [list(e) for e in edges], "m": m, "P": P.tolist(), "Q": Q.tolist(), "s": s,
                                   "signature": kind}, bad)
        oid = f"{prop}/ExchangeMap.__call__/bounded.anchor_and_scale_law/{kind}"
        if first:
            out.append(ob(oid, "refuted", kind="bounded", engine="smallscope", backend="numeric-contract", evaluations=nrun,
                          reason=f"{nbad}/{nrun} scenarios violate; first: {first[1][0]}", cex=first[0]))
        else:
            out.append(ob(oid, "discharged", kind="bounded", engine="smallscope", backend="numeric-contract", evaluations=nrun,
                          sample={"kind": kind, "scenarios": nrun}))
    return out


# ---------------------------------------------------------------------------


_EXPLORE_SECS = [12.0]


def tasks(prop, tier, seed):
    _EXPLORE_SECS[0] = 12.0 if tier == "quick" else 60.0       # a structure normally takes < 1 s; beyond this it is reported undecided
    t = []
    if prop == "C01":
        t.append(("lemma/rows-cols", lambda: lemma_rows_cols("C01/lemma"), (), 300.0))
        t.append(("kernels", task_kernels, (prop, seed), 300.0))
        t.append(("find_closest", task_find_closest, (prop, tier, seed), 1200.0))
        nparts = 12 if tier == "quick" else 48
        for p in range(nparts):
            t.append((f"law/part{p}", task_law, (prop, p, nparts, tier, seed), 240.0 if tier == "quick" else 1500.0))
        t.append(("numeric", task_numeric_law, (prop, tier, seed), 900.0))
    if prop == "C02":
        nparts = 12 if tier == "quick" else 48
        for p in range(nparts):
            t.append((f"rigid/part{p}", task_rigid, (prop, p, nparts, tier, seed), 240.0 if tier == "quick" else 1500.0))
        t.append(("numeric", task_numeric_generic, (prop, tier, seed), 900.0))
        t.append(("calcule_base/equivariance", task_cb_equivariance, (prop, seed), 900.0))
    if prop == "C04":
        nparts = 12 if tier == "quick" else 48
        for p in range(nparts):
            t.append((f"history/part{p}", task_history, (prop, p, nparts, tier, seed), 240.0 if tier == "quick" else 1500.0))
        t.append(("numeric", task_numeric_generic, (prop, tier, seed), 900.0))
        from . import b04_history
        t += b04_history.bounded_tasks(prop, tier, seed)
    if prop == "C03":
        nparts = 12 if tier == "quick" else 48
        for p in range(nparts):
            t.append((f"deform/part{p}", task_deform, (prop, p, nparts, tier, seed), 240.0 if tier == "quick" else 1500.0))
        t.append(("numeric", task_numeric_generic, (prop, tier, seed), 900.0))
    return t


def replay(prop, cex):
    fn = cex.get("fn")
    if str(fn).startswith("b04:"):
        from . import b04_history
        return b04_history.replay(prop, cex)
    if fn in ("law", "local") :
        rng = np.random.default_rng(0)
        n, edges, m = cex["n"], [tuple(e) for e in cex["edges"]], cex["m"]
        trials = []
        if cex.get("P"):
            trials.append((cex["P"], cex["Q"], cex.get("s", 0.7)))
        for _ in range(10):
            trials.append((rng.uniform(-2, 2, size=(n, 3)).tolist(), rng.uniform(-2, 2, size=(m, 3)).tolist(), float(rng.uniform(0.1, 2))))
        for P, Q, s in trials:
            if len({tuple(p) for p in P}) < n or not (0 < s <= 2):
                continue
            try:
                bad = numeric_law(n, edges, m, P, Q, s)
            except Exception as e:
                bad = [f"raises {type(e).__name__}: {e}"]
            if bad:
                return {"reproduced": True, "observed": bad[:3], "inputs": {"n": n, "edges": cex["edges"], "m": m, "P": P, "Q": Q, "s": s}}
        return {"reproduced": False, "inputs": cex}
    if fn == "closest":
        return _replay_closest(cex)
    if fn in ("rigid", "deform", "history"):
        rng = np.random.default_rng(1)
        n, edges, m = cex["n"], [tuple(e) for e in cex["edges"]], cex["m"]
        for trial in range(12):
            if trial == 0 and cex.get("P") and (fn != "rigid" or cex.get("R")) and (fn != "deform" or cex.get("P2")) and (fn != "history" or cex.get("confs")):
                P, Q, s_ = np.array(cex["P"]), np.array(cex["Q"]), cex.get("s", 0.7)
                extra = cex
            else:
                P, Q, s_ = rng.uniform(-2, 2, size=(n, 3)), rng.uniform(-2, 2, size=(m, 3)), float(rng.uniform(0.2, 2))
                extra = {"R": _rand_rot(rng).tolist(), "t": rng.uniform(-9, 9, 3).tolist(), "P2": (P + rng.normal(size=P.shape) * 0.4).tolist(),
                         "confs": [(P + rng.normal(size=P.shape) * 0.3).tolist(), (np.dot(P, _rand_rot(rng).T) + 3.0).tolist(), P.tolist()], "seed": trial}
            try:
                if fn == "rigid":
                    bad = numeric_rigid(n, edges, m, P.tolist(), Q.tolist(), s_, extra["R"], extra["t"], seed=extra.get("seed", 0))
                elif fn == "deform":
                    bad = numeric_deform(n, edges, m, P.tolist(), Q.tolist(), s_, extra["P2"], seed=extra.get("seed", 0))
                else:
                    bad = numeric_history(n, edges, m, P.tolist(), Q.tolist(), s_, extra["confs"], seed=extra.get("seed", 0))
            except Exception as e:
                bad = [f"raises {type(e).__name__}: {e}"]
            if bad:
                return {"reproduced": True, "observed": bad[:3],
                        "inputs": {"fn": fn, "n": n, "edges": cex["edges"], "m": m, "P": P.tolist(), "Q": Q.tolist(), "s": s_,
                                   **{k_: extra[k_] for k_ in ("R", "t", "P2", "confs") if k_ in extra}}}
        return {"reproduced": False, "inputs": cex}
    return {"reproduced": False, "note": "no replay for this counterexample kind", "inputs": cex}


def _replay_closest(cex):
    X = _X()
    rng = np.random.default_rng(0)
    ref = H.ref_molecule(4, [(0, 1), (1, 2), (2, 3)])
    ks = cex["keys"]
    for _ in range(200):
        P = rng.uniform(-2, 2, size=(4, 3))
        ref.atoms_positions = P
        q = rng.uniform(-2, 2, size=3)
        xm = _bare_map({k: ((None, None, None), None) for k in ks}, 1.0, refmol=ref)
        try:
            r = xm._find_closest_ref(_FakeAtom(q))
        except Exception as e:
            return {"reproduced": True, "observed": f"raises {type(e).__name__}: {e}", "inputs": cex}
        best = min(ks, key=lambda k: np.linalg.norm(P[k] - q))
        if r != best:
            return {"reproduced": True, "observed": f"returned {r}, nearest is {best}", "inputs": {"keys": ks, "P": P.tolist(), "q": q.tolist()}}
    return {"reproduced": False, "inputs": cex}
