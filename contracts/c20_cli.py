"""C20 -- command-line mapping equals the library workflow; discovery is deterministic.

Bounded run-time contract checks (engine smallscope) on the real functions of
gaddlemaps/_cli.py:

* classify_files -- pure, exactly the files whose extension has a parser.
* sort_molecules -- hash-seed / listing-order independence modelled in the callee
  contract: gaddlemaps._cli.classify_files is bound to a stub that satisfies the
  classify_files contract and returns set objects whose iteration order is chosen
  adversarially; the postcondition must hold for every pair of iteration orders.
  Native twins: the unstubbed function over orderings of the candidate list and
  in subprocesses under several PYTHONHASHSEED values.
* main / auto_map -- protocol contract observed through a recording subclass of
  gaddlemaps.Manager (align_molecules is recorded, not run), driven in-process
  through sys.argv; plus a small end-to-end comparison with the library workflow
  under the same numpy seed.
"""
from __future__ import annotations

import contextlib
import io
import itertools
import json
import os
import random
import shutil
import subprocess
import sys
import tempfile
import time
import warnings

from vf.core import ob
from vf.symrun import patched

PROP = "C20"
KW = dict(kind="bounded", engine="smallscope", backend="runtime-contract")


def _info_bounded(prop):
    return {
        "level": "other",
        "functions": ["gaddlemaps/_cli.py::classify_files", "gaddlemaps/_cli.py::sort_molecules",
                      "gaddlemaps/_cli.py::auto_map", "gaddlemaps/_cli.py::main"],
        "stubs": ["gaddlemaps._cli.classify_files -> contract stub returning set subclasses (AdvSet) with an adversarially "
                  "chosen iteration order (membership and remove unchanged); only while checking sort_molecules",
                  "gaddlemaps.Manager -> recording subclass of the real Manager: from_files/calculate_exchange_maps/"
                  "extrapolate_system record and call through, align_molecules records only (no Monte-Carlo); only while "
                  "checking the main/auto_map protocol contract"],
        "trusted_base": ["CPython 3.12", "the generators of .gro/.itp text in this module", "vf.symrun.patched",
                         "gaddlemaps System/MoleculeTop/Molecule readers (covered by C11, C12, C15) used by sort_molecules"],
        "assumptions": ["the only source of order nondeterminism inside sort_molecules is the iteration order of the two sets "
                        "returned by classify_files (modelled exhaustively) -- cross-checked natively under several "
                        "PYTHONHASHSEED values and orderings of the candidate list",
                        "'same output for the same seed as the library workflow' is claimed by composition: the recorded "
                        "call sequence IS the library workflow (C05 extrapolation, C06 alignment determinism); a few "
                        "end-to-end byte comparisons under a fixed numpy seed are added as bounded evidence",
                        "precondition of discovery: every species has one start topology, one end coordinate file and one "
                        "end topology with the same molecule name and different atom counts; distractor files match no "
                        "species (ambiguous inputs such as two coordinate files matching one end topology are excluded)"],
        "explanation": ("Bounded contract checks only, nothing deductive. classify_files: exhaustive over ordered selections "
                        "(length <= 3) of 20 file names. sort_molecules: generated directories with 1..3 species (start .itp, "
                        "end .gro, end .itp each) plus distractors (.txt, unrelated .itp, unmatched .gro, the reference "
                        "system itself), every subset of species given explicitly, and the shipped BMIM/BF4 files; for each, "
                        "every permutation of the topology set's iteration order times every permutation of the coordinate "
                        "set's iteration order (quick tier: for 3 species and nothing explicit all 5040 topology orders x 2 "
                        "coordinate orders plus 24 coordinate orders x 24 topology orders; thorough: the full product). "
                        "Families S2E/S2Q/S3Q put coordinate files of EQUAL atom count among the candidates (a distractor .gro as "
                        "large as a species' end .gro; two species with equally large end .gro files). "
                        "Alias families (S2K/S3K, and 108 argv vectors of main): the explicit triples and the candidate list name the "
                        "same files through different strings (dir/./file, relative vs absolute, identical copies under other "
                        "names); the explicit species must not be discovered again. "
                        "main/auto_map: exhaustive over argv combinations (0..2 explicit species in every order, --auto with "
                        "every listed --exclude choice, --scale absent/given, --outfile absent/absolute/relative, three ways "
                        "of naming the input) on a generated 3-species system."),
        "not_demanded": ("Informational only (mismatch -> undecided, never a violation): classify_files' own result (helper of the discovery), "
                         "the return format of sort_molecules and incomplete entries in it, which Manager methods main/auto_map call and in "
                         "which order the species are passed, positional vs keyword arguments, the default scale, printed text."),
        "rule": ("one evaluation = one call of the real function on one enumerated input (file-name tuple; directory x explicit "
                 "subset x iteration-order pair; argv vector); all enumerated inputs are distinct by construction; "
                 "non-trivial = at least one file classified / one species discoverable / one species mapped"),
        "exhaustive": True,
    }


# ---------------------------------------------------------------------------
# generators of files (independent of the repo's writers)

# species letter -> (molecule name, residue name, atoms in start resolution, atoms in end resolution)
# D has as many end-resolution atoms as B (but other residue and atom names): two species' end .gro files of equal size
SPECIES = {"A": ("MA", "RA", 1, 3), "B": ("MB", "RB", 2, 4), "C": ("MC", "RC", 3, 5), "D": ("MD", "RD", 2, 4)}
END_ATOM_PREFIX = {"D": "N"}                    # default "C"
START_ONLY = {"W": ("MW", "RW", 1, 0)}          # species with nothing but a start topology (incomplete family)
ALLSP = dict(SPECIES, **START_ONLY)
SHIPPED = {"BMIM": ("BMIM_CG.itp", "BMIM_AA.gro", "BMIM_AA.itp"), "BF4": ("BF4_CG.itp", "BF4_AA.gro", "BF4_AA.itp")}
SHIPPED_EXTRA = ["BF4_CG.gro", "system_bmimbf4_cg.gro"]


def gro_text(title, residues, box=(9.0, 9.0, 9.0)):
    lines, n = [], 0
    for resid, resname, atoms in residues:
        for an, (x, y, z) in atoms:
            n += 1
            lines.append("%5d%-5s%5s%5d%8.3f%8.3f%8.3f" % (resid, resname, an, n, x, y, z))
    return "\n".join([title, "%5d" % n] + lines + ["%10.5f%10.5f%10.5f" % box]) + "\n"


def itp_text(molname, resname, atomnames):
    out = ["[ moleculetype ]", "; name nrexcl", "%s 1" % molname, "", "[ atoms ]"]
    for i, a in enumerate(atomnames, 1):
        out.append("%5d  T%d  1  %s  %s  %d  0.0  12.0" % (i, i, resname, a, i))
    out += ["", "[ bonds ]"]
    for i in range(1, len(atomnames)):
        out.append("%5d %5d 1 0.15 1000" % (i, i + 1))
    return "\n".join(out) + "\n"


def end_positions(letter):
    k = ord(letter) - ord("A")
    n = SPECIES[letter][3]
    return [(round(0.1 * i + 0.05 * k, 3), round(0.07 * (i % 2) + 0.02 * k, 3), round(0.03 * i * (k + 1), 3)) for i in range(n)]


def fname(letter, role):
    return {"top_CG": f"{letter}_cg.itp", "coor_AA": f"{letter}.aa.gro", "top_AA": f"{letter}_aa.itp"}[role]


LAYOUTS = {
    # name: species, sequence of molecules in the reference system, distractors, reference listed among the candidates
    "S1": {"species": "A", "seq": "AA", "distractors": ["txt", "itp", "gro"], "ref_listed": True},
    "S2": {"species": "AB", "seq": "ABBAB", "distractors": ["txt", "itp", "gro"], "ref_listed": True},
    "S3": {"species": "ABC", "seq": "AABCBC", "distractors": ["txt", "itp", "gro"], "ref_listed": False},
    # extra family: a species of the system (W, think of the solvent one wants to --exclude) whose start topology is among
    # the candidates but which has no end files; the complete species A and B must still get exactly their triples
    "S2W": {"species": "AB", "seq": "ABWBW", "distractors": ["txt"], "ref_listed": False, "start_only": "W"},
    # equal atom counts among the candidate coordinate files (a discovery that indexes coordinate files by size must not
    # lose a species): "same:X" is a distractor .gro with as many atoms as X's end .gro but other residue/atom names
    "S2E": {"species": "AB", "seq": "ABBAB", "distractors": ["txt", "same:A", "same:B"], "ref_listed": False},
    "S2Q": {"species": "BD", "seq": "BDDB", "distractors": ["txt", "gro"], "ref_listed": False},
    "S3Q": {"species": "ABD", "seq": "ABDDBA", "distractors": ["same:A"], "ref_listed": False},
    # directories for the alias families (explicit triples and candidate list name the same files through different strings)
    "S2K": {"species": "AB", "seq": "ABBAB", "distractors": ["txt"], "ref_listed": False},
    "S3K": {"species": "ABC", "seq": "AABCBC", "distractors": ["gro"], "ref_listed": False},
}


def layout_files(layout):
    """file name -> text, for a layout descriptor (pure function of the descriptor)."""
    files = {}
    res = []
    for r, s in enumerate(layout["seq"], 1):
        _, rn, ncg, _ = ALLSP[s]
        res.append((r, rn, [("B%d" % (j + 1), (0.5 * r + 0.2 * j, 0.3 * r, 0.1 * j)) for j in range(ncg)]))
    files["sys.gro"] = gro_text("reference system", res)
    for s in layout["species"]:
        mn, rn, ncg, naa = SPECIES[s]
        files[fname(s, "top_CG")] = itp_text(mn, rn, ["B%d" % (j + 1) for j in range(ncg)])
        pre = END_ATOM_PREFIX.get(s, "C")
        files[fname(s, "top_AA")] = itp_text(mn, rn, [f"{pre}{j + 1}" for j in range(naa)])
        files[fname(s, "coor_AA")] = gro_text(f"{s} end", [(1, rn, list(zip([f"{pre}{j + 1}" for j in range(naa)], end_positions(s))))])
    for s in layout.get("start_only", ""):
        mn, rn, ncg, _ = START_ONLY[s]
        files[fname(s, "top_CG")] = itp_text(mn, rn, ["B%d" % (j + 1) for j in range(ncg)])
    if "txt" in layout["distractors"]:
        files["notes.txt"] = "not a molecule file\n"
    if "itp" in layout["distractors"]:
        files["X_other.itp"] = itp_text("MX", "RX", ["Q1", "Q2"])
    for d in layout["distractors"]:
        if d.startswith("same:"):
            n = SPECIES[d[5:]][3]
            files[f"same_as_{d[5:]}.gro"] = gro_text(f"{n} atoms, no species", [(1, "RQ", [(f"Q{j + 1}", (0.11 * j, 0.05, 0.02 * j)) for j in range(n)])])
    if "gro" in layout["distractors"]:
        files["stray.gro"] = gro_text("stray", [(1, "RZ", [("Z1", (0.0, 0.0, 0.0)), ("Z2", (0.1, 0.0, 0.0))])])
    return files


def candidate_names(layout):
    return [f for f in layout_files(layout) if f != "sys.gro" or layout["ref_listed"]]


def write_layout(layout, folder):
    os.makedirs(folder, exist_ok=True)
    for f, text in layout_files(layout).items():
        with open(os.path.join(folder, f), "w") as fh:
            fh.write(text)


def data_dir():
    import gaddlemaps
    return os.path.join(os.path.dirname(os.path.abspath(gaddlemaps.__file__)), "data")


@contextlib.contextmanager
def quiet():
    with warnings.catch_warnings():
        warnings.simplefilter("ignore")
        with contextlib.redirect_stdout(io.StringIO()), contextlib.redirect_stderr(io.StringIO()):
            yield


@contextlib.contextmanager
def cwd(path):
    old = os.getcwd()
    os.chdir(path)
    try:
        yield
    finally:
        os.chdir(old)


def _ap(p):
    return os.path.abspath(p)


def _strip(obj, folder):
    """Remove the (random) scratch directory from strings nested in obj, so that evidence and signatures are stable."""
    if not folder:
        return obj
    return json.loads(json.dumps(obj).replace(json.dumps(folder + os.sep)[1:-1], "").replace(json.dumps(folder)[1:-1], "<dir>"))


# ---------------------------------------------------------------------------
# contract of classify_files (also the stub used as callee contract in sort_molecules)

def parser_extensions():
    from gaddlemaps.parsers import ParserManager
    from gaddlemaps.parsers._top_parsers import TopologyParserManager
    return set(TopologyParserManager.parsers), set(ParserManager.parsers)


def extension_of(path):
    base = os.path.basename(path)
    root, ext = os.path.splitext(base)
    return ext[1:] if ext else None


def classify_spec(files, top_ext, coor_ext):
    tops = {f for f in files if extension_of(f) in top_ext}
    coords = {f for f in files if extension_of(f) in coor_ext}
    return tops, coords


def classify_post(files_before, files_after, result, top_ext, coor_ext):
    """-> list of violated clause names"""
    bad = []
    try:
        t, c = result
        t, c = set(t), set(c)
    except Exception:
        return ["returns_pair_of_sets"]
    et, ec = classify_spec(files_before, top_ext, coor_ext)
    if t != et:
        bad.append("topology_files_exact")
    if c != ec:
        bad.append("coordinate_files_exact")
    if list(files_after) != list(files_before):
        bad.append("argument_unchanged")
    return bad


CLASSIFY_NAMES = ["a.itp", "a.ITP", "a.Itp", "a.gro", "a.GRO", "a.Gro", "a.txt", "README", "molecule", "run.d/a.itp", "run.itp/a",
                  "run.gro/readme.txt", "a.b.gro", "a.gro.itp", "a.itp.gro", "a.itp.bak", "/abs/x.y/z.gro", "itp.txt",
                  "gro_itp", "a.gro~"]


def task_classify(seed):
    from gaddlemaps import _cli
    t0 = time.time()
    top_ext, coor_ext = parser_extensions()
    out = []
    out.append(ob(f"{PROP}/classify_files/guard.parsers-registered", "discharged" if ("itp" in top_ext and "gro" in coor_ext) else "refuted",
                  kind="guard", engine="smallscope", backend="runtime-contract", expect="discharged",
                  sample={"topology": sorted(top_ext), "coordinates": sorted(coor_ext)}))
    fails = {}
    n = nontriv = 0
    sample = None
    for k in (0, 1, 2, 3):
        for sel in itertools.permutations(CLASSIFY_NAMES, k):
            for as_type in ((list, tuple) if k <= 2 else (list,)):
                files = as_type(sel)
                keep = list(files)
                try:
                    r1 = _cli.classify_files(files)
                    r2 = _cli.classify_files(files)
                    bad = classify_post(keep, files, r1, top_ext, coor_ext)
                    if not bad and (set(r1[0]), set(r1[1])) != (set(r2[0]), set(r2[1])):
                        bad.append("same_result_when_repeated")
                    obs = [sorted(r1[0]), sorted(r1[1])] if not bad or "returns_pair_of_sets" not in bad else repr(r1)
                except Exception as e:
                    bad, obs = ["no_exception"], f"raises {type(e).__name__}: {e}"
                n += 1
                et, ec = classify_spec(keep, top_ext, coor_ext)
                if et or ec:
                    nontriv += 1
                if sample is None and k == 3 and et and ec:
                    sample = {"files": keep, "expected": [sorted(et), sorted(ec)]}
                for cl in bad:
                    fails.setdefault(cl, {"kind": "classify", "files": keep, "observed": obs,
                                          "expected": [sorted(et), sorted(ec)], "signature": f"classify:{cl}"})
    # generator argument (consumed once)
    files = ["a.itp", "b.gro", "c.txt"]
    r = _cli.classify_files(iter(files))
    n += 1
    nontriv += 1
    if (set(r[0]), set(r[1])) != ({"a.itp"}, {"b.gro"}):
        fails.setdefault("topology_files_exact", {"kind": "classify", "files": files, "iterator": True, "observed": [sorted(r[0]), sorted(r[1])],
                                                  "expected": [["a.itp"], ["b.gro"]], "signature": "classify:iterator"})
    secs = time.time() - t0
    for cl in ("no_exception", "returns_pair_of_sets", "topology_files_exact", "coordinate_files_exact", "argument_unchanged",
               "same_result_when_repeated"):
        oid = f"{PROP}/classify_files/ensures.{cl}/names20.len<=3"
        if cl in fails:
            # classify_files is a helper of the discovery: the STATEMENT fixes only what discovery assigns (checked on
            # sort_molecules/main with the real classify_files), not this function's own result -> informational, never a violation
            c = fails[cl]
            out.append(ob(oid, "undecided", reason=f"helper contract (not in the property statement) does not hold: files={c['files']} "
                          f"observed={c['observed']} expected={c['expected']}", evaluations=n, nontrivial=nontriv, secs=secs, **KW))
        else:
            out.append(ob(oid, "discharged", sample=sample, evaluations=n, nontrivial=nontriv, secs=secs, **KW))
    # must-fail: the contract evaluator rejects a swapped / incomplete observation
    files = ["a.itp", "b.gro", "c.txt"]
    caught = bool(classify_post(files, files, ({"b.gro"}, {"a.itp"}), top_ext, coor_ext)) and \
        bool(classify_post(files, files, ({"a.itp", "c.txt"}, {"b.gro"}), top_ext, coor_ext)) and \
        bool(classify_post(files, files, (set(), {"b.gro"}), top_ext, coor_ext))
    out.append(ob(f"{PROP}/classify_files/guard.must-fail", "refuted" if caught else "discharged", kind="guard",
                  engine="smallscope", backend="runtime-contract", expect="refuted"))
    return out


# ---------------------------------------------------------------------------
# sort_molecules

class AdvSet(set):
    """A set whose iteration order is fixed by the checker.  Membership, remove,
    discard, len are the real set operations."""
    iterations = 0

    def __init__(self, items, order):
        super().__init__(items)
        self._order = [x for x in order if set.__contains__(self, x)]
        assert len(self._order) == len(self), "order must cover the items"

    def __iter__(self):
        AdvSet.iterations += 1
        for x in list(self._order):
            if set.__contains__(self, x):
                yield x


def make_stub(tops_order, coords_order, counter):
    top_ext, coor_ext = parser_extensions()
    kt = {_ap(f): i for i, f in enumerate(tops_order)}
    kc = {_ap(f): i for i, f in enumerate(coords_order)}

    def classify_files_stub(files):
        counter["stub"] = counter.get("stub", 0) + 1
        t, c = classify_spec(list(files), top_ext, coor_ext)
        # the chosen order is matched through the normalised path: the candidates may name a file by another string
        return (AdvSet(t, sorted(t, key=lambda f: (kt.get(_ap(f), len(kt)), f))),
                AdvSet(c, sorted(c, key=lambda f: (kc.get(_ap(f), len(kc)), f))))
    return classify_files_stub


ALIASES = ("dot", "rel", "copy")


def copy_name(f):
    root, ext = os.path.splitext(f)
    return f"{root}_copy{ext}"


def case_copies(case):
    """alias 'copy': byte-identical copies, under other file names, of the three files of every explicit species."""
    if case.get("alias") != "copy" or case["layout"] == "shipped":
        return []
    return [copy_name(fname(s, r)) for s in case["explicit"] for r in ROLES]


def case_candidate_names(case):
    """Base names of the candidate list of a generated-directory case (before any aliasing)."""
    return candidate_names(LAYOUTS[case["layout"]]) + case_copies(case)


def sort_case_spec(case, folder):
    """Expected result, derived from the case descriptor only.
    -> (reference path, candidate paths, known_files, expected dict, explicit names, incomplete dict)

    case["alias"]: the candidate list names the files through OTHER STRINGS than the explicit triples do --
    'dot' dir/./file, 'rel' relative vs absolute path, 'copy' additional identical copies of the explicit species' files."""
    P = lambda f: os.path.join(folder, f) if folder else f
    alias = case.get("alias")
    if alias == "dot":
        Pc = lambda f: (folder + os.sep if folder else "") + "." + os.sep + f
    elif alias == "rel":
        Pc = (lambda f: os.path.relpath(os.path.join(folder, f))) if folder else (lambda f: os.path.abspath(f))
    else:
        Pc = P
    if case["layout"] == "shipped":
        triples = {n: dict(zip(("top_CG", "coor_AA", "top_AA"), [P(x) for x in t])) for n, t in SHIPPED.items()}
        names = {n: n for n in SHIPPED}
        cand = [Pc(x) for t in SHIPPED.values() for x in t] + [Pc(x) for x in SHIPPED_EXTRA]
        ref = P("system_bmimbf4_cg.gro")
        incomplete = {}
    else:
        lay = LAYOUTS[case["layout"]]
        triples = {SPECIES[s][0]: {r: P(fname(s, r)) for r in ("top_CG", "coor_AA", "top_AA")} for s in lay["species"]}
        names = {s: SPECIES[s][0] for s in lay["species"]}
        cand = [Pc(f) for f in case_candidate_names(case)]
        ref = P("sys.gro")
        incomplete = {START_ONLY[s][0]: {"top_CG": P(fname(s, "top_CG"))} for s in lay.get("start_only", "")}
    if case.get("all_files_order"):
        cand = [Pc(f) for f in case["all_files_order"]]
    explicit_names = [names[s] for s in case["explicit"]]
    known = [[triples[n]["top_CG"], triples[n]["coor_AA"], triples[n]["top_AA"]] for n in explicit_names]
    expected = {n: t for n, t in triples.items() if n not in explicit_names}
    return ref, cand, known, expected, explicit_names, incomplete


ROLES = ("top_CG", "coor_AA", "top_AA")


def canon(result):
    """The ASSIGNMENT a result makes: species with a complete (start topology, end coordinates, end topology) entry.
    Incomplete entries assign nothing (main() skips them) and are not part of what the statement fixes."""
    try:
        return sorted((str(k), sorted((r, _ap(str(dict(v)[r]))) for r in ROLES)) for k, v in dict(result).items()
                      if all(r in dict(v) for r in ROLES))
    except Exception:
        return repr(result)


def sort_post(result, exc, expected, explicit_names, incomplete):
    """-> dict clause -> short description of the violation ("info." clauses are informational: undecided, never refuted)"""
    bad = {}
    if exc is not None:
        bad["no_exception"] = f"raises {type(exc).__name__}: {exc}"
        return bad
    try:
        res = {k: dict(v) for k, v in dict(result).items()}
    except Exception:
        bad["info.return_format"] = f"result is not a mapping of mappings: {result!r}"[:300]
        return bad
    for name, trip in expected.items():
        got = res.get(name)
        if got is None or {r: _ap(got[r]) for r in ROLES if r in got} != {r: _ap(trip[r]) for r in ROLES}:
            bad.setdefault("exact_triples", f"{name}: got {got}, expected {trip}")
    complete = {n: g for n, g in res.items() if all(r in g for r in ROLES)}
    for name in explicit_names:
        if name in complete:
            bad.setdefault("explicit_species_not_readded", f"{name} given explicitly but assigned again: {res[name]}")
    for name, got in complete.items():
        if name not in expected and name not in explicit_names:
            bad.setdefault("only_system_species", f"{name} is not a discoverable species (no complete set of files) but is assigned {got}")
    return bad


def run_sort(case, folder, tops_order=None, coords_order=None):
    """One evaluation of the sort_molecules contract. -> (violations dict, canonical result, stub reached)"""
    from gaddlemaps import _cli
    ref, cand, known, expected, explicit_names, incomplete = sort_case_spec(case, folder)
    counter = {}
    it0 = AdvSet.iterations
    exc = result = None
    try:
        with quiet():
            if tops_order is None:
                result = _cli.sort_molecules(ref, list(cand), [list(k) for k in known])
            else:
                P = (lambda f: os.path.join(folder, f)) if folder else (lambda f: f)
                stub = make_stub([P(f) for f in tops_order], [P(f) for f in coords_order], counter)
                with patched(_cli, classify_files=stub):
                    result = _cli.sort_molecules(ref, list(cand), [list(k) for k in known])
    except Exception as e:      # the property demands a result
        exc = e
    bad = sort_post(result, exc, expected, explicit_names, incomplete)
    reached = tops_order is None or (counter.get("stub", 0) >= 1 and AdvSet.iterations > it0)
    here = folder if folder and case["layout"] != "shipped" else (os.getcwd() if not folder else "")
    res = canon(result) if exc is None else f"raises {type(exc).__name__}: {exc}"
    return _strip(bad, here), _strip(res, here), reached


def _sort_info(fails, tag, n, secs):
    """Informational mismatches (return format): undecided, never a violation."""
    return [ob(f"{PROP}/sort_molecules/informational.{cl[5:]}/{tag}", "undecided", reason=fails[cl][1], evaluations=n, secs=secs, **KW)
            for cl in fails if cl.startswith("info.")]


SORT_CLAUSES = ("no_exception", "exact_triples", "explicit_species_not_readded", "only_system_species",
                "same_result_for_every_order")


def _plain(case):
    """The case with plain base names (aliases 'dot'/'rel' only change the strings, not the set of files)."""
    return dict(case, alias=("copy" if case.get("alias") == "copy" else None), all_files_order=None)


def case_sets(case):
    """Base names of the topology / coordinate candidates that remain in the sets the code iterates over: the explicit species'
    files are removed by the code when the strings coincide (no alias, 'copy'), and stay when they are named differently."""
    top_ext, coor_ext = {"itp"}, {"gro"}
    _, cand, known, _, _, _ = sort_case_spec(_plain(case), "")
    gone = {f for k in known for f in k} if case.get("alias") in (None, "copy") else set()
    t = sorted(f for f in cand if extension_of(f) in top_ext and f not in gone)
    c = sorted(f for f in cand if extension_of(f) in coor_ext and f not in gone)
    return t, c


def _explicit_files(case):
    if case.get("alias") in ("dot", "rel"):
        return []                   # already among the permuted names
    _, _, known, _, _, _ = sort_case_spec(_plain(case), "")
    return [f for k in known for f in k]


def cex_sort(case, tops_order, coords_order, clause, what):
    c = {"kind": "sort", "layout": case["layout"], "explicit": list(case["explicit"]),
         "tops_order": list(tops_order) if tops_order else None, "coords_order": list(coords_order) if coords_order else None,
         "all_files_order": case.get("all_files_order"), "alias": case.get("alias"), "clause": clause, "observed": what}
    if case["layout"] != "shipped":
        c["files"] = layout_files(LAYOUTS[case["layout"]])
    sig = what if clause == "no_exception" else clause
    c["signature"] = f"sort:{sig}"[:120]
    return c


def sort_folder(case, root):
    if case["layout"] == "shipped":
        return data_dir()
    folder = os.path.join(root, case["layout"])
    if not os.path.isdir(folder):
        write_layout(LAYOUTS[case["layout"]], folder)
    if case.get("alias") == "copy":
        texts = layout_files(LAYOUTS[case["layout"]])
        for s_ in case["explicit"]:
            for r in ROLES:
                with open(os.path.join(folder, copy_name(fname(s_, r))), "w") as fh:
                    fh.write(texts[fname(s_, r)])
    return folder


def task_sort_stubbed(layout, explicit, lo, hi, coord_mode, seed, tag, alias=None):
    """All topology-set orders [lo:hi) x coordinate-set orders (coord_mode) for one directory and explicit subset."""
    t0 = time.time()
    case = {"layout": layout, "explicit": list(explicit)}
    if alias:
        case["alias"] = alias
    root = tempfile.mkdtemp(prefix="c20_")
    try:
        folder = sort_folder(case, root)
        tnames, cnames = case_sets(case)
        # explicit species' files stay in the orders too (the code removes them itself)
        extra = _explicit_files(case)
        tperms = list(itertools.permutations(tnames))[lo:hi]
        cperms = list(itertools.permutations(cnames))
        if coord_mode == "few" and len(cperms) > 2:
            n = len(cnames)
            cperms = [tuple(cnames), tuple(reversed(cnames))]
        elif coord_mode.startswith("sample"):
            k = int(coord_mode[6:])
            allt = list(itertools.permutations(tnames))
            tperms = random.Random(1000 + seed).sample(allt, min(k, len(allt)))
        fails, first = {}, None
        n = nontriv = missed = 0
        sample = None
        for tp in tperms:
            for cp in cperms:
                to = [f for f in extra if extension_of(f) == "itp"] + list(tp)
                co = [f for f in extra if extension_of(f) == "gro"] + list(cp)
                bad, res, reached = run_sort(case, folder, to, co)
                n += 1
                missed += 0 if reached else 1
                nontriv += 1 if tnames else 0
                if first is None:
                    first = (res, tp, cp)
                    sample = {"layout": layout, "explicit": list(explicit), "alias": alias, "topology_set_order": list(tp),
                              "coordinate_set_order": list(cp), "result": res}
                elif res != first[0] and "same_result_for_every_order" not in fails and not isinstance(res, str):
                    bad = dict(bad, same_result_for_every_order=f"orders {list(first[1])}/{list(first[2])} give {first[0]} "
                                                                f"but {list(tp)}/{list(cp)} give {res}")
                for cl, what in bad.items():
                    if cl not in fails:
                        fails[cl] = (cex_sort(case, to, co, cl, what), what)
        secs = time.time() - t0
        out = []
        for cl in SORT_CLAUSES:
            oid = f"{PROP}/sort_molecules/ensures.{cl}/{tag}"
            if cl in fails:
                out.append(ob(oid, "refuted", cex=fails[cl][0], reason=f"{fails[cl][1]} [topology order {fails[cl][0]['tops_order']}, "
                              f"coordinate order {fails[cl][0]['coords_order']}]", evaluations=n, nontrivial=nontriv, secs=secs, **KW))
            else:
                out.append(ob(oid, "discharged", sample=sample, evaluations=n, nontrivial=nontriv, secs=secs, **KW))
        out += _sort_info(fails, tag, n, secs)
        out.append(ob(f"{PROP}/sort_molecules/guard.adversarial-order-reached/{tag}", "discharged" if missed == 0 and n > 0 else "refuted",
                      kind="guard", engine="smallscope", backend="runtime-contract", expect="discharged",
                      reason=f"{missed} of {n} runs did not call/iterate the classify_files stub"))
        return out
    finally:
        shutil.rmtree(root, ignore_errors=True)


def all_subsets(letters):
    return [c for k in range(len(letters) + 1) for c in itertools.combinations(letters, k)]


def list_orderings(names, how, seed):
    names = list(names)
    outs = [tuple(names), tuple(reversed(names))]
    outs += [tuple(names[i:] + names[:i]) for i in range(1, len(names))]
    rng = random.Random(seed)
    for _ in range(how):
        p = names[:]
        rng.shuffle(p)
        outs.append(tuple(p))
    seen, res = set(), []
    for o in outs:
        if o not in seen:
            seen.add(o)
            res.append(o)
    return res


def task_sort_native(layouts, n_shuffles, seed, tag, aliases=(None,)):
    """The unstubbed function with real sets: orderings of the candidate list (relative names, so that the string hashes and
    hence the real sets' iteration orders are reproducible under the fixed PYTHONHASHSEED of ./check)."""
    t0 = time.time()
    root = tempfile.mkdtemp(prefix="c20_")
    try:
        fails = {}
        n = 0
        sample = None
        for layout in layouts:
            lay = LAYOUTS[layout]
            folder = sort_folder({"layout": layout}, root)
            with cwd(folder):
                for explicit, alias in itertools.product(all_subsets(lay["species"]), aliases):
                    if alias and not explicit:
                        continue
                    first = None
                    base = {"layout": layout, "explicit": list(explicit), "alias": alias}
                    sort_folder(base, root)
                    for order in list_orderings(case_candidate_names(base), n_shuffles, seed + 7):
                        case = dict(base, all_files_order=list(order))
                        bad, res, _ = run_sort(case, "")
                        n += 1
                        if first is None:
                            first = (res, order)
                            if sample is None and not explicit:
                                sample = {"layout": layout, "all_files": list(order), "result": res}
                        elif res != first[0] and not isinstance(res, str):
                            bad = dict(bad, same_result_for_every_order=f"all_files {list(first[1])} gives {first[0]} but "
                                                                        f"{list(order)} gives {res}")
                        for cl, what in bad.items():
                            if cl not in fails:
                                fails[cl] = (cex_sort(case, None, None, cl, what), what)
        secs = time.time() - t0
        out = []
        for cl in SORT_CLAUSES:
            oid = f"{PROP}/sort_molecules/ensures.{cl}/{tag}"
            if cl in fails:
                out.append(ob(oid, "refuted", cex=fails[cl][0], reason=fails[cl][1], evaluations=n, nontrivial=n, secs=secs, **KW))
            else:
                out.append(ob(oid, "discharged", sample=sample, evaluations=n, nontrivial=n, secs=secs, **KW))
        out += _sort_info(fails, tag, n, secs)
        return out
    finally:
        shutil.rmtree(root, ignore_errors=True)


HASHSEED_SCRIPT = r"""
import sys, json, io, contextlib, warnings
warnings.simplefilter("ignore")
from gaddlemaps import _cli
ref, cand, known = json.loads(sys.argv[1])
with contextlib.redirect_stdout(io.StringIO()):
    try:
        r = _cli.sort_molecules(ref, cand, known)
        out = {"result": {k: dict(v) for k, v in r.items()}, "key_order": list(r)}
    except Exception as e:
        out = {"exception": f"raises {type(e).__name__}: {e}"}
print("C20RESULT" + json.dumps(out))
"""


def run_hashseed(case, folder, hashseed):
    """sort_molecules in a fresh interpreter under PYTHONHASHSEED=hashseed (relative file names, cwd=folder)."""
    with cwd(folder):
        ref, cand, known, expected, explicit_names, incomplete = sort_case_spec(case, "")
    env = dict(os.environ, PYTHONHASHSEED=str(hashseed))
    p = subprocess.run([sys.executable, "-c", HASHSEED_SCRIPT, json.dumps([ref, cand, known])], cwd=folder, env=env,
                       capture_output=True, text=True, timeout=120)
    line = [l for l in p.stdout.splitlines() if l.startswith("C20RESULT")]
    if not line:
        raise RuntimeError(f"subprocess gave no result: rc={p.returncode} stderr={p.stderr[-400:]}")
    o = json.loads(line[0][len("C20RESULT"):])
    with cwd(folder):
        if "exception" in o:
            return {"no_exception": o["exception"]}, o["exception"]
        here = os.getcwd()
        return (_strip(sort_post(o["result"], None, expected, explicit_names, incomplete), here),
                _strip(canon(o["result"]), here))


def task_sort_hashseed(layout, seeds, tag, alias=None):
    t0 = time.time()
    root = tempfile.mkdtemp(prefix="c20_")
    try:
        folder = sort_folder({"layout": layout}, root)
        lay = LAYOUTS[layout]
        fails = {}
        n = 0
        first = None
        sample = None
        for explicit in (((), tuple(lay["species"][:1])) if not alias else (tuple(lay["species"][:1]), tuple(lay["species"][-1:]))):
            for hs in seeds:
                case = {"layout": layout, "explicit": list(explicit), "alias": alias}
                sort_folder(case, root)
                case["all_files_order"] = case_candidate_names(case)
                bad, res = run_hashseed(case, folder, hs)
                n += 1
                if not explicit:
                    if first is None:
                        first = (res, hs)
                        sample = {"layout": layout, "PYTHONHASHSEED": hs, "result": res}
                    elif res != first[0]:
                        bad = dict(bad, same_result_for_every_order=f"PYTHONHASHSEED={first[1]} gives {first[0]}, {hs} gives {res}")
                for cl, what in bad.items():
                    if cl not in fails:
                        c = cex_sort(case, None, None, cl, what)
                        c["hashseed"] = hs
                        fails[cl] = (c, what)
        secs = time.time() - t0
        out = []
        for cl in SORT_CLAUSES:
            oid = f"{PROP}/sort_molecules/ensures.{cl}/{tag}"
            if cl in fails:
                out.append(ob(oid, "refuted", cex=fails[cl][0], reason=fails[cl][1] + f" [PYTHONHASHSEED={fails[cl][0]['hashseed']}]",
                              evaluations=n, nontrivial=n, secs=secs, **dict(KW, backend="subprocess-hashseed")))
            else:
                out.append(ob(oid, "discharged", sample=sample, evaluations=n, nontrivial=n, secs=secs,
                              **dict(KW, backend="subprocess-hashseed")))
        out += _sort_info(fails, tag, n, secs)
        return out
    finally:
        shutil.rmtree(root, ignore_errors=True)


def task_sort_guards(seed):
    out = []
    g = dict(kind="guard", engine="smallscope", backend="runtime-contract")
    # AdvSet behaves as a set with the chosen iteration order
    s = AdvSet({"a", "b", "c", "d"}, ["c", "a", "d", "b"])
    ok = list(s) == ["c", "a", "d", "b"] and "a" in s and "z" not in s
    s.remove("a")
    ok = ok and list(s) == ["c", "d", "b"] and [x for x in s] == ["c", "d", "b"] and len(s) == 3 and "a" not in s
    ok = ok and [i for i, _ in [(i, m) for i, m in enumerate(s)]] == [0, 1, 2] and isinstance(s, set)
    out.append(ob(f"{PROP}/sort_molecules/guard.advset-is-a-set-with-chosen-order", "discharged" if ok else "refuted", expect="discharged", **g))
    # must-fail: corrupted observations are rejected by the contract evaluator
    case = {"layout": "S2", "explicit": ["A"]}
    _, _, _, expected, explicit_names, incomplete = sort_case_spec(case, "")
    good = {n: dict(t) for n, t in expected.items()}
    caught = sort_post(good, None, expected, explicit_names, incomplete) == {}
    swapped = {n: dict(t, top_AA=t["top_CG"], top_CG=t["top_AA"]) for n, t in expected.items()}
    caught = caught and "exact_triples" in sort_post(swapped, None, expected, explicit_names, incomplete)
    readd = dict(good, MA={r: fname("A", r) for r in ROLES})
    caught = caught and "explicit_species_not_readded" in sort_post(readd, None, expected, explicit_names, incomplete)
    foreign = dict(good, MX={"top_CG": "X_other.itp", "top_AA": "X_other.itp", "coor_AA": "stray.gro"})
    caught = caught and "only_system_species" in sort_post(foreign, None, expected, explicit_names, incomplete)
    byfile = {t["top_CG"]: dict(t) for t in expected.values()}
    caught = caught and "exact_triples" in sort_post(byfile, None, expected, explicit_names, incomplete)
    caught = caught and "no_exception" in sort_post(None, KeyError("top_AA"), expected, explicit_names, incomplete)
    out.append(ob(f"{PROP}/sort_molecules/guard.must-fail", "refuted" if caught else "discharged", expect="refuted", **g))
    # must-fail on the real code: a wrong expectation (end and start topologies exchanged) is refuted by a real run
    root = tempfile.mkdtemp(prefix="c20_")
    try:
        folder = sort_folder({"layout": "S1"}, root)
        from gaddlemaps import _cli
        ref, cand, known, expected, explicit_names, incomplete = sort_case_spec({"layout": "S1", "explicit": []}, folder)
        r = exc = None
        try:
            with quiet():
                r = _cli.sort_molecules(ref, cand, known)
        except Exception as e:
            exc = e
        wrong = {n: dict(t, top_AA=t["top_CG"], top_CG=t["top_AA"]) for n, t in expected.items()}
        caught = bool(sort_post(r, exc, wrong, explicit_names, incomplete))
        out.append(ob(f"{PROP}/sort_molecules/guard.must-fail-on-real-run", "refuted" if caught else "discharged", expect="refuted", **g))
    finally:
        shutil.rmtree(root, ignore_errors=True)
    return out


# ---------------------------------------------------------------------------
# main / auto_map protocol contract

MAIN_LAYOUT = "S3"
MAIN_ALL = "ABC"


def snapshot(manager):
    snap = {}
    for name, ali in manager.molecule_correspondence.items():
        end = ali.end
        if end is None:
            snap[name] = None
        else:
            snap[name] = {"name": str(end.name), "natoms": len(end),
                          "positions": [[float(x) for x in row] for row in end.atoms_positions]}
    return snap


def make_spy(log):
    """Recording subclass of the real Manager (built per run; the real class is looked up now)."""
    import gaddlemaps
    from gaddlemaps.components import System
    Real = gaddlemaps.Manager

    class SpyManager(Real):
        @classmethod
        def from_files(cls, f_system_gro, *ftops):
            log.append({"call": "from_files", "coords": f_system_gro, "coords_abs": _ap(f_system_gro), "tops": list(ftops),
                        "tops_abs": [_ap(t) for t in ftops]})
            return cls(System(f_system_gro, *ftops))

        def align_molecules(self, *a, **k):
            log.append({"call": "align_molecules", "args": [repr(x) for x in a], "kwargs": {kk: repr(v) for kk, v in k.items()},
                        "default_call": all(x is None for x in a) and all(v is None or (kk == "parse_restrictions" and v is True)
                                                                          for kk, v in k.items()),
                        "ends": snapshot(self)})

        def calculate_exchange_maps(self, *a, **k):
            e = {"call": "calculate_exchange_maps", "args": [repr(x) for x in a], "kwargs": {kk: repr(v) for kk, v in k.items()},
                 "ends": snapshot(self)}
            try:
                e["scale"] = float(a[0]) if a else float(k.get("scale_factor", 0.5))
            except Exception:
                e["scale"] = None
            e["extra_args"] = len(a) > 1 or bool(set(k) - {"scale_factor"})
            log.append(e)
            return Real.calculate_exchange_maps(self, *a, **k)

        def extrapolate_system(self, *a, **k):
            path = a[0] if a else k.get("fgro_out")
            log.append({"call": "extrapolate_system", "path": None if path is None else str(path),
                        "path_abs": None if path is None else _ap(str(path)), "ends": snapshot(self)})
            return Real.extrapolate_system(self, *a, **k)

    return SpyManager


def main_env(case, root):
    """-> (working directory for the run, argv, expectation dict).  `root` holds work/ (inputs), out/, elsewhere/."""
    work = os.path.join(root, "work")
    style = case["style"]
    if style == "abs":
        run_dir, P = os.path.join(root, "elsewhere"), (lambda f: os.path.join(work, f))
    elif style == "rel-same":
        run_dir, P = work, (lambda f: f)
    elif style == "rel-sub":
        run_dir, P = root, (lambda f: os.path.join("work", f))
    else:
        raise ValueError(style)
    coords = P(DOTTED_INPUT if case.get("dotted_input") else "sys.gro")
    argv = ["gaddlemaps", coords]
    for s in case["explicit"]:
        argv += ["--mol", P(fname(s, "top_CG")), P(fname(s, "coor_AA")), P(renamed_end_top(s) if case.get("renamed_end") else fname(s, "top_AA"))]
    if case["scale"] is not None:
        argv += ["--scale", repr(case["scale"])]
    if case["outfile"] == "abs":
        outfile = os.path.join(root, "out", "custom_name.gro")
        argv += ["-o", outfile]
    elif case["outfile"] == "rel":
        outfile = "custom_rel.gro"
        argv += ["--outfile", outfile]
    else:
        outfile = None
    if case["auto"]:
        # alias: the --auto list names the files through other strings than --mol does
        alias = case.get("alias")
        listed = list(case.get("auto_order") or layout_files(LAYOUTS[MAIN_LAYOUT]))
        if alias == "dot":
            Pa = lambda f: os.path.join(os.path.dirname(P(f)), ".", f)
        elif alias == "rel":
            Pa = lambda f: os.path.relpath(P(f), run_dir) if os.path.isabs(P(f)) else os.path.join(work, f)
        else:
            Pa = P
            if alias == "copy" and not case.get("auto_order"):
                listed += [copy_name(fname(s, r)) for s in case["explicit"] for r in ROLES]
        argv += ["--auto"] + [Pa(f) for f in listed]
        if case["exclude"] is not None:
            argv += ["--exclude"] + list(case["exclude"])
    excluded = set(case["exclude"] or []) if case["auto"] else set()
    auto_species = [s for s in MAIN_ALL if s not in case["explicit"] and SPECIES[s][0] not in excluded] if case["auto"] else []
    if outfile is not None:
        out_abs = os.path.normpath(os.path.join(run_dir, outfile))
    else:
        out_abs = os.path.normpath(os.path.join(run_dir, os.path.dirname(coords), "mapped_" + os.path.basename(coords)))
    mapped = list(case["explicit"]) + auto_species
    exp = {
        "coords_abs": os.path.normpath(os.path.join(run_dir, coords)),
        "explicit_tops_abs": [os.path.join(work, fname(s, "top_CG")) for s in case["explicit"]],
        "auto_tops_abs": sorted(os.path.join(work, fname(s, "top_CG")) for s in auto_species),
        "mapped_names": sorted(SPECIES[s][0] for s in mapped),
        "ends": {SPECIES[s][0]: {"name": SPECIES[s][0], "natoms": SPECIES[s][3], "positions": [list(p) for p in end_positions(s)]}
                 for s in mapped},
        "scale": 0.5 if case["scale"] is None else float(case["scale"]),
        "scale_given": case["scale"] is not None,
        "out_abs": out_abs,
        "out_natoms": sum(SPECIES[s][3] for s in LAYOUTS[MAIN_LAYOUT]["seq"] if s in mapped),
    }
    return run_dir, argv, exp


def main_inputs():
    """Input files of the main() scenarios: the layout plus an identical copy, under another name, of every species file."""
    texts = dict(layout_files(LAYOUTS[MAIN_LAYOUT]))
    for s_ in MAIN_ALL:
        for r in ROLES:
            texts[copy_name(fname(s_, r))] = texts[fname(s_, r)]
        # the same end topology under another [ moleculetype ] name: explicit triples do not require equal names in both resolutions
        texts[renamed_end_top(s_)] = texts[fname(s_, "top_AA")].replace("%s 1" % SPECIES[s_][0], "%s_AA 1" % SPECIES[s_][0], 1)
    texts[DOTTED_INPUT] = texts["sys.gro"]
    return texts


DOTTED_INPUT = "sys.part0002.gro"        # the same system under a name with more than one dot: the default output is mapped_<that name>


def renamed_end_top(letter):
    return f"{letter}_aa_other_name.itp"


def prepare_main_root(root):
    os.makedirs(os.path.join(root, "work"), exist_ok=True)
    for f, text in main_inputs().items():
        with open(os.path.join(root, "work", f), "w") as fh:
            fh.write(text)
    os.makedirs(os.path.join(root, "out"), exist_ok=True)
    os.makedirs(os.path.join(root, "elsewhere"), exist_ok=True)


def clean_outputs(root):
    """Remove every file produced by a run (anything that is not an input)."""
    inputs = set(main_inputs())
    made = []
    for d, _, fs in os.walk(root):
        for f in fs:
            p = os.path.join(d, f)
            if not (os.path.dirname(p) == os.path.join(root, "work") and f in inputs):
                made.append(p)
                os.remove(p)
    return made


def _ends_ok(snap, exp_ends):
    if snap is None:
        return False, "no snapshot"
    have = {n: e for n, e in snap.items() if e is not None}
    if sorted(have) != sorted(exp_ends):
        return False, f"species with an end molecule {sorted(have)}, expected {sorted(exp_ends)}"
    for n, e in have.items():
        x = exp_ends[n]
        if e["name"] != x["name"] or e["natoms"] != x["natoms"]:
            return False, f"{n}: end molecule {e['name']} with {e['natoms']} atoms, expected {x['name']} with {x['natoms']}"
        for p, q in zip(e["positions"], x["positions"]):
            if max(abs(a - b) for a, b in zip(p, q)) > 1e-6:
                return False, f"{n}: end molecule coordinates {e['positions']} are not those of its end file {x['positions']}"
    return True, ""


def main_post(log, exc, exp, produced):
    """-> dict clause -> description of the violation.

    Refutable clauses are what the STATEMENT fixes: a result is produced; exactly one file, at the requested path or
    mapped_<input name> beside the input; the mapped species are the explicit ones plus the discovered, non-excluded ones, none
    twice; every mapped species' end molecule is the one of its own end files, attached when the alignment starts; a GIVEN
    scale reaches the exchange maps.  Clauses named "info.*" describe HOW the code drives Manager (which methods, order of the
    species, positional/keyword, the default scale): a mismatch there is reported as undecided, never as a violation -- whether
    such a variant still gives the library workflow's output is decided by the end-to-end obligation."""
    if exc is not None:
        # the run stopped early: the remaining clauses cannot be evaluated on a partial record
        done = [e["call"] for e in log]
        return {"no_exception": f"raises {type(exc).__name__}: {exc} (after calls {done})"[:400]}
    bad = {}
    shape = []
    calls = [e["call"] for e in log]
    ff = [e for e in log if e["call"] == "from_files"]
    al = [e for e in log if e["call"] == "align_molecules"]
    cm = [e for e in log if e["call"] == "calculate_exchange_maps"]
    ex = [e for e in log if e["call"] == "extrapolate_system"]
    # -- output file (file system, independent of the recorder)
    files = [os.path.normpath(p) for p in produced["files"]]
    if files != [exp["out_abs"]]:
        bad["output_requested_path_or_mapped_beside_input"] = f"files written {produced['files']}, expected exactly {exp['out_abs']}"
    # -- mapped species
    want_tops = sorted(exp["explicit_tops_abs"] + exp["auto_tops_abs"])
    why = None
    if files == [exp["out_abs"]] and produced["natoms"] is not None and produced["natoms"] != exp["out_natoms"]:
        why = f"output has {produced['natoms']} atoms, expected {exp['out_natoms']} (instances of the mapped species only)"
    if why is None and len(ff) == 1:
        tops = [os.path.normpath(t) for t in ff[0]["tops_abs"]]
        if sorted(tops) != want_tops:
            why = f"start topologies loaded {ff[0]['tops']}, expected exactly those of {exp['mapped_names']} (none twice, none excluded)"
    last = (ex or cm or al)
    if why is None and last and last[-1]["ends"] is not None:
        have = sorted(n for n, e in last[-1]["ends"].items() if e is not None)
        if have != exp["mapped_names"]:
            why = f"species with an end molecule {have}, expected {exp['mapped_names']}"
    if why:
        bad["mapped_species_explicit_plus_discovered_nonexcluded_none_twice"] = why
    # -- end molecules
    first = (al or cm or ex)
    if first:
        ok, why = _ends_ok(first[0]["ends"], exp["ends"])
        if not ok:
            bad["end_molecules_attached_by_name_before_alignment"] = why
    else:
        shape.append("no alignment/exchange-map/extrapolation call was seen on the Manager")
    # -- scale
    if cm:
        sc = cm[0]["scale"]
        if sc is None or abs(sc - exp["scale"]) > 1e-12:
            text = f"calculate_exchange_maps{tuple(cm[0]['args'])}{cm[0]['kwargs']}: scale {sc}, expected {exp['scale']}"
            if exp["scale_given"]:
                bad["given_scale_forwarded"] = text
            else:
                bad["info.default_scale_half"] = text + " (no --scale given; the statement does not fix the default)"
        if cm[0]["extra_args"]:
            shape.append(f"calculate_exchange_maps got extra arguments {cm[0]['args']} {cm[0]['kwargs']}")
    # -- informational: the way Manager is driven
    if calls != ["from_files", "align_molecules", "calculate_exchange_maps", "extrapolate_system"]:
        shape.append(f"call sequence {calls}")
    if al and not al[0]["default_call"]:
        shape.append(f"align_molecules called with {al[0]['args']} {al[0]['kwargs']}")
    if ff and os.path.normpath(ff[0]["coords_abs"]) != exp["coords_abs"]:
        shape.append(f"from_files got {ff[0]['coords']}, the input is {exp['coords_abs']}")
    if ff:
        tops = [os.path.normpath(t) for t in ff[0]["tops_abs"]]
        if tops[:len(exp["explicit_tops_abs"])] != exp["explicit_tops_abs"]:
            shape.append(f"start topologies {ff[0]['tops']} do not begin with the explicit ones in the given order")
    if ex and (ex[0]["path_abs"] is None or os.path.normpath(ex[0]["path_abs"]) != exp["out_abs"]):
        shape.append(f"extrapolate_system({ex[0]['path']!r}), expected {exp['out_abs']}")
    if shape:
        bad["info.call_shape"] = "; ".join(shape)
    return bad


MAIN_CLAUSES = ("no_exception", "output_requested_path_or_mapped_beside_input",
                "mapped_species_explicit_plus_discovered_nonexcluded_none_twice",
                "end_molecules_attached_by_name_before_alignment", "given_scale_forwarded",
                "info.call_shape", "info.default_scale_half")
MAIN_FN = {"no_exception": "main", "mapped_species_explicit_plus_discovered_nonexcluded_none_twice": "main"}


def run_main(case, root, spy=True):
    """Drive the real main() in-process. -> (violations, log, expectation, argv)"""
    import gaddlemaps
    from gaddlemaps import _cli
    run_dir, argv, exp = main_env(case, root)
    clean_outputs(root)
    log = []
    exc = None
    old_argv = sys.argv
    try:
        with cwd(run_dir), quiet():
            sys.argv = list(argv)
            try:
                with patched(gaddlemaps, Manager=make_spy(log)):
                    _cli.main()
            except (Exception, SystemExit) as e:
                exc = e
    finally:
        sys.argv = old_argv
    produced = {"files": [], "natoms": None}
    for d, _, fs in os.walk(root):
        for f in sorted(fs):
            p = os.path.join(d, f)
            if not (d == os.path.join(root, "work") and f in main_inputs()):
                produced["files"].append(p)
    if len(produced["files"]) == 1:
        try:
            with open(produced["files"][0]) as fh:
                fh.readline()
                produced["natoms"] = int(fh.readline().split()[0])
        except Exception:
            produced["natoms"] = None
    bad = main_post(log, exc, exp, produced)
    return bad, log, exp, argv


def main_cases():
    """Exhaustive list of argv combinations (dicts, deterministic order, smallest first)."""
    cases = []
    explicit_lists = [p for k in (0, 1, 2) for p in itertools.permutations(MAIN_ALL, k)]
    for explicit in explicit_lists:
        rest = [SPECIES[s][0] for s in MAIN_ALL if s not in explicit]
        autos = [(False, None)] if explicit else []
        excl = [None, ["ZZZ"]] + [[n] for n in rest] + ([rest[:2]] if len(rest) >= 2 else []) + [[rest[-1], "ZZZ"]]
        for e in excl:
            if not explicit and e is not None and set(rest) <= set(e):
                continue            # nothing left to map: outside the property (no mapping requested)
            autos.append((True, e))
        for auto, e in autos:
            for scale in (None, 0.3, 1.0):
                for outfile, style in ((None, "abs"), (None, "rel-same"), (None, "rel-sub"), ("abs", "abs"), ("rel", "rel-sub")):
                    cases.append({"explicit": list(explicit), "auto": auto, "exclude": e, "scale": scale,
                                  "outfile": outfile, "style": style})
    # --mol and --auto reach the explicit species' files through different strings (appended last: chunking of the rest unchanged)
    for explicit in explicit_lists:
        rest = [SPECIES[s][0] for s in MAIN_ALL if s not in explicit]
        for alias in (ALIASES if explicit else ()):
            for e in (None, rest[:1]):
                for style in ("abs", "rel-same"):
                    cases.append({"explicit": list(explicit), "auto": True, "exclude": e, "scale": None, "outfile": None,
                                  "style": style, "alias": alias})
    return cases


def task_main_protocol(chunk, nchunks, seed):
    t0 = time.time()
    cases = main_cases()[chunk::nchunks]
    root = tempfile.mkdtemp(prefix="c20_")
    try:
        prepare_main_root(root)
        fails = {}
        n = 0
        sample = None
        spy_used = 0
        for case in cases:
            bad, log, exp, argv = run_main(case, root)
            n += 1
            spy_used += 1 if (log or "no_exception" in bad) else 0
            if sample is None:
                sample = {"argv": [a.replace(root, "<tmp>") for a in argv],
                          "calls": [e["call"] for e in log], "expected_output": exp["out_abs"].replace(root, "<tmp>")}
            for cl, what in bad.items():
                if cl not in fails:
                    fails[cl] = ({"kind": "main", "case": case, "clause": cl, "argv": [a.replace(root, "<tmp>") for a in argv],
                                  "observed": what.replace(root, "<tmp>"), "signature": f"main:{cl}"}, what.replace(root, "<tmp>"))
        clean_outputs(root)
        secs = time.time() - t0
        out = []
        tag = f"argv[{chunk}::{nchunks}]"
        for cl in MAIN_CLAUSES:
            info_cl = cl.startswith("info.")
            oid = f"{PROP}/{MAIN_FN.get(cl, 'auto_map')}/" + (f"informational.{cl[5:]}" if info_cl else f"ensures.{cl}") + f"/{tag}"
            if cl in fails and info_cl:
                out.append(ob(oid, "undecided", reason=f"{fails[cl][1]} [argv {' '.join(fails[cl][0]['argv'][1:])}] -- not fixed by the "
                              f"statement; the end-to-end obligation decides", evaluations=n, nontrivial=n, secs=secs, **KW))
            elif cl in fails:
                out.append(ob(oid, "refuted", cex=fails[cl][0], reason=f"{fails[cl][1]} [argv {' '.join(fails[cl][0]['argv'][1:])}]",
                              evaluations=n, nontrivial=n, secs=secs, **KW))
            else:
                out.append(ob(oid, "discharged", sample=sample, evaluations=n, nontrivial=n, secs=secs, **KW))
        out.append(ob(f"{PROP}/main/guard.recorder-reached/{tag}", "discharged" if spy_used == n and n > 0 else "refuted", kind="guard",
                      engine="smallscope", backend="runtime-contract", expect="discharged",
                      reason=f"{n - spy_used} of {n} runs returned normally without reaching the recording Manager"))
        return out
    finally:
        shutil.rmtree(root, ignore_errors=True)


def ideal_log(exp):
    """The call record the contract describes, built from the expectation only."""
    def ends_copy():
        return {n: dict(e) for n, e in exp["ends"].items()}
    tops = exp["explicit_tops_abs"] + exp["auto_tops_abs"]
    return [{"call": "from_files", "coords": exp["coords_abs"], "coords_abs": exp["coords_abs"], "tops": list(tops), "tops_abs": list(tops)},
            {"call": "align_molecules", "args": [], "kwargs": {}, "default_call": True, "ends": ends_copy()},
            {"call": "calculate_exchange_maps", "args": [], "kwargs": {"scale_factor": repr(exp["scale"])}, "scale": exp["scale"],
             "extra_args": False, "ends": ends_copy()},
            {"call": "extrapolate_system", "path": exp["out_abs"], "path_abs": exp["out_abs"], "ends": ends_copy()}]


def task_main_guards(seed):
    """Must-fail: corrupted observations are rejected clause by clause; a wrong expectation is refuted by a real run."""
    import copy
    root = tempfile.mkdtemp(prefix="c20_")
    g = dict(kind="guard", engine="smallscope", backend="runtime-contract")
    try:
        prepare_main_root(root)
        case = {"explicit": ["B"], "auto": True, "exclude": ["MC"], "scale": 0.3, "outfile": None, "style": "abs"}
        _, _, exp = main_env(case, root)
        log = ideal_log(exp)
        produced = {"files": [exp["out_abs"]], "natoms": exp["out_natoms"]}
        base_ok = not main_post(log, None, exp, produced)

        def corrupt(fn):
            lg = copy.deepcopy(log)
            pr = copy.deepcopy(produced)
            fn(lg, pr)
            return main_post(lg, None, exp, pr)

        def c_scale(lg, pr):
            lg[2]["scale"] = 0.5

        def c_path(lg, pr):
            pr["files"] = [os.path.join(os.path.dirname(exp["out_abs"]), "sys.gro_mapped")]

        def c_cwd(lg, pr):
            pr["files"] = [os.path.join(root, "elsewhere", "mapped_sys.gro")]

        def c_two(lg, pr):
            pr["files"] = [exp["out_abs"], os.path.join(root, "elsewhere", "mapped_sys.gro")]

        def c_excl(lg, pr):
            lg[0]["tops_abs"].append(os.path.join(root, "work", fname("C", "top_CG")))

        def c_readd(lg, pr):
            lg[0]["tops_abs"].append(os.path.join(root, "work", fname("B", "top_CG")))

        def c_drop(lg, pr):
            lg[0]["tops_abs"].pop()

        def c_order(lg, pr):
            lg[0]["tops_abs"].reverse()

        def c_seq(lg, pr):
            lg[1], lg[2] = lg[2], lg[1]

        def c_end(lg, pr):
            lg[1]["ends"]["MA"] = None

        def c_end2(lg, pr):
            lg[1]["ends"]["MA"], lg[1]["ends"]["MB"] = lg[1]["ends"]["MB"], lg[1]["ends"]["MA"]

        def c_endx(lg, pr):
            lg[3]["ends"]["MC"] = dict(lg[3]["ends"]["MA"])

        def c_natoms(lg, pr):
            pr["natoms"] += SPECIES["C"][3]

        out_cl, sp_cl = "output_requested_path_or_mapped_beside_input", "mapped_species_explicit_plus_discovered_nonexcluded_none_twice"
        want = {c_scale: "given_scale_forwarded", c_path: out_cl, c_cwd: out_cl, c_two: out_cl,
                c_excl: sp_cl, c_readd: sp_cl, c_drop: sp_cl, c_endx: sp_cl, c_natoms: sp_cl,
                c_order: "info.call_shape", c_seq: "info.call_shape",
                c_end: "end_molecules_attached_by_name_before_alignment", c_end2: "end_molecules_attached_by_name_before_alignment"}
        missed = [f.__name__ for f, cl in want.items() if cl not in corrupt(f)]
        caught = base_ok and not missed
        out = [ob(f"{PROP}/main/guard.must-fail", "refuted" if caught else "discharged", expect="refuted",
                  reason=f"ideal record accepted={base_ok}; corruptions not rejected: {missed}", **g)]
        # a deliberately wrong expectation (scale 0.31, output one directory up) evaluated on a real run must be refuted
        run_dir, argv, exp = main_env(case, root)
        bad, log, exp, argv = run_main(case, root)
        wrong = dict(exp, scale=0.31, out_abs=os.path.join(root, "mapped_sys.gro"))
        produced = {"files": clean_outputs_list(root), "natoms": exp["out_natoms"]}
        w = main_post(log, None, wrong, produced)
        caught = ("given_scale_forwarded" in w and "output_requested_path_or_mapped_beside_input" in w) or "no_exception" in bad
        out.append(ob(f"{PROP}/main/guard.must-fail-on-real-run", "refuted" if caught else "discharged", expect="refuted", **g))
        return out
    finally:
        shutil.rmtree(root, ignore_errors=True)


# ---------------------------------------------------------------------------
# end-to-end: command line == library workflow for the same numpy seed (explicit triples)

def e2e_cases():
    cases = []
    for explicit in (["A"], ["A", "B"], ["B", "A"], ["C", "A"]):
        # the scale is always GIVEN here (the statement does not fix the default)
        for scale, outfile, style in ((0.7, None, "rel-sub"), (0.3, "abs", "abs")):
            cases.append({"explicit": explicit, "auto": False, "exclude": None, "scale": scale, "outfile": outfile, "style": style})
    # end topologies whose [ moleculetype ] name differs from the start topology's (allowed for explicit triples)
    cases.append({"explicit": ["A"], "auto": False, "exclude": None, "scale": 0.7, "outfile": None, "style": "rel-sub", "renamed_end": True})
    cases.append({"explicit": ["B", "A"], "auto": False, "exclude": None, "scale": 0.3, "outfile": "abs", "style": "abs", "renamed_end": True})
    # input file name with more than one dot, no -o: the output is mapped_<input name> beside the input
    cases.append({"explicit": ["A"], "auto": False, "exclude": None, "scale": 0.6, "outfile": None, "style": "rel-sub", "dotted_input": True})
    cases.append({"explicit": ["A", "B"], "auto": False, "exclude": None, "scale": 0.6, "outfile": None, "style": "abs", "dotted_input": True})
    return cases


def run_e2e(case, root, npseed):
    """-> (violation text or None, details)"""
    import numpy as np
    import gaddlemaps
    from gaddlemaps import _cli
    from gaddlemaps.components import Molecule
    run_dir, argv, exp = main_env(case, root)
    clean_outputs(root)
    old_argv = sys.argv
    exc = None
    try:
        with cwd(run_dir), quiet():
            sys.argv = list(argv)
            np.random.seed(npseed)
            random.seed(npseed)
            try:
                _cli.main()
            except (Exception, SystemExit) as e:
                exc = e
    finally:
        sys.argv = old_argv
    if exc is not None:
        return f"command line raises {type(exc).__name__}: {exc}", {}
    made = clean_outputs_list(root)
    if [os.path.normpath(p) for p in made] != [exp["out_abs"]]:
        return f"command line wrote {made}, expected exactly {exp['out_abs']}", {}
    with open(exp["out_abs"]) as fh:
        cli_text = fh.read()
    clean_outputs(root)
    # the library workflow, written from the documentation of Manager.  The statement does not fix the order in which the
    # species are handed to the library, so any order of the explicit species that gives the same bytes is accepted.
    work = os.path.join(root, "work")
    lib_out = os.path.join(root, "out", "library.gro")
    first_diff = None
    for order in itertools.permutations(case["explicit"]):
        with quiet():
            np.random.seed(npseed)
            random.seed(npseed)
            man = gaddlemaps.Manager.from_files(os.path.join(work, DOTTED_INPUT if case.get("dotted_input") else "sys.gro"),
                                                *[os.path.join(work, fname(s, "top_CG")) for s in order])
            if case.get("renamed_end"):
                for s in order:         # the end topology carries another molecule name: attach it to its species explicitly
                    man.molecule_correspondence[SPECIES[s][0]].end = Molecule.from_files(os.path.join(work, fname(s, "coor_AA")),
                                                                                         os.path.join(work, renamed_end_top(s)))
            else:
                man.add_end_molecules(*[Molecule.from_files(os.path.join(work, fname(s, "coor_AA")), os.path.join(work, fname(s, "top_AA")))
                                        for s in order])
            man.align_molecules()
            man.calculate_exchange_maps(scale_factor=exp["scale"])
            man.extrapolate_system(lib_out)
        with open(lib_out) as fh:
            lib_text = fh.read()
        clean_outputs(root)
        if cli_text == lib_text:
            return None, {"bytes": len(cli_text), "library_order": list(order)}
        if first_diff is None:
            a, b = cli_text.splitlines(), lib_text.splitlines()
            diff = next((i for i, (x, y) in enumerate(zip(a, b)) if x != y), min(len(a), len(b)))
            first_diff = (f"output differs from the library workflow (seed {npseed}, scale {exp['scale']}, every order of the species) "
                          f"at line {diff + 1}: {a[diff] if diff < len(a) else '<eof>'!r} vs {b[diff] if diff < len(b) else '<eof>'!r}")
    return first_diff, {}


def clean_outputs_list(root):
    inputs = set(main_inputs())
    made = []
    for d, _, fs in os.walk(root):
        for f in sorted(fs):
            p = os.path.join(d, f)
            if not (os.path.dirname(p) == os.path.join(root, "work") and f in inputs):
                made.append(p)
    return made


def task_e2e(chunk, nchunks, seed):
    t0 = time.time()
    cases = e2e_cases()[chunk::nchunks]
    root = tempfile.mkdtemp(prefix="c20_")
    try:
        prepare_main_root(root)
        fail = None
        n = 0
        sample = None
        for case in cases:
            what, det = run_e2e(case, root, 12345 + seed)
            n += 1
            if what is None and sample is None:
                sample = {"case": case, "numpy_seed": 12345 + seed, "output_bytes": det.get("bytes")}
            if what is not None and fail is None:
                what = what.replace(root, "<tmp>")
                fail = ({"kind": "e2e", "case": case, "npseed": 12345 + seed, "observed": what, "signature": "e2e:differs"}, what)
        secs = time.time() - t0
        oid = f"{PROP}/main/ensures.same_output_as_library_workflow_for_same_seed/explicit-triples[{chunk}::{nchunks}]"
        if fail:
            return [ob(oid, "refuted", cex=fail[0], reason=fail[1], evaluations=n, nontrivial=n, secs=secs, **KW)]
        return [ob(oid, "discharged", sample=sample, evaluations=n, nontrivial=n, secs=secs, **KW)]
    finally:
        shutil.rmtree(root, ignore_errors=True)


E2E_HASH_SCRIPT = r"""
import sys, json, random
import numpy
argv, npseed = json.loads(sys.argv[1])
numpy.random.seed(npseed); random.seed(npseed)
sys.argv = list(argv)
import io, contextlib, warnings
warnings.simplefilter("ignore")
from gaddlemaps import _cli
with contextlib.redirect_stdout(io.StringIO()):
    _cli.main()
print("C20DONE")
"""

ORDER_PROBE = "import sys, json; print(json.dumps(list(set(json.loads(sys.argv[1])))))"


def task_e2e_hashseed(seed, n_probe=24):
    """The command line with three explicit species, run in fresh interpreters under different PYTHONHASHSEED values and the same
    numpy/random seed, must write the same bytes ('for the same random seed, the same output file').  The hash seeds are chosen
    adversarially: among the first n_probe, those under which a set of the start-topology arguments iterates in pairwise different orders."""
    t0 = time.time()
    oid = f"{PROP}/main/ensures.same_output_for_same_seed_whatever_the_interpreter_hash_seed/explicit-triples[3 species]"
    root = tempfile.mkdtemp(prefix="c20_")
    try:
        prepare_main_root(root)
        case = {"explicit": ["A", "B", "C"], "auto": False, "exclude": None, "scale": 0.4, "outfile": None, "style": "rel-sub"}
        run_dir, argv, exp = main_env(case, root)
        tops = [argv[i + 1] for i, a in enumerate(argv) if a == "--mol"]
        orders = {}
        for h in range(n_probe):
            pr = subprocess.run([sys.executable, "-c", ORDER_PROBE, json.dumps(tops)], env=dict(os.environ, PYTHONHASHSEED=str(h)),
                                capture_output=True, text=True, timeout=60)
            try:
                orders.setdefault(tuple(json.loads(pr.stdout)), h)
            except Exception:
                continue
        seeds = sorted(orders.values())[:4] or [0, 1]
        if len(seeds) < 2:
            seeds = [0, 1]
        outs = {}
        for h in seeds:
            clean_outputs(root)
            pr = subprocess.run([sys.executable, "-c", E2E_HASH_SCRIPT, json.dumps([argv, 12345 + seed])], cwd=run_dir,
                                env=dict(os.environ, PYTHONHASHSEED=str(h)), capture_output=True, text=True, timeout=600)
            if "C20DONE" not in pr.stdout or not os.path.isfile(exp["out_abs"]):
                return [ob(oid, "undecided", reason=f"command line did not finish under PYTHONHASHSEED={h}: rc={pr.returncode} {pr.stderr[-300:]}", **KW)]
            with open(exp["out_abs"]) as fh:
                outs[h] = fh.read()
        clean_outputs(root)
        ref_h = seeds[0]
        bad = [h for h in seeds[1:] if outs[h] != outs[ref_h]]
        secs = time.time() - t0
        if bad:
            a, b = outs[ref_h].splitlines(), outs[bad[0]].splitlines()
            diff = next((i for i, (x, y) in enumerate(zip(a, b)) if x != y), min(len(a), len(b)))
            what = (f"same arguments, numpy/random seed {12345 + seed}: the output under PYTHONHASHSEED={bad[0]} differs from the one under "
                    f"PYTHONHASHSEED={ref_h} at line {diff + 1}: {a[diff] if diff < len(a) else '<eof>'!r} vs {b[diff] if diff < len(b) else '<eof>'!r}")
            return [ob(oid, "refuted", cex={"kind": "e2e-hash", "case": case, "npseed": 12345 + seed, "hashseeds": [ref_h, bad[0]], "observed": what,
                                            "signature": "e2e:hashseed"}, reason=what, evaluations=len(seeds), nontrivial=len(seeds), secs=secs, **KW)]
        return [ob(oid, "discharged", sample={"hash_seeds": seeds, "distinct_set_orders_of_the_start_topologies": len(orders), "output_bytes": len(outs[ref_h])},
                   evaluations=len(seeds), nontrivial=len(seeds), secs=secs, **KW)]
    finally:
        shutil.rmtree(root, ignore_errors=True)


# ---------------------------------------------------------------------------
# tasks

def _chunks(n, size):
    return [(a, min(n, a + size)) for a in range(0, n, size)]


def _fact(n):
    r = 1
    for i in range(2, n + 1):
        r *= i
    return r


def _tasks_bounded(prop, tier, seed):
    thorough = tier == "thorough"
    ts = [("classify_files/names", task_classify, (seed,), 120.0),
          ("sort_molecules/guards", task_sort_guards, (seed,), 120.0),
          ("main/guards", task_main_guards, (seed,), 120.0)]
    # generated directories, every explicit subset, all iteration-order pairs
    def add_stubbed(layout, explicit, alias=None):
        case = {"layout": layout, "explicit": list(explicit), "alias": alias}
        tn, cn = case_sets(case)
        nt, nc = _fact(len(tn)), _fact(len(cn))
        fam = f"gen.{layout}.explicit[{''.join(explicit) or '-'}]" + (f".alias-{alias}" if alias else "")
        if nt * nc <= 1000:
            ts.append((f"sort_molecules/{fam}", task_sort_stubbed,
                       (layout, explicit, 0, nt, "all", seed, f"{fam}.tops{len(tn)}!xcoords{len(cn)}!", alias), 900.0))
        else:
            mode = "all" if (thorough or nt * nc <= 5000) else "few"
            used = nc if mode == "all" else 2
            for a, b in _chunks(nt, max(1, 1000 // used)):
                ts.append((f"sort_molecules/{fam}/tops[{a}:{b}]", task_sort_stubbed,
                           (layout, explicit, a, b, mode, seed, f"{fam}.tops[{a}:{b}]xcoords.{mode}", alias), 900.0))
            if mode == "few":
                ts.append((f"sort_molecules/{fam}/coords-all", task_sort_stubbed,
                           (layout, explicit, 0, 0, "sample24", seed, f"{fam}.tops.sample24xcoords{len(cn)}!", alias), 900.0))

    for layout in ("S1", "S2", "S3", "S2W", "S2E", "S2Q", "S3Q"):
        # S2W (a system species with nothing but a start topology among the candidates) is an extra family: nothing explicit
        for explicit in (all_subsets(LAYOUTS[layout]["species"]) if layout != "S2W" else [()]):
            add_stubbed(layout, explicit)
    # the explicit triples and the candidate list name the same files through different strings (./, relative vs absolute,
    # identical copies under other names): the explicit species must not be discovered again
    for explicit in all_subsets("AB")[1:]:
        for alias in ALIASES:
            add_stubbed("S2K", explicit, alias)
    s3k = ([(e, a) for e in (("A",), ("B",), ("A", "C"), ("A", "B", "C")) for a in ALIASES] if thorough else [(("A", "C"), "dot")])
    for explicit, alias in s3k:
        add_stubbed("S3K", explicit, alias)
    # shipped BMIM/BF4
    for explicit in all_subsets(["BMIM", "BF4"]):
        case = {"layout": "shipped", "explicit": list(explicit)}
        tn, cn = case_sets(case)
        nt = _fact(len(tn))
        fam = f"shipped.bmimbf4.explicit[{'+'.join(explicit) or '-'}]"
        size = 3 if nt > 6 else nt
        for a, b in _chunks(nt, size):
            ts.append((f"sort_molecules/{fam}/tops[{a}:{b}]", task_sort_stubbed,
                       ("shipped", explicit, a, b, "all", seed, f"{fam}.tops[{a}:{b}]xcoords{len(cn)}!"), 900.0))
    # native twins
    ts.append(("sort_molecules/native-sets/S1S2", task_sort_native, (["S1", "S2"], 1500 if thorough else 60, seed, "native-sets.S1S2.list-orderings"), 900.0))
    ts.append(("sort_molecules/native-sets/S3", task_sort_native, (["S3"], 1500 if thorough else 40, seed, "native-sets.S3.list-orderings"), 900.0))
    ts.append(("sort_molecules/native-sets/S2E.S2Q", task_sort_native, (["S2E", "S2Q"], 1500 if thorough else 60, seed, "native-sets.S2E.S2Q.list-orderings"), 900.0))
    ts.append(("sort_molecules/native-sets/S3Q", task_sort_native, (["S3Q"], 1500 if thorough else 40, seed, "native-sets.S3Q.list-orderings"), 900.0))
    ts.append(("sort_molecules/native-sets/S2K.aliases", task_sort_native,
               (["S2K"], 300 if thorough else 30, seed, "native-sets.S2K.aliases.list-orderings", ALIASES), 900.0))
    hk = list(range(1, 17)) if thorough else list(range(1, 4))
    for alias in ("dot", "copy"):
        ts.append((f"sort_molecules/hashseed/S2K.alias-{alias}", task_sort_hashseed,
                   ("S2K", hk, f"hashseed.S2K.alias-{alias}[{hk[0]}..{hk[-1]}]", alias), 900.0))
    hq = list(range(1, 33)) if thorough else list(range(1, 4))
    for lay in ("S2E", "S2Q", "S3Q"):
        for i in range(0, len(hq), 8):
            part = hq[i:i + 8]
            ts.append((f"sort_molecules/hashseed/{lay}/{i // 8}", task_sort_hashseed, (lay, part, f"hashseed.{lay}[{part[0]}..{part[-1]}]"), 900.0))
    hs = list(range(1, 65)) if thorough else list(range(1, 7))
    nh = 4 if thorough else 2
    per = len(hs) // nh
    for i in range(nh):
        part = hs[i * per:(i + 1) * per]
        ts.append((f"sort_molecules/hashseed/S3/{i}", task_sort_hashseed, ("S3", part, f"hashseed.S3[{part[0]}..{part[-1]}]"), 900.0))
    # main / auto_map
    nch = 8
    for c in range(nch):
        ts.append((f"main/protocol/{c:02d}", task_main_protocol, (c, nch, seed), 900.0))
    ne = 4
    for c in range(ne):
        ts.append((f"main/e2e/{c}", task_e2e, (c, ne, seed), 900.0))
    ts.append(("main/e2e-hashseed", task_e2e_hashseed, (seed, 24 if not thorough else 64), 900.0))
    return ts


# ---------------------------------------------------------------------------
# replay on the real code

def _replay_bounded(prop, cex):
    kind = cex.get("kind")
    if kind == "classify":
        from gaddlemaps import _cli
        top_ext, coor_ext = parser_extensions()
        files = list(cex["files"])
        try:
            r = _cli.classify_files(iter(files) if cex.get("iterator") else list(files))
            bad = classify_post(files, files, r, top_ext, coor_ext)
            obs = [sorted(r[0]), sorted(r[1])]
        except Exception as e:
            bad, obs = ["no_exception"], f"raises {type(e).__name__}: {e}"
        et, ec = classify_spec(files, top_ext, coor_ext)
        return {"reproduced": bool(bad), "violated": bad, "observed": obs, "expected": [sorted(et), sorted(ec)], "inputs": cex}
    if kind == "sort":
        return _replay_sort(cex)
    if kind == "main":
        root = tempfile.mkdtemp(prefix="c20_")
        try:
            prepare_main_root(root)
            case = dict(cex["case"])
            bad, log, exp, argv = run_main(case, root)
            if not any(not k.startswith("info.") for k in bad) and case.get("auto"):
                # the scratch directory name differs from the checker's run, so the real sets may iterate differently:
                # search natively over listings of the candidate files
                names = list(layout_files(LAYOUTS[MAIN_LAYOUT]))
                if cex["case"].get("alias") == "copy":
                    names += [copy_name(fname(s_, r)) for s_ in cex["case"]["explicit"] for r in ROLES]
                for order in list_orderings(names, 80, 3):
                    case = dict(cex["case"], auto_order=list(order))
                    bad, log, exp, argv = run_main(case, root)
                    if any(not k.startswith("info.") for k in bad):
                        break
            cex = dict(cex, case=case)
            hard = {k: v for k, v in bad.items() if not k.startswith("info.")}
            return {"reproduced": bool(hard), "violated": {k: v.replace(root, "<tmp>") for k, v in bad.items()},
                    "observed": [{k: v for k, v in e.items() if k != "ends"} for e in log],
                    "expected": {k: v for k, v in exp.items() if k != "ends"}, "inputs": cex,
                    "note": "real main()/auto_map/sort_molecules run in-process on regenerated files; gaddlemaps.Manager is observed through a "
                            "recording subclass (align_molecules not executed)"}
        finally:
            shutil.rmtree(root, ignore_errors=True)
    if kind == "e2e":
        root = tempfile.mkdtemp(prefix="c20_")
        try:
            prepare_main_root(root)
            what, _ = run_e2e(cex["case"], root, cex["npseed"])
            return {"reproduced": what is not None, "observed": what, "expected": "byte-identical to the library workflow at the expected path",
                    "inputs": cex}
        finally:
            shutil.rmtree(root, ignore_errors=True)
    if kind == "e2e-hash":
        r = task_e2e_hashseed(cex["npseed"] - 12345)
        bad = [o for o in r if o.get("status") == "refuted"]
        return {"reproduced": bool(bad), "observed": bad[0].get("reason") if bad else "outputs identical under the probed hash seeds",
                "expected": "the same bytes under every interpreter hash seed for the same numpy/random seed", "inputs": cex}
    return {"reproduced": False, "note": f"unknown counterexample kind {kind!r}", "inputs": cex}


def _replay_sort(cex):
    """Native search for the failure: the real, unstubbed sort_molecules (real sets) over orderings of the candidate
    list in this interpreter, then fresh interpreters under other PYTHONHASHSEED values."""
    case = {"layout": cex["layout"], "explicit": list(cex["explicit"]), "all_files_order": cex.get("all_files_order"),
            "alias": cex.get("alias")}
    root = tempfile.mkdtemp(prefix="c20_")
    tried = 0
    try:
        folder = sort_folder(case, root)
        _, cand, _, _, _, _ = sort_case_spec(_plain(case), "")
        base = cex.get("all_files_order") or cand
        results = {}
        with cwd(folder):
            for order in list_orderings(base, 200, 1):
                c = dict(case, all_files_order=list(order))
                bad, res, _ = run_sort(c, "")
                tried += 1
                results.setdefault(json.dumps(res), list(order))
                bad = {k: v for k, v in bad.items() if not k.startswith("info.")}
                if bad:
                    return {"reproduced": True, "violated": bad, "observed": res, "all_files": list(order),
                            "how": f"real sort_molecules, real sets, PYTHONHASHSEED={os.environ.get('PYTHONHASHSEED')}, cwd=directory",
                            "inputs": cex}
                if len(results) > 1:
                    (r1, o1), (r2, o2) = list(results.items())[:2]
                    return {"reproduced": True, "violated": {"same_result_for_every_order": "two listings give different results"},
                            "observed": {"all_files_1": o1, "result_1": json.loads(r1), "all_files_2": o2, "result_2": json.loads(r2)},
                            "inputs": cex}
        for hs in range(1, 41):
            c = dict(case, all_files_order=list(base))
            bad, res = run_hashseed(c, folder, hs)
            tried += 1
            results.setdefault(json.dumps(res), f"PYTHONHASHSEED={hs}")
            bad = {k: v for k, v in bad.items() if not k.startswith("info.")}
            if bad:
                return {"reproduced": True, "violated": bad, "observed": res, "all_files": list(base),
                        "how": f"real sort_molecules in a fresh interpreter, PYTHONHASHSEED={hs}", "inputs": cex}
            if len(results) > 1:
                return {"reproduced": True, "violated": {"same_result_for_every_order": "results differ"},
                        "observed": {v if isinstance(v, str) else "listing " + " ".join(v): json.loads(k) for k, v in results.items()},
                        "inputs": cex}
        # not shown natively: report what the adversarial-order model shows
        note = f"no native failure in {tried} runs"
        if cex.get("tops_order"):
            bad, res, _ = run_sort(case, folder, cex["tops_order"], cex["coords_order"])
            note += f"; with the set iteration orders of the counterexample the contract gives {bad or 'no violation'} (result {res})"
        return {"reproduced": False, "note": note, "inputs": cex}
    finally:
        shutil.rmtree(root, ignore_errors=True)


# ---------------------------------------------------------------------------
# deductive part (contracts/d20_cli_vc.py) wired in


def info(prop):
    from . import d20_cli_vc as D
    d = _info_bounded(prop)
    h = D.deductive_info()
    d["functions"] = h["functions"] + [f for f in d.get("functions", []) if not f.endswith(("::main", "::classify_files"))]
    d["stubs"] = h["stubs"] + d.get("stubs", [])
    d["assumptions"] = h["assumptions"] + d.get("assumptions", [])
    d["explanation"] = h["explanation"] + d.get("explanation", "").replace("Bounded contract checks only, nothing deductive. ", "Bounded part (run-time contract checks): ")
    d["trusted_base"] = ["z3 5.1", "vf/pyvc.py + vf/seq.py"] + d.get("trusted_base", [])
    return d


def tasks(prop, tier, seed):
    from . import d20_cli_vc as D
    return list(D.deductive_tasks(prop, tier, seed)) + list(_tasks_bounded(prop, tier, seed))


def replay(prop, cex):
    if cex.get("kind") == "vc":
        # a failed proof obligation of main()'s assembly loop: look for an argument vector on which the real main() misbehaves
        cand = [t for t in _tasks_bounded(prop, "quick", 0) if t[0].startswith("main/")][:6]
        for name, fn, args, _lim in cand:
            try:
                obs = fn(*args)
            except Exception:
                continue
            for o in obs:
                if o.get("status") == "refuted" and o.get("kind") != "guard" and o.get("cex"):
                    r = _replay_bounded(prop, o["cex"])
                    if r and r.get("reproduced"):
                        r["note"] = f"failed obligation {cex.get('obligation') or cex.get('clause') or cex.get('signature')} manifests on the real main()"
                        return r
        return {"reproduced": False, "inputs": cex, "note": "no failing argument vector found in the bounded scope"}
    return _replay_bounded(prop, cex)
