"""Deductive part of C16: pyvc on the AST of the real section bookkeeping of the topology reader / writer.

ItpFile.__init__      -- for a file of ANY number of lines: every non-header line is stored exactly once, in the section named by
                         the last header line before it (or in 'header' before the first one), at the position given by the number
                         of earlier lines of that same section name -- so lines of a section name that occurs several times are
                         kept, in file order; the sections are ordered by first appearance.
ItpSection.append     -- every line given to a section is kept in `_lines` (comment-only and blank lines included), exactly once.
ItpSection.__str__    -- '[ name ]\\n' followed by str() of every kept line in order.
ItpFile.write         -- the header lines verbatim, then one '{}\\n'.format(section) per section in dictionary order.

Lines are abstract (index i, IsHdr(i) = "the header regular expression matches", Sec(i) = the name it yields): what the characters
are is not modelled.  The line-level round trip (parse_itp_line / ItpLine.line) is the bounded part.
"""
from __future__ import annotations

import z3

from vf import symrun as S, core, pyvc, seq
from vf.core import ob, discharge
from vf.pyvc import LoopSpec, Stub

I = z3.IntSort()
NL = z3.Int("n_lines")
IsHdr = z3.Function("line_is_section_header", I, z3.BoolSort())
Sec = z3.Function("section_named_by_line", I, I)
Cur = z3.Function("section_in_force_before_line", I, I)        # ghost: -1 = none yet
Cnt = z3.Function("lines_of_section_before_line", I, I, I)     # ghost: Cnt(s, k) = number of non-header lines j < k that belong to s
HEADER, NONE = z3.IntVal(-2), z3.IntVal(-1)


def Tgt(k):
    return z3.If(Cur(k) == NONE, HEADER, Cur(k))


def axioms():
    k, s = z3.Ints("k!ax s!ax")
    return [Cur(0) == NONE,
            z3.ForAll([k], z3.Implies(k >= 0, Cur(k + 1) == z3.If(IsHdr(k), Sec(k), Cur(k))), patterns=[Cur(k + 1)]),
            z3.ForAll([s], Cnt(s, 0) == 0),
            z3.ForAll([s, k], z3.Implies(k >= 0, Cnt(s, k + 1) == Cnt(s, k) + z3.If(z3.And(z3.Not(IsHdr(k)), Tgt(k) == s), 1, 0)),
                      patterns=[Cnt(s, k + 1)]),
            z3.ForAll([k], Sec(k) >= 0), NL >= 0]


def deductive_info():
    return {
        "functions": ["gaddlemaps/parsers/_itp_parse.py::ItpFile.__init__ (section bookkeeping, any number of lines)",
                      "gaddlemaps/parsers/_itp_parse.py::ItpSection.append", "gaddlemaps/parsers/_itp_parse.py::ItpSection.__str__",
                      "gaddlemaps/parsers/_itp_parse.py::ItpFile.write"],
        "stubs": ["pyvc models: the file as a symbolic sequence of abstract lines; re.match / re.findall as the uninterpreted IsHdr(i) / Sec(i); the OrderedDict base "
                  "as (domain, per-key list of line indices, insertion order); ItpSection(name, []) as an empty list; str.format / str.join as tokens; "
                  "the output file as a ghost list of written chunks"],
        "assumptions": ["no section is literally named 'header' (the key the reader uses for the text before the first section)",
                        "when re.match(r'\\[.*\\]', line.strip()) succeeds, re.findall(r'\\[(.*)\\]', line) is not empty (same pattern on the same line)"],
        "explanation": ("Deductive: the section bookkeeping of ItpFile.__init__ (which line lands in which section at which position, for files of any length, "
                        "with repeated section names), ItpSection.append / __str__ and ItpFile.write are verified on their AST; the character-level content of a line "
                        "(parse_itp_line, ItpLine.line) is the bounded part. "),
    }


# ---------------------------------------------------------------------------
# models


class LineTok:
    def __init__(self, i):
        self.i = i

    def strip(self):
        return StripTok(self.i)
    strip.pyvc_pure = True

    def pyvc_copy(self):
        return self


class StripTok(LineTok):
    pass


class SecVal:
    """value of the local `sec`: an Int term (-1 models None)"""

    def __init__(self, t):
        self.t = t

    def pyvc_is_none(self):
        return S.SymBool(self.t == NONE)

    def strip(self):
        return self
    strip.pyvc_pure = True

    def pyvc_copy(self):
        return self


def _sec_term(v):
    if v is None:
        return NONE
    if isinstance(v, SecVal):
        return v.t
    if v == "header":
        return HEADER
    raise pyvc.PyvcUnsupported(f"section key {v!r}")


class SectionRef:
    def __init__(self, owner, key):
        self.owner, self.key = owner, key

    def append(self, line):
        if not isinstance(line, LineTok) or isinstance(line, StripTok):
            raise pyvc.PyvcUnsupported("append of something that is not the line as read")
        o, k = self.owner, self.key
        row = z3.Select(o.lines, k)
        n = z3.Select(o.length, k)
        o.lines = z3.Store(o.lines, k, z3.Store(row, n, line.i))
        o.length = z3.Store(o.length, k, n + 1)
    append.pyvc_pure = True

    def pyvc_copy(self):
        return self


class ItpSelf:
    """the OrderedDict part of an ItpFile under construction"""
    _n = 0

    def __init__(self, dom=None, length=None, lines=None, ordr=None, ord_len=None, pos_of=None, first_at=None):
        self.dom = z3.K(I, z3.BoolVal(False)) if dom is None else dom
        self.length = z3.K(I, z3.IntVal(0)) if length is None else length
        self.lines = z3.K(I, z3.K(I, z3.IntVal(-1))) if lines is None else lines
        self.ordr = z3.K(I, z3.IntVal(-9)) if ordr is None else ordr
        self.ord_len = z3.IntVal(0) if ord_len is None else ord_len
        self.pos_of = z3.K(I, z3.IntVal(-1)) if pos_of is None else pos_of
        self.first_at = z3.K(I, z3.IntVal(-1)) if first_at is None else first_at
        self.fitp = None

    def pyvc_copy(self):
        c = ItpSelf(self.dom, self.length, self.lines, self.ordr, self.ord_len, self.pos_of, self.first_at)
        c.fitp = self.fitp
        return c

    def pyvc_fresh_like(self, interp, name):
        interp.n_fresh += 1
        n = interp.n_fresh
        A = lambda nm, rng: z3.Array(f"{nm}!{n}", I, rng)
        c = ItpSelf(A("dom", z3.BoolSort()), A("len", I), A("lines", z3.ArraySort(I, I)), A("order", I), z3.Int(f"order_len!{n}"),
                    A("pos_of", I), A("first_at", I))
        c.fitp = self.fitp
        return c

    def pyvc_setattr(self, attr, value, interp, st):
        if attr != "fitp":
            raise pyvc.PyvcUnsupported(f"self.{attr} = ...")
        self.fitp = value

    def pyvc_contains(self, key):
        return S.SymBool(z3.Select(self.dom, _sec_term(key)))

    def pyvc_getitem(self, key, interp, st):
        k = _sec_term(key)
        interp.oblige(st, "safety.key-present[self]", z3.Select(self.dom, k))
        return SectionRef(self, k)

    def pyvc_setitem(self, key, value, interp, st):
        k = _sec_term(key)
        if not (value == [] or value == "<new section>"):
            raise pyvc.PyvcUnsupported("self[...] = something that is not an empty section")
        here = st.ghost.get("cur_k", z3.IntVal(-1))
        was = z3.Select(self.dom, k)
        self.ordr = z3.If(was, self.ordr, z3.Store(self.ordr, self.ord_len, k))
        self.pos_of = z3.If(was, self.pos_of, z3.Store(self.pos_of, k, self.ord_len))
        self.first_at = z3.If(was, self.first_at, z3.Store(self.first_at, k, here))
        self.ord_len = z3.If(was, self.ord_len, self.ord_len + 1)
        self.dom = z3.Store(self.dom, k, z3.BoolVal(True))
        self.length = z3.Store(self.length, k, z3.IntVal(0))     # the old value (and its lines) is replaced


class SuperM:
    """super(...): the base-class constructor does nothing observable here; base-class append is recorded by the sidecar where needed"""

    def pyvc_getattr(self, attr, interp, st):
        if attr == "__init__":
            return Stub("super().__init__", lambda it, s_, a, k, n: None)
        if attr == "append":
            return Stub("super().append", lambda it, s_, a, k, n: s_.log.append(("list.append", a[0])))
        raise pyvc.PyvcUnsupported(f"super().{attr}")

    def pyvc_copy(self):
        return self


class FileSeq(seq.SymSeq):
    def close(self):
        return None
    close.pyvc_pure = True


def structure(P: ItpSelf, sec_t, k):
    """the representation invariant after k lines"""
    j, s, p, q = z3.Ints("j!i s!i p!i q!i")
    return z3.And(
        k >= 0, sec_t == Cur(k), z3.Select(P.dom, HEADER), z3.Select(P.first_at, HEADER) == -1,
        z3.Implies(Cur(k) != NONE, z3.Select(P.dom, Cur(k))),
        z3.ForAll([j], z3.Implies(z3.And(0 <= j, j < k, IsHdr(j)), z3.And(z3.Select(P.dom, Sec(j)), z3.Select(P.first_at, Sec(j)) <= j))),
        z3.ForAll([s], z3.Implies(z3.And(z3.Select(P.dom, s), s != HEADER),
                                  z3.And(0 <= z3.Select(P.first_at, s), z3.Select(P.first_at, s) < k, IsHdr(z3.Select(P.first_at, s)),
                                         Sec(z3.Select(P.first_at, s)) == s))),
        z3.ForAll([s], z3.Select(P.length, s) == Cnt(s, k)),
        z3.ForAll([j], z3.Implies(z3.And(0 <= j, j < k, z3.Not(IsHdr(j))), z3.Select(z3.Select(P.lines, Tgt(j)), Cnt(Tgt(j), j)) == j)),
        z3.ForAll([j], z3.Implies(z3.And(0 <= j, j < k, z3.Not(IsHdr(j))), z3.And(0 <= Cnt(Tgt(j), j), Cnt(Tgt(j), j) < Cnt(Tgt(j), k)))),   # its position is in range
        z3.ForAll([s], z3.And(Cnt(s, k) >= 0, z3.Implies(z3.Not(z3.Select(P.dom, s)), Cnt(s, k) == 0))),
        order_ok(P))


def order_ok(P: ItpSelf):
    s, p, q = z3.Ints("s!o p!o q!o")
    return z3.And(
        P.ord_len >= 1, z3.Select(P.ordr, 0) == HEADER,
        z3.ForAll([s], z3.Implies(z3.Select(P.dom, s), z3.And(0 <= z3.Select(P.pos_of, s), z3.Select(P.pos_of, s) < P.ord_len,
                                                                z3.Select(P.ordr, z3.Select(P.pos_of, s)) == s))),
        z3.ForAll([p], z3.Implies(z3.And(0 <= p, p < P.ord_len), z3.And(z3.Select(P.dom, z3.Select(P.ordr, p)),
                                                                         z3.Select(P.pos_of, z3.Select(P.ordr, p)) == p))),
        z3.ForAll([p, q], z3.Implies(z3.And(0 <= p, p < q, q < P.ord_len),
                                     z3.Select(P.first_at, z3.Select(P.ordr, p)) < z3.Select(P.first_at, z3.Select(P.ordr, q)))))


def _discharge_all(tag, it, ends, seed, cex, timeout_ms=25000):
    out = [ob(f"{tag}/vc-generation", "discharged" if it.obls and ends else "undecided", engine="pyvc", backend="ast",
              sample={"obligations": len(it.obls), "exit_paths": len(ends)})]
    for o in it.obls:
        v = discharge(o.name, o.hyps, o.goal, backends=("z3",), engine="pyvc", timeout_ms=timeout_ms, seed=seed,
                      sample={"goal": core.short(o.goal, 160), "n_hyps": len(o.hyps)})
        if v["status"] == "refuted":
            v["cex"] = dict(cex, obligation=o.name)
        out.append(v)
    return out


def task_itpfile_init(prop, seed):
    tag = f"{prop}/ItpFile.__init__"

    def inv(st, k):
        P = pyvc.local(st, "self", ItpSelf)
        if pyvc.local(st, "sec") is pyvc.UNBOUND:
            return z3.BoolVal(False)
        return structure(P, _sec_term(st.env["sec"]), k)

    def start(interp, st, k):
        st.ghost["cur_k"] = k

    loops = {0: LoopSpec(inv, name="lines-loop", on_iteration_start=start, havoc_like={"sec": lambda nm: SecVal(z3.Int(nm.replace("@", "_") + "!h"))})}

    class RE:
        match = Stub("re.match", lambda it, st, a, k, n: S.SymBool(IsHdr(_tok(a[1], StripTok).i)))
        findall = Stub("re.findall", lambda it, st, a, k, n: [SecVal(Sec(_tok(a[1], LineTok, exact=True).i))])

        def pyvc_copy(self):
            return self

    def _tok(v, cls, exact=False):
        if not isinstance(v, cls) or (exact and type(v) is not cls):
            raise pyvc.PyvcUnsupported("regular expression applied to something else than the (stripped) line")
        return v

    g = {"re": RE(), "open": Stub("open", lambda it, st, a, k, n: FileSeq("file", NL, lambda i: LineTok(i))),
         "ItpSection": Stub("ItpSection", lambda it, st, a, k, n: "<new section>" if (len(a) == 2 and a[1] == []) else _unsupported("ItpSection(name, non-empty)")),
         "ItpFile": "<class>"}
    try:
        it = pyvc.Interp("gaddlemaps/parsers/_itp_parse.py", "ItpFile.__init__", g, loops, tag,
                         builtins_model={"super": Stub("super", lambda it, st, a, k, n: SuperM()), "str": str})
        ends = it.run({"self": ItpSelf(), "fitp": "<path>"}, ghost={"cur_k": z3.IntVal(-1)}, pre=axioms())
    except (pyvc.PyvcUnsupported, S.SymError) as e:
        return [ob(f"{tag}/vc-generation", "undecided", engine="pyvc", reason=f"outside the pyvc subset: {type(e).__name__}: {e}")]
    cex = {"kind": "vc", "fn": "d16:vc", "signature": "ItpFile.__init__"}
    out = _discharge_all(tag, it, ends, seed, cex)
    j, s = z3.Ints("j!e s!e")
    for ei, e in enumerate(ends):
        P = e.env.get("self")
        if e.sig != pyvc.RETURN or not isinstance(P, ItpSelf):
            if e.sig == pyvc.RAISE:
                out.append(ob(f"{tag}/exit{ei}/no-exception", "undecided", engine="pyvc", reason=f"a path raises {e.val}"))
            continue
        posts = [("every_line_is_stored_once_in_the_section_named_by_the_last_header_before_it_in_file_order",
                  z3.And(z3.ForAll([s], z3.Select(P.length, s) == Cnt(s, NL)),
                         z3.ForAll([j], z3.Implies(z3.And(0 <= j, j < NL, z3.Not(IsHdr(j))),
                                                   z3.Select(z3.Select(P.lines, Tgt(j)), Cnt(Tgt(j), j)) == j)))),
                 ("every_named_section_exists_and_none_else",
                  z3.And(z3.ForAll([j], z3.Implies(z3.And(0 <= j, j < NL, IsHdr(j)), z3.Select(P.dom, Sec(j)))),
                         z3.ForAll([s], z3.Implies(z3.And(z3.Select(P.dom, s), s != HEADER),
                                                   z3.And(0 <= z3.Select(P.first_at, s), z3.Select(P.first_at, s) < NL,
                                                          IsHdr(z3.Select(P.first_at, s)), Sec(z3.Select(P.first_at, s)) == s))))),
                 ("sections_ordered_by_first_appearance_after_the_header", order_ok(P))]
        for name, goal in posts:
            v = discharge(f"{tag}/exit{ei}/ensures.{name}", e.pc, goal, backends=("z3",), engine="pyvc", timeout_ms=25000, seed=seed)
            if v["status"] == "refuted":
                v["cex"] = dict(cex, clause=name)
            out.append(v)
        out.append(_witness(f"{tag}/exit{ei}/guard.hypotheses-satisfiable", e, P))
    return out


def _witness(name, e, P):
    """explicit model of the exit state for the file  ['[ s5 ]', 'a content line']  (vacuity guard, see core.witness_guard)"""
    V0, V1 = z3.Var(0, I), z3.Var(1, I)
    K = lambda v, rng=I: z3.K(I, v)
    consts = {NL: z3.IntVal(2), P.dom: z3.Store(z3.Store(K(z3.BoolVal(False)), -2, True), 5, True),
              P.length: z3.Store(K(z3.IntVal(0)), 5, 1), P.lines: z3.Store(z3.K(I, K(z3.IntVal(-1))), 5, z3.Store(K(z3.IntVal(-1)), 0, 1)),
              P.ordr: z3.Store(z3.Store(K(z3.IntVal(-9)), 0, -2), 1, 5), P.ord_len: z3.IntVal(2),
              P.pos_of: z3.Store(z3.Store(K(z3.IntVal(-1)), -2, 0), 5, 1), P.first_at: z3.Store(K(z3.IntVal(-1)), 5, 0)}
    sec = e.env.get("sec")
    if isinstance(sec, SecVal) and z3.is_const(sec.t) and sec.t.decl().kind() == z3.Z3_OP_UNINTERPRETED:
        consts[sec.t] = z3.IntVal(5)
    for nm, c in core.free_consts(z3.And(*e.pc)).items():
        if nm.startswith("lines-loop_k"):
            consts[c] = z3.IntVal(2)
    consts = {k: v for k, v in consts.items() if z3.is_const(k) and k.decl().kind() == z3.Z3_OP_UNINTERPRETED}
    funs = [(IsHdr, V0 == 0), (Sec, z3.IntVal(5) + 0 * V0), (Cur, z3.If(V0 >= 1, z3.IntVal(5), z3.IntVal(-1))),
            (Cnt, z3.If(z3.And(V0 == 5, V1 >= 1), V1 - 1, z3.IntVal(0)))]
    return core.witness_guard(name, e.pc, consts, funs)


def _unsupported(msg):
    raise pyvc.PyvcUnsupported(msg)


# ---------------------------------------------------------------------------
# ItpSection.append / ItpSection.__str__ / ItpFile.write


class StrTok:
    """a string known only by how it was built: parts = list of ('lit', text) | ('format', pattern, args) | ('join', sep, seq) | ('str', obj)"""

    def __init__(self, parts):
        self.parts = list(parts)

    def __add__(self, o):
        return StrTok(self.parts + _parts(o))

    def __radd__(self, o):
        return StrTok(_parts(o) + self.parts)

    def pyvc_copy(self):
        return self


def _parts(o):
    if isinstance(o, StrTok):
        return o.parts
    if isinstance(o, str):
        return [("lit", o)]
    raise pyvc.PyvcUnsupported(f"string concatenation with {type(o).__name__}")


def _str_hook(recv, method, args, kw):
    if method == "format" and not kw:
        return StrTok([("format", recv, tuple(args))])
    if method == "join" and len(args) == 1:
        return StrTok([("join", recv, args[0])])
    raise pyvc.PyvcUnsupported(f"str.{method}")


_str_stub = Stub("str", lambda it, st, a, k, n: StrTok([("str", a[0])]))


class Obj:
    """an opaque object identified by a tag (and indices)"""

    def __init__(self, *key):
        self.key = key

    def __eq__(self, o):
        return isinstance(o, Obj) and len(o.key) == len(self.key) and all(
            (a is b) or (isinstance(a, z3.ExprRef) and isinstance(b, z3.ExprRef) and a.eq(b)) or (not isinstance(a, z3.ExprRef) and not isinstance(b, z3.ExprRef) and a == b)
            for a, b in zip(self.key, o.key))

    def __hash__(self):
        return hash(len(self.key))

    def pyvc_copy(self):
        return self


def task_section_append(prop, seed):
    tag = f"{prop}/ItpSection.append"
    HasContent = z3.Bool("parsed_line_has_content")

    class Parsed(Obj):
        @property
        def content(self):
            return S.SymBool(HasContent)

    class Lines:
        def pyvc_getattr(self, attr, interp, st):
            if attr == "append":
                return Stub("_lines.append", lambda it, s_, a, k, n: s_.log.append(("_lines.append", a[0])))
            raise pyvc.PyvcUnsupported(f"_lines.{attr}")

        def pyvc_copy(self):
            return self

    class SelfS:
        def pyvc_getattr(self, attr, interp, st):
            if attr == "parse_line":
                return Stub("parse_line", lambda it, s_, a, k, n: Parsed("parsed", a[0], a[1]) if len(a) == 2 else _unsupported("parse_line arity"))
            if attr in ("_section_name", "section_name"):
                return "<section name>"
            if attr == "_lines":
                return Lines()
            raise pyvc.PyvcUnsupported(f"self.{attr}")

        def pyvc_copy(self):
            return self

    try:
        it = pyvc.Interp("gaddlemaps/parsers/_itp_parse.py", "ItpSection.append", {"ItpSection": "<class>"}, {}, tag,
                         builtins_model={"super": Stub("super", lambda it_, st, a, k, n: SuperM())})
        ends = it.run({"self": SelfS(), "new_line": "<new line>"})
    except (pyvc.PyvcUnsupported, S.SymError) as e:
        return [ob(f"{tag}/vc-generation", "undecided", engine="pyvc", reason=f"outside the pyvc subset: {type(e).__name__}: {e}")]
    cex = {"kind": "vc", "fn": "d16:vc", "signature": "ItpSection.append"}
    out = _discharge_all(tag, it, ends, seed, cex) if it.obls else [ob(f"{tag}/vc-generation", "discharged" if ends else "undecided", engine="pyvc", backend="ast",
                                                                        sample={"exit_paths": len(ends)})]
    want = Parsed("parsed", "<new line>", "<section name>")
    for ei, e in enumerate(ends):
        if e.sig != pyvc.RETURN:
            out.append(ob(f"{tag}/exit{ei}/no-exception", "undecided", engine="pyvc", reason=f"a path raises {e.val}"))
            continue
        kept = [ev for ev in e.log if ev[0] == "_lines.append"]
        listed = [ev for ev in e.log if ev[0] == "list.append"]
        ok_kept = len(kept) == 1 and kept[0][1] == want
        v = discharge(f"{tag}/exit{ei}/ensures.every_line_is_kept_exactly_once_as_parsed_for_this_section", e.pc, z3.BoolVal(ok_kept), backends=("z3",), engine="pyvc")
        if v["status"] == "refuted":
            v["cex"] = dict(cex, clause="kept")
        out.append(v)
        goal = z3.And(z3.Implies(HasContent, z3.BoolVal(len(listed) == 1 and listed[0][1] == want)), z3.Implies(z3.Not(HasContent), z3.BoolVal(len(listed) == 0)))
        v = discharge(f"{tag}/exit{ei}/ensures.listed_as_content_line_iff_it_has_content", e.pc, goal, backends=("z3",), engine="pyvc")
        if v["status"] == "refuted":
            v["cex"] = dict(cex, clause="listed")
        out.append(v)
    return out


def _header_pattern_ok(pattern: str) -> bool:
    """the literal header pattern, filled with a name, is recognised by the READER's expressions and yields that name"""
    import re
    try:
        line = pattern.format("NaMe_1")
    except Exception:
        return False
    if not line.endswith("\n") or line.count("\n") != 1:
        return False
    if not re.match(r"\[.*\]", line.strip()):
        return False
    f = re.findall(r"\[(.*)\]", line)
    return bool(f) and f[0].strip() == "NaMe_1"


def task_section_str(prop, seed):
    tag = f"{prop}/ItpSection.__str__"
    NK = z3.Int("n_kept_lines")

    class SelfS:
        def pyvc_getattr(self, attr, interp, st):
            if attr in ("_section_name", "section_name"):
                return Obj("section name")
            if attr in ("_lines", "lines"):
                return seq.SymSeq("_lines", NK, lambda k: Obj("kept line", k))
            raise pyvc.PyvcUnsupported(f"self.{attr}")

        def pyvc_copy(self):
            return self

    try:
        it = pyvc.Interp("gaddlemaps/parsers/_itp_parse.py", "ItpSection.__str__", {}, {}, tag, builtins_model={"str": _str_stub})
        it.str_hook = _str_hook
        ends = it.run({"self": SelfS()}, pre=[NK >= 0])
    except (pyvc.PyvcUnsupported, S.SymError) as e:
        return [ob(f"{tag}/vc-generation", "undecided", engine="pyvc", reason=f"outside the pyvc subset: {type(e).__name__}: {e}")]
    cex = {"kind": "vc", "fn": "d16:vc", "signature": "ItpSection.__str__"}
    out = [ob(f"{tag}/vc-generation", "discharged" if ends else "undecided", engine="pyvc", backend="ast", sample={"exit_paths": len(ends)})]
    for ei, e in enumerate(ends):
        if e.sig != pyvc.RETURN or not isinstance(e.val, StrTok):
            out.append(ob(f"{tag}/exit{ei}/returns-a-built-string", "undecided", engine="pyvc", reason=f"exit {e.sig} {type(e.val).__name__}"))
            continue
        parts = [p for p in e.val.parts if not (p[0] == "lit" and p[1] == "")]
        ok_head = (len(parts) >= 1 and parts[0][0] == "format" and len(parts[0][2]) == 1 and parts[0][2][0] == Obj("section name")
                   and _header_pattern_ok(parts[0][1]))
        v = discharge(f"{tag}/exit{ei}/ensures.starts_with_a_header_line_the_reader_recognises_with_this_name", e.pc, z3.BoolVal(bool(ok_head)), backends=("z3",), engine="pyvc")
        if v["status"] == "refuted":
            v["cex"] = dict(cex, clause="header")
        out.append(v)
        kk = z3.Int("kk!str")
        ok_body, goal = False, z3.BoolVal(False)
        if len(parts) == 2 and parts[1][0] == "join" and parts[1][1] == "" and hasattr(parts[1][2], "pyvc_iter"):
            ln, item = parts[1][2].pyvc_iter()
            el = item(kk)
            ok_body = isinstance(el, StrTok) and len(el.parts) == 1 and el.parts[0][0] == "str" and el.parts[0][1] == Obj("kept line", kk)
            goal = z3.And(ln == NK, z3.BoolVal(bool(ok_body)))
        v = discharge(f"{tag}/exit{ei}/ensures.followed_by_str_of_every_kept_line_in_order_nothing_between", e.pc, goal, backends=("z3",), engine="pyvc")
        if v["status"] == "refuted":
            v["cex"] = dict(cex, clause="body")
        out.append(v)
    return out


NSec = z3.Int("n_items")
IsHeaderKey = z3.Function("key_is_header", I, z3.BoolSort())
HLen = z3.Function("item_length", I, I)
Off = z3.Function("chunks_written_before_item", I, I)          # ghost
At = z3.Function("chunk_index_of_header_line", I, I, I)        # ghost: At(a, q) = Off(a) + q  (a named term the quantifier patterns can use)


def _size(p):
    return z3.If(IsHeaderKey(p), HLen(p), 1)


def _written():
    return seq.SymList("written", [I, I, I], lambda c: tuple(c), lambda x: list(x))


def _segments(w: seq.SymList, p):
    """everything written for the items before p: header lines verbatim one by one, any other section as one formatted chunk"""
    a, q = z3.Ints("a!w q!w")
    kind, pi, qi = w.arrays
    return z3.And(
        z3.ForAll([a], z3.Implies(z3.And(0 <= a, a < p), z3.And(Off(a) >= 0, Off(a) + _size(a) <= Off(p)))),
        z3.ForAll([a], z3.Implies(z3.And(0 <= a, a < p, z3.Not(IsHeaderKey(a))),
                                  z3.And(z3.Select(kind, Off(a)) == 1, z3.Select(pi, Off(a)) == a))),
        z3.ForAll([a, q], z3.Implies(z3.And(0 <= a, a < p, IsHeaderKey(a), 0 <= q, q < HLen(a)),
                                     z3.And(z3.Select(kind, At(a, q)) == 0, z3.Select(pi, At(a, q)) == a, z3.Select(qi, At(a, q)) == q)),
                  patterns=[At(a, q)]))


def task_itpfile_write(prop, seed):
    tag = f"{prop}/ItpFile.write"

    class Key(Obj):
        def __eq__(self, o):
            if o == "header" and isinstance(o, str):
                return S.SymBool(IsHeaderKey(self.key[1]))
            return Obj.__eq__(self, o)
        __hash__ = Obj.__hash__

    class Section(Obj):
        def pyvc_iter(self):
            p = self.key[1]
            return HLen(p), (lambda q: Obj("header line", p, q))

    class SelfF:
        def pyvc_getattr(self, attr, interp, st):
            if attr == "items":
                return Stub("items", lambda it, s_, a, k, n: seq.SymSeq("items", NSec, lambda p: (Key("key", p), Section("section", p))))
            raise pyvc.PyvcUnsupported(f"self.{attr}")

        def pyvc_copy(self):
            return self

    def write(interp, st, args, kw, node):
        w = st.ghost["written"]
        x = args[0]
        if isinstance(x, Obj) and x.key[0] == "header line":
            w.append((z3.IntVal(0), x.key[1], x.key[2]))
        elif (isinstance(x, StrTok) and len(x.parts) == 1 and x.parts[0][0] == "format" and len(x.parts[0][2]) == 1
              and isinstance(x.parts[0][2][0], Section) and x.parts[0][1].format("S").startswith("S") and not x.parts[0][1].format("S")[1:].strip()):
            w.append((z3.IntVal(1), x.parts[0][2][0].key[1], z3.IntVal(0)))
        else:
            raise pyvc.PyvcUnsupported("write of something else than a header line or one formatted section")
        return None

    class Out:
        def pyvc_getattr(self, attr, interp, st):
            if attr == "write":
                return Stub("write", write)
            if attr == "close":
                return Stub("close", lambda *a: None)
            raise pyvc.PyvcUnsupported(f"file.{attr}")

        def pyvc_copy(self):
            return self

        def pyvc_enter(self, interp, st):
            return self

        def pyvc_exit(self, interp, st, sig):
            return None

    def inv_outer(st, p):
        w = st.ghost["written"]
        return z3.And(p >= 0, w.length == Off(p), w.length >= 0, _segments(w, p))

    def inv_inner(st, q):
        w, p = st.ghost["written"], st.ghost["outer_p"]
        qq = z3.Int("qq!w")
        kind, pi, qi = w.arrays
        return z3.And(q >= 0, p >= 0, IsHeaderKey(p), w.length == Off(p) + q, Off(p) >= 0, _segments(w, p),
                      z3.ForAll([qq], z3.Implies(z3.And(0 <= qq, qq < q),
                                                 z3.And(z3.Select(kind, At(p, qq)) == 0, z3.Select(pi, At(p, qq)) == p, z3.Select(qi, At(p, qq)) == qq)),
                                patterns=[At(p, qq)]))

    def start_outer(interp, st, p):
        st.ghost["outer_p"] = p

    loops = {0: LoopSpec(inv_outer, ghosts=("written",), name="items-loop", on_iteration_start=start_outer),
             1: LoopSpec(inv_inner, ghosts=("written",), name="header-lines-loop")}
    a = z3.Int("a!x")
    pre = [NSec >= 0, Off(0) == 0, z3.ForAll([a], z3.Implies(a >= 0, Off(a + 1) == Off(a) + _size(a)), patterns=[Off(a + 1)]), z3.ForAll([a], HLen(a) >= 0),
           z3.ForAll([a, z3.Int("q!x")], At(a, z3.Int("q!x")) == Off(a) + z3.Int("q!x"), patterns=[At(a, z3.Int("q!x"))])]
    try:
        it = pyvc.Interp("gaddlemaps/parsers/_itp_parse.py", "ItpFile.write", {"open": Stub("open", lambda it_, st, a_, k, n: Out())}, loops, tag)
        it.str_hook = _str_hook
        ends = it.run({"self": SelfF(), "fout": "<path>"}, ghost={"written": _written(), "outer_p": z3.IntVal(0)}, pre=pre)
    except (pyvc.PyvcUnsupported, S.SymError) as e:
        return [ob(f"{tag}/vc-generation", "undecided", engine="pyvc", reason=f"outside the pyvc subset: {type(e).__name__}: {e}")]
    cex = {"kind": "vc", "fn": "d16:vc", "signature": "ItpFile.write"}
    out = _discharge_all(tag, it, ends, seed, cex)
    for ei, e in enumerate(ends):
        if e.sig != pyvc.RETURN:
            out.append(ob(f"{tag}/exit{ei}/no-exception", "undecided", engine="pyvc", reason=f"a path raises {e.val}"))
            continue
        w = e.ghost["written"]
        v = discharge(f"{tag}/exit{ei}/ensures.written_is_header_lines_verbatim_then_each_section_once_in_dictionary_order", e.pc,
                      z3.And(w.length == Off(NSec), _segments(w, NSec)), backends=("z3",), engine="pyvc", timeout_ms=25000, seed=seed)
        if v["status"] == "refuted":
            v["cex"] = dict(cex, clause="written")
        out.append(v)
        # vacuity guard: explicit model for the dictionary  {'header': [one line], 's': section}
        V0, V1 = z3.Var(0, I), z3.Var(1, I)
        KI = z3.K(I, z3.IntVal(0))
        consts = {NSec: z3.IntVal(2), w.length: z3.IntVal(2), w.arrays[0]: z3.Store(KI, 1, 1), w.arrays[1]: z3.Store(KI, 1, 1), w.arrays[2]: KI}
        for nm, c in core.free_consts(z3.And(*e.pc)).items():
            if nm.startswith("items-loop_k"):
                consts[c] = z3.IntVal(2)
        consts = {k_: v_ for k_, v_ in consts.items() if z3.is_const(k_) and k_.decl().kind() == z3.Z3_OP_UNINTERPRETED}
        out.append(core.witness_guard(f"{tag}/exit{ei}/guard.hypotheses-satisfiable", e.pc, consts,
                                      [(IsHeaderKey, V0 == 0), (HLen, z3.IntVal(1) + 0 * V0), (Off, V0), (At, V0 + V1)]))
    return out


def deductive_tasks(prop, tier, seed):
    return [("ItpFile.__init__/pyvc", task_itpfile_init, (prop, seed), 600.0),
            ("ItpSection.append/pyvc", task_section_append, (prop, seed), 120.0),
            ("ItpSection.__str__/pyvc", task_section_str, (prop, seed), 120.0),
            ("ItpFile.write/pyvc", task_itpfile_write, (prop, seed), 600.0)]
