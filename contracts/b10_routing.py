"""B10 -- bounded part of C10: "Restraint pairs always designate the atoms the user
(or the guesser) meant".

Run-time contracts (kind="bounded", engine="smallscope") on the real functions of
gaddlemaps._alignment and gaddlemaps._manager:

 (1) Alignment.align_molecules -> optimiser routing.  The name the method resolves
     at call time, gaddlemaps._alignment.minimize_molecules, is bound to a recording
     stub (returns its mol2_positions argument, no Monte-Carlo).  Post (from the
     statement): entry k of the received restraint list designates -- by COORDINATES
     in the received mol1_positions / mol2_positions arrays -- the fixed-side and
     mobile-side atoms of the k-th surviving user pair; pairs whose fixed-side atom
     is a filtered hydrogen are dropped, all others kept in order.
 (2) guess_residue_restrains / _split_list, exhaustive 1..40 x 1..40.
 (3) guess_protein_restrains on generated multi-residue molecules.
 (4) Manager.align_molecules option routing with Alignment.align_molecules bound to
     a recorder.

The oracles are computed from the generated inputs (atom coordinates written to the
files, hydrogen masks, residue length tuples, the option catalogue), never from the
functions under check.
"""
from __future__ import annotations

import contextlib
import io
import itertools
import os
import random
import shutil
import tempfile
import time

import numpy as np

from vf import symrun as S
from vf.core import ob

PROP = "C10"
TOL = 1e-6
KW = dict(kind="bounded", engine="smallscope", backend="runtime-contract")


class Harness(Exception):
    """A problem of the checker itself (never a violation)."""


# ---------------------------------------------------------------------------
# info


def bounded_info():
    return {
        "functions": [
            "gaddlemaps/_alignment.py::Alignment.align_molecules",
            "gaddlemaps/_alignment.py::remove_hydrogens",
            "gaddlemaps/_alignment.py::guess_protein_restrains",
            "gaddlemaps/_alignment.py::guess_residue_restrains",
            "gaddlemaps/_alignment.py::_split_list",
            "gaddlemaps/_manager.py::Manager.align_molecules",
            "gaddlemaps/_manager.py::Manager.parse_restrictions",
            "gaddlemaps/_manager.py::Manager._validate_index",
            "gaddlemaps/_manager.py::Manager._parse_deformations",
            "gaddlemaps/_manager.py::Manager._parse_ignore_hydrogens",
        ],
        "stubs": [
            "gaddlemaps._alignment.minimize_molecules -> recording stub returning mol2_positions unchanged (observation point of the "
            "statement: 'reaches the optimiser'); bound with vf.symrun.patched for the duration of each call",
            "gaddlemaps._alignment.Alignment.align_molecules -> recorder (class attribute, only while Manager.align_molecules is exercised)",
        ],
        "assumptions": [
            "the optimiser is entered only through the module-level name gaddlemaps._alignment.minimize_molecules",
            "atoms are identified by their coordinates: generated molecules have pairwise distinct coordinates (checked per case), "
            "hydrogens are the atoms written with names H<k>",
            "when the end molecule has a single atom align_molecules returns before the optimiser; nothing is demanded of that call",
            "which molecule is fixed (first array) and which is mobile (second array) is READ from the coordinates the optimiser "
            "received; no role assignment, step budget, sigma, bond table or default deformation types are demanded",
        ],
        "explanation": (
            "Bounded run-time contracts. (1) align_molecules with the optimiser entry point recorded: single-residue molecules of "
            "1..4 x 1..4 atoms (thorough 1..5) both ways round, every hydrogen mask with a non-hydrogen on the larger molecule, mobile "
            "molecule with and without a hydrogen, every restraint list of length <= 2 over all index pairs (plus None), "
            "ignore_hydrogens on/off, deformation_types None/(0,1) (only explicitly given types are demanded to arrive unchanged); plus two-residue molecules with restrictions=None (auto-guess). "
            "(2) guess_residue_restrains/_split_list exhaustively for 1..40 x 1..40 (the property's own quantifier) with three offset "
            "pairs. (3) guess_protein_restrains on all molecule pairs of <= 3 residues x residue lengths 1..4 (thorough 1..5) per side, "
            "equal and unequal residue counts, name variants, seeded random larger molecules. (4) Manager.align_molecules over the "
            "product of option dictionaries {A, B, unknown} x {absent, None, valid, malformed...} for restraints, deformation types and "
            "hydrogen flags."),
        "rule": ("one evaluation = one call of the real function on one enumerated input with every clause evaluated; non-trivial = "
                 "the expected routing is not the identity (role swap, re-indexing or a dropped pair) / the residues differ in length / "
                 "at least one option dictionary is given"),
    }


# ---------------------------------------------------------------------------
# generated files


def _fmt_gro(title, recs):
    out = [title, "%5d" % len(recs)]
    for resid, resname, name, nr, xyz in recs:
        out.append("%5d%-5s%5s%5d%8.3f%8.3f%8.3f" % (resid, resname, name, nr, xyz[0], xyz[1], xyz[2]))
    out.append("   9.00000   9.00000   9.00000")
    return "\n".join(out) + "\n"


def _fmt_itp(molname, residues, bonds):
    lines = ["; generated by contracts/b10_routing.py", "[ moleculetype ]", "; name nrexcl", f"{molname} 1", "", "[ atoms ]"]
    nr = 1
    for ri, (resname, names) in enumerate(residues, 1):
        for nm in names:
            lines.append(f"{nr:5d} T{nr:<3d} {ri:5d} {resname:6s} {nm:5s} {nr:5d}   0.000  12.000")
            nr += 1
    if bonds:
        lines += ["", "[ bonds ]"]
        lines += [f"{a + 1:5d} {b + 1:5d} 1 0.300 1000.0" for a, b in bonds]
    return "\n".join(lines) + "\n"


def _xyz(role, n):
    """Pairwise distinct coordinates (multiples of 0.001 nm); the two roles have different shapes so
    that the translated start never coincides with the end."""
    if role == "start":
        return [(round(0.1 + 0.31 * i, 3), round(0.2 + 0.07 * (i % 2), 3), round(0.3 + 0.05 * (i % 3), 3)) for i in range(n)]
    return [(round(2.0 + 0.23 * i, 3), round(1.0 + 0.19 * ((i * i) % 5), 3), round(1.5 - 0.13 * i, 3)) for i in range(n)]


def _bonds(role, n):
    """Connected graphs: a chain for the start role, a binary tree for the end role."""
    if role == "start":
        return [(i - 1, i) for i in range(1, n)]
    return [((i - 1) // 2, i) for i in range(1, n)]


def _names(mask):
    heavy = ("C", "O", "N", "S")
    return [("H%d" % (i + 1)) if h else "%s%d" % (heavy[i % 4], i + 1) for i, h in enumerate(mask)]


def mol_spec(role, lens, mask, resnames=None, molname="MOL"):
    """lens: residue lengths; mask: hydrogen flags over all atoms."""
    n = sum(lens)
    names = _names(mask)
    if resnames is None:
        resnames = ["MOL"] if len(lens) == 1 else ["R%s" % "ABCDEFGHIJKL"[k % 12] for k in range(len(lens))]
    residues, k = [], 0
    for rn, ln in zip(resnames, lens):
        residues.append((rn, names[k:k + ln]))
        k += ln
    return {"role": role, "molname": molname, "residues": residues, "xyz": _xyz(role, n), "bonds": _bonds(role, n),
            "mask": [bool(h) for h in mask]}


def write_molecule(d, tag, spec):
    recs, nr = [], 1
    for ri, (rn, names) in enumerate(spec["residues"], 1):
        for nm in names:
            recs.append((ri, rn, nm, nr, spec["xyz"][nr - 1]))
            nr += 1
    fg, ft = os.path.join(d, tag + ".gro"), os.path.join(d, tag + ".itp")
    with open(fg, "w") as f:
        f.write(_fmt_gro(tag, recs))
    with open(ft, "w") as f:
        f.write(_fmt_itp(spec["molname"], spec["residues"], spec["bonds"]))
    return fg, ft


class Pool:
    """Molecules built once per (spec) in a temp dir of the task."""

    def __init__(self):
        self.d = tempfile.mkdtemp(prefix="b10_")
        self.cache = {}
        self.k = 0

    def molecule(self, spec, direct=False):
        """direct=False: Molecule.from_files on the written .gro/.itp (the user's path).  direct=True: the public
        constructor Molecule(MoleculeTop(itp), [Residue([AtomGro...])...]) -- used for multi-residue molecules with
        repeated residue names, which System identifies by (resname, length) only."""
        from gaddlemaps.components import Molecule, MoleculeTop, Residue, AtomGro
        key = repr((spec["role"], spec["molname"], spec["residues"], spec["xyz"], spec["bonds"], direct))
        m = self.cache.get(key)
        if m is None:
            self.k += 1
            try:
                with contextlib.redirect_stdout(io.StringIO()):
                    fg, ft = write_molecule(self.d, "m%d" % self.k, spec)
                    if direct:
                        residues, nr = [], 1
                        for ri, (rn, names) in enumerate(spec["residues"], 1):
                            atoms = []
                            for nm in names:
                                x, y, z = spec["xyz"][nr - 1]
                                atoms.append(AtomGro([ri, rn, nm, nr, x, y, z]))
                                nr += 1
                            residues.append(Residue(atoms))
                        m = Molecule(MoleculeTop(ft), residues)
                    else:
                        m = Molecule.from_files(fg, ft)
            except Exception as e:
                raise Harness(f"could not build generated molecule {spec['residues']}: {type(e).__name__}: {e}")
            got = [a.name for a in m]
            want = [nm for _, names in spec["residues"] for nm in names]
            if got != want:
                raise Harness(f"generated molecule read back with atoms {got}, wrote {want}")
            self.cache[key] = m
        return m

    def close(self):
        shutil.rmtree(self.d, ignore_errors=True)


# ---------------------------------------------------------------------------
# aggregation of evaluations into obligations


class Agg:
    def __init__(self, prop, function, family):
        self.prop, self.function, self.family = prop, function, family
        self.n = {}
        self.nt = {}
        self.first = {}
        self.nbad = {}
        self.sample = {}
        self.harness = []
        self.t0 = time.time()

    def add(self, clauses, case, nontrivial=True):
        """clauses: {clause: None | message}; None = held, message = violated.  Clauses absent from
        the dict were not applicable to this case."""
        for c, msg in clauses.items():
            self.n[c] = self.n.get(c, 0) + 1
            if nontrivial:
                self.nt[c] = self.nt.get(c, 0) + 1
            if c not in self.sample or (nontrivial and not self.sample[c][1]):
                self.sample[c] = (case, nontrivial)
            if msg is not None:
                self.nbad[c] = self.nbad.get(c, 0) + 1
                if c not in self.first:
                    self.first[c] = (case, msg)

    def problem(self, msg):
        if len(self.harness) < 3:
            self.harness.append(str(msg)[:400])

    def obligations(self, clauses_expected=()):
        out = []
        secs = time.time() - self.t0
        names = list(self.n)
        for c in clauses_expected:
            if c not in self.n:
                names.append(c)
        for c in names:
            oid = f"{self.prop}/{self.function}/{c}/{self.family}"
            n = self.n.get(c, 0)
            if c in self.first:
                case, msg = self.first[c]
                cex = dict(case)
                cex["clause"] = c
                cex["signature"] = f"{case.get('fn')}:{c}"
                out.append(ob(oid, "refuted", evaluations=n, nontrivial=self.nt.get(c, 0), secs=secs / max(1, len(names)),
                              reason=f"{self.nbad[c]}/{n} evaluations violate the clause; first: {msg}", cex=cex, sample=case, **KW))
            elif n == 0:
                out.append(ob(oid, "undecided", evaluations=0, reason="no evaluation reached this clause: " + "; ".join(self.harness),
                              **KW))
            else:
                out.append(ob(oid, "discharged", evaluations=n, nontrivial=self.nt.get(c, 0), secs=secs / max(1, len(names)),
                              sample=self.sample[c][0], **KW))
        if self.harness:
            out.append(ob(f"{self.prop}/{self.function}/harness/{self.family}", "undecided", reason="; ".join(self.harness), **KW))
        return out


# ===========================================================================
# (1) Alignment.align_molecules -> optimiser


ALIGN_CLAUSES = (
    "ensures.returns_without_exception",
    "ensures.restraints_reach_the_optimiser",
    "args.each_array_holds_one_molecule",
    "ensures.surviving_pairs_kept_in_order_hydrogen_pairs_dropped",
    "ensures.fixed_side_designates_intended_atom",
    "ensures.mobile_side_designates_intended_atom",
    "args.explicit_deformation_types_forwarded",
)


def _al():
    import gaddlemaps._alignment as A
    return A


def _specs_of(case):
    ls, le = case["lens_s"], case["lens_e"]
    s = mol_spec("start", ls, case["hs"], resnames=case.get("resnames_s"))
    e = mol_spec("end", le, case["he"], resnames=case.get("resnames_e"))
    return s, e


def observe_align(case, pool):
    """Run the real align_molecules on the generated pair with the optimiser entry point recorded."""
    A = _al()
    ss, se = _specs_of(case)
    ms, me = pool.molecule(ss), pool.molecule(se)
    calls = []

    def recorder(*a, **k):
        names = ("mol1_positions", "mol2_positions", "mol2_com", "sigma_scale", "n_steps", "restriction", "mol2_bonds_info",
                 "displacement_module", "sim_type")
        rec = dict(zip(names, a))
        rec.update(k)
        calls.append(rec)
        return rec.get("mol2_positions")

    try:
        al = A.Alignment(start=ms, end=me)
    except Exception as e:
        raise Harness(f"Alignment(start, end) failed on generated molecules: {type(e).__name__}: {e}")
    restr = case["restr"]
    user = None if restr is None else [tuple(p) for p in restr]
    guessed = None
    if user is None and len(case["lens_s"]) > 1:
        try:
            guessed = [tuple(int(x) for x in p) for p in A.guess_protein_restrains(ms, me)]
        except Exception as e:
            raise Harness(f"guess_protein_restrains failed on the auto-guess pair: {type(e).__name__}: {e}")
    deform = None if case["deform"] is None else tuple(case["deform"])
    exc = None
    arg = None if user is None else list(user)       # ONE list object, handed to two alignments in a row (see "again" below)
    with S.patched(A, minimize_molecules=recorder):
        try:
            al.align_molecules(arg, deform, bool(case["ignore_h"]))
        except Exception as e:  # the property demands a result
            exc = f"{type(e).__name__}: {e}"
    try:
        pos_s = np.array(al.start.atoms_positions, dtype=float)
        pos_e = np.array(al.end.atoms_positions, dtype=float)
    except Exception as e:
        raise Harness(f"cannot read positions after the call: {e}")
    out = {"calls": calls, "exc": exc, "pos_s": pos_s, "pos_e": pos_e, "spec_s": ss, "spec_e": se, "guessed": guessed}
    if arg is not None and exc is None and not case.get("_no_again"):
        # the same restraint list object given to a second alignment of the same pair: it must designate the same atoms again
        calls2 = []

        def recorder2(*a, **k):
            names = ("mol1_positions", "mol2_positions", "mol2_com", "sigma_scale", "n_steps", "restriction", "mol2_bonds_info",
                     "displacement_module", "sim_type")
            rec = dict(zip(names, a))
            rec.update(k)
            calls2.append(rec)
            return rec.get("mol2_positions")
        try:
            al2 = A.Alignment(start=pool.molecule(ss), end=pool.molecule(se))
            exc2 = None
            with S.patched(A, minimize_molecules=recorder2):
                try:
                    al2.align_molecules(arg, deform, bool(case["ignore_h"]))
                except Exception as e:
                    exc2 = f"{type(e).__name__}: {e}"
            out["again"] = {"calls": calls2, "exc": exc2, "pos_s": np.array(al2.start.atoms_positions, dtype=float),
                            "pos_e": np.array(al2.end.atoms_positions, dtype=float), "spec_s": ss, "spec_e": se, "guessed": guessed}
        except Harness:
            raise
        except Exception:
            pass
    return out


def _rigid(pos, gen, what):
    gen = np.array(gen, dtype=float)
    if pos.shape != gen.shape:
        raise Harness(f"{what}: {pos.shape} positions after the call, {gen.shape} generated")
    t = pos[0] - gen[0]
    if np.abs(pos - (gen + t)).max() > TOL:
        raise Harness(f"{what} molecule is not a rigid translation of the generated coordinates (outside C10)")
    return gen + t


def _close(a, b):
    a, b = np.asarray(a, dtype=float), np.asarray(b, dtype=float)
    return a.shape == b.shape and (a.size == 0 or float(np.abs(a - b).max()) <= TOL)


def _row_index(arr, mol):
    """For each row of arr the index of the atom of mol with those coordinates (None if there is none)."""
    out = []
    for row in arr:
        hit = None
        for k in range(len(mol)):
            if float(np.abs(mol[k] - row).max()) <= TOL:
                hit = k
                break
        out.append(hit)
    return out


def _judge_call(case, o, c, exp_s, exp_e, user, wrong=None):
    """Clauses on one recorded optimiser call.  The roles (which molecule is fixed = first array, which is mobile =
    second array) are READ from the coordinates the optimiser received, not demanded: the statement says
    'whichever molecule is larger'."""
    cl = {}
    k_arr = "args.each_array_holds_one_molecule"
    k_count = "ensures.surviving_pairs_kept_in_order_hydrogen_pairs_dropped"
    k_fix = "ensures.fixed_side_designates_intended_atom"
    k_mob = "ensures.mobile_side_designates_intended_atom"
    try:
        m1 = np.asarray(c.get("mol1_positions"), dtype=float)
        m2 = np.asarray(c.get("mol2_positions"), dtype=float)
    except Exception:
        m1 = m2 = np.zeros((0,))
    start_fixed = None
    if m1.ndim == 2 and m2.ndim == 2 and m1.shape[1:] == (3,) and m2.shape[1:] == (3,) and len(m1) and len(m2):
        s1, e1 = _row_index(m1, exp_s), _row_index(m1, exp_e)
        s2, e2 = _row_index(m2, exp_s), _row_index(m2, exp_e)
        if None not in s1 and None not in e2:
            start_fixed, present = True, set(s1)
        elif None not in e1 and None not in s2:
            start_fixed, present = False, set(e1)
    if start_fixed is None:
        cl[k_arr] = (f"the position arrays received by the optimiser are not (atoms of one molecule, atoms of the other): "
                     f"first {m1.tolist()}, second {m2.tolist()}; start {exp_s.tolist()}, end {exp_e.tolist()}")
        return cl
    cl[k_arr] = None
    fixed, mobile = (exp_s, exp_e) if start_fixed else (exp_e, exp_s)
    fmask = case["hs"] if start_fixed else case["he"]
    if user is not None:
        surv = []
        for (i, j) in user:
            f, m = (i, j) if start_fixed else (j, i)
            # dropped only if the fixed-side atom is a hydrogen that was filtered out of the fixed array
            if wrong == "no_drop" or not (fmask[f] and f not in present):
                surv.append((f, m))
        try:
            recv = [tuple(p) for p in c["restriction"]]
            okfmt = all(len(p) == 2 and all(isinstance(x, (int, np.integer)) and not isinstance(x, bool) for x in p) for p in recv)
        except Exception:
            recv, okfmt = None, False
        if not okfmt:
            cl[k_count] = f"received restraint list is not a list of integer pairs: {c.get('restriction')!r}"
        else:
            cl[k_count] = None if len(recv) == len(surv) else (
                f"{len(recv)} pairs received {recv}, {len(surv)} expected to survive (user {user}, fixed molecule "
                f"{'start' if start_fixed else 'end'}, its hydrogens {[i for i, h in enumerate(fmask) if h]}, atoms present in the "
                f"fixed array {sorted(present)})")
            bad_f = bad_m = None
            for k, ((rf, rm), (f, m)) in enumerate(zip(recv, surv)):
                if wrong == "identity_index":
                    okf = (rf == f)
                else:
                    okf = 0 <= rf < len(m1) and _close(m1[rf], fixed[f])
                okm = 0 <= rm < len(m2) and _close(m2[rm], mobile[m])
                if not okf and bad_f is None:
                    got = m1[rf].tolist() if 0 <= rf < len(m1) else "index out of the received array"
                    bad_f = (f"entry {k}: fixed-side index {rf} designates {got}, intended fixed atom {f} of the "
                             f"{'start' if start_fixed else 'end'} molecule at {fixed[f].tolist()} (user pair list {user}, received {recv})")
                if not okm and bad_m is None:
                    got = m2[rm].tolist() if 0 <= rm < len(m2) else "index out of the received array"
                    bad_m = (f"entry {k}: mobile-side index {rm} designates {got}, intended mobile atom {m} of the "
                             f"{'end' if start_fixed else 'start'} molecule at {mobile[m].tolist()} (user pair list {user}, received {recv})")
            cl[k_fix] = bad_f
            cl[k_mob] = bad_m
    if case["deform"] is not None:      # only explicitly given deformation types are demanded; no particular default
        wd = tuple(case["deform"])
        try:
            gd = tuple(int(x) for x in c.get("sim_type"))
        except Exception:
            gd = c.get("sim_type")
        cl["args.explicit_deformation_types_forwarded"] = None if gd == wd else f"deformation types {c.get('sim_type')!r}, given {wd}"
    return cl


def judge_align(case, o, wrong=None):
    """Evaluate the clauses on an observation.  `wrong` selects a deliberately wrong clause (guards)."""
    cl = _judge_align(case, o, wrong)
    if o.get("again") is not None and wrong is None:
        try:
            cl2 = _judge_align(case, o["again"], None)
        except Harness:
            cl2 = {}
        bad2 = [(k, v) for k, v in cl2.items() if v is not None and cl.get(k) is None]
        cl["ensures.same_restraint_list_object_given_to_a_second_alignment_designates_the_same_atoms"] = (
            None if not bad2 else f"second alignment with the same list object: [{bad2[0][0]}] {bad2[0][1]}")
    return cl


def _judge_align(case, o, wrong=None):
    cl = {}
    ns, ne = sum(case["lens_s"]), sum(case["lens_e"])
    cl["ensures.returns_without_exception"] = None if o["exc"] is None else f"align_molecules raised {o['exc']}"
    calls = o["calls"]
    if case["restr"] is None:
        user = o["guessed"]         # None for single-residue molecules: nothing is demanded of the restraint list then
    else:
        user = [tuple(p) for p in case["restr"]]
    if not calls:
        if o["exc"] is None and ne > 1 and user:
            cl["ensures.restraints_reach_the_optimiser"] = f"the optimiser was not entered; user restraints {user}"
        return cl       # a single-atom end molecule returns before the optimiser (documented)
    cl["ensures.restraints_reach_the_optimiser"] = None
    if user is not None and any(not (0 <= i < ns and 0 <= j < ne) for i, j in user):
        raise Harness(f"restraint list {user} has indices outside the molecules ({ns} x {ne} atoms): outside the routing contract "
                      "(guessed lists are checked by the guess_protein_restrains contract)")
    exp_s = _rigid(o["pos_s"], o["spec_s"]["xyz"], "start")
    exp_e = _rigid(o["pos_e"], o["spec_e"]["xyz"], "end")
    allp = np.vstack([exp_s, exp_e])
    for i in range(len(allp)):
        for j in range(i + 1, len(allp)):
            if np.abs(allp[i] - allp[j]).max() < 0.01:
                raise Harness("generated coordinates coincide after the translation")
    for c in calls:
        for k, v in _judge_call(case, o, c, exp_s, exp_e, user, wrong=wrong).items():
            if cl.get(k) is None:
                cl[k] = v
    return cl


def _align_nontrivial(case):
    ns, ne = sum(case["lens_s"]), sum(case["lens_e"])
    if ne == 1:
        return False
    swap = ns < ne
    fmask = case["he"] if swap else case["hs"]
    return bool(case["restr"] is None and len(case["lens_s"]) > 1) or bool(case["restr"]) and (swap or (case["ignore_h"] and any(fmask)))


def _masks(n, need_heavy=True):
    for bits in itertools.product((False, True), repeat=n):
        if need_heavy and all(bits):
            continue
        yield list(bits)


def _restr_lists(ns, ne, maxlen=2):
    pairs = [(i, j) for i in range(ns) for j in range(ne)]
    yield None
    for L in range(0, maxlen + 1):
        for t in itertools.product(pairs, repeat=L):
            yield [list(p) for p in t]


def align_units(ns, ne):
    """(fixed mask, mobile variant) units of the size pair."""
    swap = ns < ne
    nf, nm = (ne, ns) if swap else (ns, ne)
    units = []
    for fm in _masks(nf):
        for mv in (0, 1):
            mm = [False] * nm
            if mv:
                mm[0] = True
            units.append((fm, mm))
    return units


def _align_combos(ns, ne, fm, mm, tier):
    """(restraint list, ignore_hydrogens, deformation types) combinations of one (fixed mask, mobile mask) unit.
    thorough: the full product.  quick: every restraint list x ignore_hydrogens for the mobile molecule without
    hydrogens and default deformation types; lists of length <= 1 for the mobile-hydrogen variant and for (0,1)."""
    full = tier != "quick"
    for restr in _restr_lists(ns, ne):
        short = restr is None or len(restr) <= 1
        for ignore_h in (True, False):
            for deform in (None, [0, 1]):
                if full or short or (deform is None and not any(mm)):
                    yield restr, ignore_h, deform


def _align_parts(ns, ne, tier, per_task=None):
    per_task = per_task or (2500 if tier == "quick" else 12000)
    units = align_units(ns, ne)
    cost = sum(sum(1 for _ in _align_combos(ns, ne, fm, mm, tier)) for fm, mm in units)
    return max(1, min(len(units), round(cost / per_task)))


def task_align(prop, ns, ne, part, nparts, tier, seed):
    pool = Pool()
    agg = Agg(prop, "Alignment.align_molecules", f"atoms={ns}x{ne},lists<=2,part={part + 1}of{nparts}")
    swap = ns < ne
    try:
        with contextlib.redirect_stdout(io.StringIO()):
            for ui, (fm, mm) in enumerate(align_units(ns, ne)):
                if ui % nparts != part:
                    continue
                hs, he = (mm, fm) if swap else (fm, mm)
                for restr, ignore_h, deform in _align_combos(ns, ne, fm, mm, tier):
                    case = {"fn": "b10:align", "lens_s": [ns], "lens_e": [ne], "hs": hs, "he": he, "restr": restr,
                            "ignore_h": ignore_h, "deform": deform}
                    try:
                        cl = judge_align(case, observe_align(case, pool))
                    except Harness as e:
                        agg.problem(e)
                        continue
                    agg.add(cl, case, _align_nontrivial(case))
    finally:
        pool.close()
    return agg.obligations(ALIGN_CLAUSES if ne > 1 else ALIGN_CLAUSES[:1])


def _auto_cases():
    for ls in itertools.product((1, 2), repeat=2):
        for le in itertools.product((1, 2), repeat=2):
            ns, ne = sum(ls), sum(le)
            swap = ns < ne
            nf, nm = (ne, ns) if swap else (ns, ne)
            fms = [[False] * nf] + [[k == h for k in range(nf)] for h in range(nf)]
            for fm in fms:
                if all(fm):
                    continue
                mm = [False] * nm
                hs, he = (mm, fm) if swap else (fm, mm)
                for ignore_h in (True, False):
                    yield {"fn": "b10:align", "lens_s": list(ls), "lens_e": list(le), "hs": hs, "he": he, "restr": None,
                           "ignore_h": ignore_h, "deform": None}


def task_align_auto(prop, seed):
    pool = Pool()
    agg = Agg(prop, "Alignment.align_molecules", "auto-guess,2-residues,lens1..2")
    try:
        with contextlib.redirect_stdout(io.StringIO()):
            for case in _auto_cases():
                try:
                    cl = judge_align(case, observe_align(case, pool))
                except Harness as e:
                    agg.problem(e)
                    continue
                agg.add(cl, case, True)
    finally:
        pool.close()
    return agg.obligations(ALIGN_CLAUSES[:-1])


def task_align_guards(prop, seed):
    """Must-fail guards of family (1)."""
    pool = Pool()
    out = []
    G = dict(kind="guard", engine="smallscope", backend="runtime-contract", expect="refuted")
    base = f"{prop}/Alignment.align_molecules/guard"
    try:
        with contextlib.redirect_stdout(io.StringIO()):
            # start smaller (role swap), hydrogen at index 1 of the fixed end molecule
            case = {"fn": "b10:align", "lens_s": [3], "lens_e": [4], "hs": [False] * 3, "he": [False, True, False, False],
                    "restr": [[0, 1], [2, 3], [1, 0]], "ignore_h": True, "deform": None}
            o = observe_align(case, pool)
            good = judge_align(case, o)
            clean = all(v is None for v in good.values())
            # (a) wrong clause: the fixed-side index is the user's index (no re-indexing)
            w = judge_align(case, o, wrong="identity_index")
            out.append(ob(base + ".wrong_clause.fixed_index_not_reindexed",
                          "refuted" if clean and w.get("ensures.fixed_side_designates_intended_atom") else "discharged", evaluations=1, **G))
            # (b) wrong clause: hydrogen pairs are kept
            w = judge_align(case, o, wrong="no_drop")
            out.append(ob(base + ".wrong_clause.hydrogen_pairs_kept",
                          "refuted" if clean and w.get("ensures.surviving_pairs_kept_in_order_hydrogen_pairs_dropped") else "discharged",
                          evaluations=1, **G))
            # (c) corrupted observation: pairs not reversed
            o2 = dict(o)
            c0 = dict(o["calls"][0])
            c0["restriction"] = [p[::-1] for p in c0["restriction"]]
            o2["calls"] = [c0]
            w = judge_align(case, o2)
            out.append(ob(base + ".corrupted.pairs_not_reversed",
                          "refuted" if clean and (w.get("ensures.fixed_side_designates_intended_atom") or w.get("ensures.mobile_side_designates_intended_atom"))
                          else "discharged", evaluations=1, **G))
            # (d) corrupted observation: stale fixed-side index (not re-indexed after the filter)
            c0 = dict(o["calls"][0])
            c0["restriction"] = [(3, 2), (0, 1)]
            o2["calls"] = [c0]
            w = judge_align(case, o2)
            out.append(ob(base + ".corrupted.stale_fixed_index",
                          "refuted" if clean and w.get("ensures.fixed_side_designates_intended_atom") else "discharged", evaluations=1, **G))
            # (e) corrupted observation: order of the surviving pairs changed
            c0 = dict(o["calls"][0])
            c0["restriction"] = list(o["calls"][0]["restriction"])[::-1]
            o2["calls"] = [c0]
            w = judge_align(case, o2)
            out.append(ob(base + ".corrupted.order_changed",
                          "refuted" if clean and (w.get("ensures.fixed_side_designates_intended_atom") or w.get("ensures.mobile_side_designates_intended_atom"))
                          else "discharged", evaluations=1, **G))
            # (f) corrupted observation: molecules swapped in the call
            c0 = dict(o["calls"][0])
            c0["mol1_positions"], c0["mol2_positions"] = c0["mol2_positions"], c0["mol1_positions"]
            o2["calls"] = [c0]
            w = judge_align(case, o2)
            out.append(ob(base + ".corrupted.arrays_swapped",
                          "refuted" if clean and (w.get("ensures.surviving_pairs_kept_in_order_hydrogen_pairs_dropped")
                                                  or w.get("ensures.fixed_side_designates_intended_atom")
                                                  or w.get("ensures.mobile_side_designates_intended_atom")) else "discharged",
                          evaluations=1, **G))
            # vacuity: the scope contains swapped / filtered / dropped situations
            n_swap = n_drop = 0
            for fm, mm in align_units(3, 4):
                n_swap += 1
                n_drop += any(fm)
            out.append(ob(base + ".vacuity.scope_has_swap_and_hydrogens", "discharged" if n_swap and n_drop else "refuted",
                          kind="guard", engine="smallscope", backend="runtime-contract", expect="discharged", evaluations=1))
    except Harness as e:
        out.append(ob(base + ".harness", "undecided", reason=str(e), **KW))
    finally:
        pool.close()
    return out


# ===========================================================================
# (2) guess_residue_restrains / _split_list


def _residue(n, resname="RES"):
    from gaddlemaps.components import Residue, AtomGro
    return Residue([AtomGro([1, resname, "C%d" % (i + 1), i + 1, 0.1 * i, 0.0, 0.0]) for i in range(n)])


def _monotone(pairs):
    """i < i' => j <= j' for all pairs (no crossing)."""
    lo, hi = {}, {}
    for i, j in pairs:
        lo[i] = min(lo.get(i, j), j)
        hi[i] = max(hi.get(i, j), j)
    prev = None
    for i in sorted(lo):
        if prev is not None and hi[prev] > lo[i]:
            return f"atoms {prev}<{i} paired with {hi[prev]}>{lo[i]}"
        prev = i
    return None


def judge_pairs(pairs, n1, n2, off1, off2, group1=None, group2=None, wrong=None):
    """Clauses of a per-residue pairing.  group1/group2: atom -> group index (local indices)."""
    cl = {}
    try:
        P = [(int(i), int(j)) for i, j in pairs]
    except Exception:
        cl["ensures.indices_within_range_offsets_applied"] = f"result is not a list of integer pairs: {pairs!r}"[:300]
        return cl
    bad = [p for p in P if not (off1 <= p[0] < off1 + n1 and off2 <= p[1] < off2 + n2)]
    cl["ensures.indices_within_range_offsets_applied"] = None if not bad else (
        f"pair {bad[0]} outside [{off1},{off1 + n1}) x [{off2},{off2 + n2})")
    s1, s2 = {p[0] for p in P}, {p[1] for p in P}
    miss1 = [i for i in range(off1, off1 + n1) if i not in s1]
    miss2 = [j for j in range(off2, off2 + n2) if j not in s2]
    cl["ensures.every_atom_has_a_partner"] = None if not (miss1 or miss2) else (
        f"atoms without partner: first residue {miss1[:5]}, second residue {miss2[:5]}")
    cl["ensures.atom_order_preserved"] = _monotone(P)
    if wrong == "identity":
        cl["ensures.atom_order_preserved"] = None if all(i - off1 == j - off2 for i, j in P) else "not the identity pairing"
    if group1 is not None and not bad:
        x = [p for p in P if group1[p[0] - off1] != group2[p[1] - off2]]
        cl["ensures.pairs_only_within_the_same_group"] = None if not x else (
            f"pair {x[0]} joins group {group1[x[0][0] - off1]} with group {group2[x[0][1] - off2]}")
    return cl


def judge_split(parts, n, k):
    cl = {}
    try:
        parts = [list(p) for p in parts]
    except Exception:
        return {"ensures.k_contiguous_nonempty_parts_in_order": f"not a list of lists: {parts!r}"[:200]}
    ok = len(parts) == k and all(len(p) > 0 for p in parts) and [x for p in parts for x in p] == list(range(n))
    cl["ensures.k_contiguous_nonempty_parts_in_order"] = None if ok else f"_split_list(range({n}), {k}) = {parts}"
    return cl


OFFSETS = ((0, 0), (3, 7), (41, 0))


def eval_residue(case, A, cache=None, wrong=None, corrupt=None):
    n1, n2, off1, off2 = case["n1"], case["n2"], case["off1"], case["off2"]
    cache = cache if cache is not None else {}
    r1 = cache.get(n1) or cache.setdefault(n1, _residue(n1))
    r2 = cache.get(n2) or cache.setdefault(n2, _residue(n2))
    try:
        pairs = A.guess_residue_restrains(r1, r2, off1, off2)
    except Exception as e:
        return {"ensures.returns_without_exception": f"raised {type(e).__name__}: {e}"}
    if corrupt:
        pairs = corrupt(list(pairs))
    g1 = g2 = None
    cl = {"ensures.returns_without_exception": None}
    cl.update(judge_pairs(pairs, n1, n2, off1, off2, g1, g2, wrong=wrong))
    return cl


def task_residue(prop, lo, hi, seed):
    A = _al()
    agg = Agg(prop, "guess_residue_restrains", f"lengths {lo}..{hi} x 1..40,3 offset pairs")
    cache = {}
    for n1 in range(lo, hi + 1):
        for n2 in range(1, 41):
            for off1, off2 in OFFSETS:
                case = {"fn": "b10:residue", "n1": n1, "n2": n2, "off1": off1, "off2": off2}
                try:
                    cl = eval_residue(case, A, cache)
                except Harness as e:
                    agg.problem(e)
                    continue
                agg.add(cl, case, n1 != n2)
    return agg.obligations()


def task_split(prop, seed):
    A = _al()
    agg = Agg(prop, "_split_list", "1<=k<=n<=40")
    split = getattr(A, "_split_list", None)
    if split is None:
        return [ob(f"{prop}/_split_list/ensures.k_contiguous_nonempty_parts_in_order/1<=k<=n<=40", "undecided",
                   reason="gaddlemaps._alignment._split_list does not exist any more", **KW)]
    for n in range(1, 41):
        for k in range(1, n + 1):
            case = {"fn": "b10:split", "n": n, "k": k}
            try:
                cl = judge_split(split(list(range(n)), k), n, k)
            except Exception as e:
                cl = {"ensures.k_contiguous_nonempty_parts_in_order": f"raised {type(e).__name__}: {e}"}
            agg.add(cl, case, 1 < k < n)
    out = agg.obligations()
    for o in out:
        # _split_list is a private helper: the statement-level clauses on guess_residue_restrains decide; a mismatch of
        # the helper's own contract is reported, never as a violation
        if o["status"] == "refuted":
            o["status"] = "undecided"
            o["reason"] = "helper contract of the private _split_list does not hold (not a C10 clause by itself): " + o.get("reason", "")
            o.pop("cex", None)
    # guards
    G = dict(kind="guard", engine="smallscope", backend="runtime-contract", expect="refuted")
    w = judge_split([[0, 1], [1, 2]], 3, 2)
    out.append(ob(f"{prop}/_split_list/guard.corrupted.overlapping_parts", "refuted" if any(w.values()) else "discharged", evaluations=1, **G))
    w = judge_split([[0, 1, 2], []], 3, 2)
    out.append(ob(f"{prop}/_split_list/guard.corrupted.empty_part", "refuted" if any(w.values()) else "discharged", evaluations=1, **G))
    case = {"fn": "b10:residue", "n1": 5, "n2": 3, "off1": 3, "off2": 7}
    good = eval_residue(case, A)
    clean = all(v is None for v in good.values())
    w = eval_residue(case, A, wrong="identity")
    out.append(ob(f"{prop}/guess_residue_restrains/guard.wrong_clause.identity_pairing",
                  "refuted" if clean and w.get("ensures.atom_order_preserved") else "discharged", evaluations=1, **G))
    w = eval_residue(case, A, corrupt=lambda p: p[:-1])
    out.append(ob(f"{prop}/guess_residue_restrains/guard.corrupted.last_pair_dropped",
                  "refuted" if clean and w.get("ensures.every_atom_has_a_partner") else "discharged", evaluations=1, **G))
    w = eval_residue(case, A, corrupt=lambda p: [(i - 3, j) for i, j in p])
    out.append(ob(f"{prop}/guess_residue_restrains/guard.corrupted.offset_not_applied",
                  "refuted" if clean and w.get("ensures.indices_within_range_offsets_applied") else "discharged", evaluations=1, **G))
    w = eval_residue(case, A, corrupt=lambda p: p + [(3, 9)])
    out.append(ob(f"{prop}/guess_residue_restrains/guard.corrupted.crossing_pair_added",
                  "refuted" if clean and w.get("ensures.atom_order_preserved") else "discharged", evaluations=1, **G))
    return out


# ===========================================================================
# (3) guess_protein_restrains


RESN = ("ALA", "GLY", "SER", "THR", "LYS", "VAL", "LEU", "ASP")


def _length_tuples(max_res, max_len):
    for r in range(1, max_res + 1):
        for t in itertools.product(range(1, max_len + 1), repeat=r):
            yield list(t)


def _resnames(variant, n, side):
    if variant == "distinct":
        return [RESN[k % len(RESN)] for k in range(n)]
    if variant == "same":
        return ["ALA"] * n
    if variant == "contained":      # side 2 names contain side 1 names: accepted by the code, nothing demanded beyond the pairing
        return [RESN[k % len(RESN)] + ("X" if side == 2 else "") for k in range(n)]
    if variant == "mismatch":       # last residue name differs with no containment either way
        names = [RESN[k % len(RESN)] for k in range(n)]
        if side == 2:
            names[-1] = "TRP"
        return names
    raise Harness(f"unknown name variant {variant}")


def judge_protein(pairs, lens1, lens2, corrupt=None):
    n1, n2 = sum(lens1), sum(lens2)
    cl = {}
    try:
        P = [(int(i), int(j)) for i, j in pairs]
    except Exception:
        return {"ensures.indices_within_range": f"result is not a list of integer pairs: {pairs!r}"[:300]}
    if corrupt:
        P = corrupt(P)
    bad = [p for p in P if not (0 <= p[0] < n1 and 0 <= p[1] < n2)]
    cl["ensures.indices_within_range"] = None if not bad else f"pair {bad[0]} outside [0,{n1}) x [0,{n2})"
    pos1 = [k for k, ln in enumerate(lens1) for _ in range(ln)]
    pos2 = [k for k, ln in enumerate(lens2) for _ in range(ln)]
    x = [p for p in P if p not in bad and pos1[p[0]] != pos2[p[1]]]
    cl["ensures.pairs_only_same_sequence_position"] = None if not x else (
        f"pair {x[0]} joins residue {pos1[x[0][0]]} of the first molecule with residue {pos2[x[0][1]]} of the second")
    s1, s2 = {p[0] for p in P}, {p[1] for p in P}
    m1 = [i for i in range(n1) if i not in s1]
    m2 = [j for j in range(n2) if j not in s2]
    cl["ensures.every_atom_has_a_partner"] = None if not (m1 or m2) else f"atoms without partner: first {m1[:5]}, second {m2[:5]}"
    cl["ensures.atom_order_preserved"] = _monotone(P)
    return cl


def eval_protein(case, pool, A, corrupt=None):
    lens1, lens2 = case["lens1"], case["lens2"]
    var = case.get("names", "distinct")
    s1 = mol_spec("start", lens1, [False] * sum(lens1), resnames=_resnames(var, len(lens1), 1), molname="PA")
    s2 = mol_spec("end", lens2, [False] * sum(lens2), resnames=_resnames(var, len(lens2), 2), molname="PB")
    m1, m2 = pool.molecule(s1, direct=True), pool.molecule(s2, direct=True)
    if len(m1.residues) != len(lens1) or len(m2.residues) != len(lens2) or [len(r) for r in m1.residues] != lens1 \
            or [len(r) for r in m2.residues] != lens2:
        raise Harness(f"generated molecules were read with residues {[len(r) for r in m1.residues]} / {[len(r) for r in m2.residues]}")
    exc = pairs = None
    try:
        pairs = A.guess_protein_restrains(m1, m2)
    except Exception as e:
        exc = e
    cl = {}
    if len(lens1) != len(lens2):
        # the statement: 'refused with an error' -- any exception counts
        cl["ensures.unequal_residue_counts_refused_with_an_error"] = None if exc is not None else (
            f"{len(lens1)} vs {len(lens2)} residues: returned {list(pairs)[:6]}...")
        return cl
    if var in ("contained", "mismatch") and exc is not None:
        return {}  # refusing different residue names is allowed (documented), not demanded by the statement
    if exc is not None:
        cl["ensures.returns_without_exception"] = f"raised {type(exc).__name__}: {exc}"
        return cl
    cl["ensures.returns_without_exception"] = None
    cl.update(judge_protein(pairs, lens1, lens2, corrupt=corrupt))
    return cl


PROTEIN_CLAUSES = ("ensures.returns_without_exception", "ensures.indices_within_range", "ensures.pairs_only_same_sequence_position",
                   "ensures.every_atom_has_a_partner", "ensures.atom_order_preserved")


def task_protein(prop, nres1, max_len, chunk, nchunks, seed):
    A = _al()
    pool = Pool()
    agg = Agg(prop, "guess_protein_restrains", f"residues={nres1}x1..3,lens1..{max_len},part={chunk + 1}of{nchunks}")
    try:
        firsts = [t for t in _length_tuples(3, max_len) if len(t) == nres1]
        firsts = [t for k, t in enumerate(firsts) if k % nchunks == chunk]
        seconds = list(_length_tuples(3, max_len))
        for l1 in firsts:
            for l2 in seconds:
                variants = ("distinct",) if len(l1) != len(l2) else (("distinct", "same") if max(l1 + l2) > 2 else
                                                                    ("distinct", "same", "contained", "mismatch"))
                for var in variants:
                    case = {"fn": "b10:protein", "lens1": l1, "lens2": l2, "names": var}
                    try:
                        cl = eval_protein(case, pool, A)
                    except Harness as e:
                        agg.problem(e)
                        continue
                    agg.add(cl, case, l1 != l2)
    finally:
        pool.close()
    return agg.obligations()


def task_protein_random(prop, n, seed):
    A = _al()
    pool = Pool()
    rng = random.Random(1000 + seed)
    agg = Agg(prop, "guess_protein_restrains", f"random,{n} pairs,<=8 residues,lens1..12")
    try:
        for _ in range(n):
            r1 = rng.randint(2, 8)
            r2 = r1 if rng.random() < 0.8 else rng.randint(1, 8)
            case = {"fn": "b10:protein", "lens1": [rng.randint(1, 12) for _ in range(r1)],
                    "lens2": [rng.randint(1, 12) for _ in range(r2)], "names": rng.choice(("distinct", "same", "contained"))}
            if r1 != r2:
                case["names"] = "distinct"
            try:
                cl = eval_protein(case, pool, A)
            except Harness as e:
                agg.problem(e)
                continue
            agg.add(cl, case, True)
    finally:
        pool.close()
    return agg.obligations()


def task_protein_guards(prop, seed):
    A = _al()
    pool = Pool()
    out = []
    G = dict(kind="guard", engine="smallscope", backend="runtime-contract", expect="refuted")
    base = f"{prop}/guess_protein_restrains/guard"
    try:
        case = {"fn": "b10:protein", "lens1": [2, 1, 3], "lens2": [1, 3, 2], "names": "distinct"}
        good = eval_protein(case, pool, A)
        clean = all(v is None for v in good.values()) and len(good) == len(PROTEIN_CLAUSES)
        # corrupted: second residue's offset taken from the other molecule (2 -> 1)
        w = eval_protein(case, pool, A, corrupt=lambda P: [((i - 1) if i >= 2 else i, j) for i, j in P])
        out.append(ob(base + ".corrupted.offset_of_other_molecule",
                      "refuted" if clean and (w.get("ensures.pairs_only_same_sequence_position") or w.get("ensures.every_atom_has_a_partner"))
                      else "discharged", evaluations=1, **G))
        w = eval_protein(case, pool, A, corrupt=lambda P: P[:-1] if P[-1][0] != P[-2][0] or True else P)
        out.append(ob(base + ".corrupted.last_pair_dropped",
                      "refuted" if clean and w.get("ensures.every_atom_has_a_partner") else "discharged", evaluations=1, **G))
        w = eval_protein(case, pool, A, corrupt=lambda P: P + [(6, 0)])
        out.append(ob(base + ".corrupted.index_out_of_range", "refuted" if clean and w.get("ensures.indices_within_range") else "discharged",
                      evaluations=1, **G))
        # wrong clause: equal residue counts are refused
        c2 = {"fn": "b10:protein", "lens1": [2, 1], "lens2": [1, 3], "names": "distinct"}
        m1 = pool.molecule(mol_spec("start", c2["lens1"], [False] * 3, resnames=_resnames("distinct", 2, 1), molname="PA"), direct=True)
        m2 = pool.molecule(mol_spec("end", c2["lens2"], [False] * 4, resnames=_resnames("distinct", 2, 2), molname="PB"), direct=True)
        try:
            A.guess_protein_restrains(m1, m2)
            raised = False
        except Exception:
            raised = True
        out.append(ob(base + ".wrong_clause.equal_counts_refused", "discharged" if raised else "refuted", evaluations=1, **G))
    except Harness as e:
        out.append(ob(base + ".harness", "undecided", reason=str(e), **KW))
    finally:
        pool.close()
    return out


# ===========================================================================
# (4) Manager routing


# species A: start 2 atoms, end 4 atoms; species B: start 3 atoms, end 5 atoms
MGR_SIZES = {"A": (2, 4), "B": (3, 5)}
ABSENT = "absent"

R_VALUES = {
    "A": {"none": None, "valid": [(0, 3), (1, 0)], "valid_lists": [[1, 2]],
          "bad_arity3": [(0, 1, 2)], "bad_arity1": [(0, 1), (0,)], "bad_nonsequence": [5],
          "bad_start_index": [(2, 0)], "bad_end_index": [(0, 4)], "bad_second_entry": [(0, 0), (1, 0), (3, 1)]},
    "B": {"none": None, "valid": [(2, 4)], "bad_start_index": [(3, 0)]},
    "X": {"valid": [(0, 0)], "none": None},
}
D_VALUES = {
    "A": {"none": None, "valid": (0, 1), "valid1": (2,), "lenient_empty": (), "bad_len4": (0, 1, 2, 0), "bad_nonsequence": 5},
    "B": {"none": None, "valid": (1,), "bad_len4": (0, 1, 2, 1)},
    "X": {"valid": (0,)},
}
H_VALUES = {
    "A": {"lenient_none": None, "true": True, "false": False, "bad_int": 1, "bad_str": "yes"},
    "B": {"true": True, "false": False, "bad_int": 0},
    "X": {"valid": True},
}
KIND_VALUES = {"R": R_VALUES, "D": D_VALUES, "H": H_VALUES}


def _kind_dicts(kind, reduced=False):
    """All option dictionaries of a kind as {species: state name}; None = argument not given."""
    vals = KIND_VALUES[kind]
    out = [None]
    sa = [ABSENT] + list(vals["A"])
    sb = [ABSENT] + list(vals["B"])
    sx = [ABSENT] + list(vals["X"])
    for a in sa:
        for b in sb:
            for x in sx:
                out.append({k: v for k, v in (("A", a), ("B", b), ("X", x)) if v != ABSENT})
    return out


def _materialise(kind, states):
    if states is None:
        return None
    import copy
    return {sp: copy.deepcopy(KIND_VALUES[kind][sp][st]) for sp, st in states.items()}


def mgr_expected(case):
    """Oracle from the statement: ('raise', why) | ('route', {species: (restr, deform, ignore)}, lenient: bool)."""
    why = []
    lenient = False
    for kind in ("R", "D", "H"):
        st = case[kind]
        if st is None:
            continue
        if "X" in st:
            why.append(f"{kind}: unknown species name")
        for sp, s in st.items():
            if s.startswith("bad_"):
                why.append(f"{kind}[{sp}]={s}")
            if s.startswith("lenient_"):
                lenient = True
    if why:
        return ("raise", why, lenient)
    route = {}
    for sp in ("A", "B"):
        def val(kind, default):
            st = case[kind]
            if st is None or sp not in st:
                return default
            s = st[sp]
            if s.startswith("lenient_") or s == "none":
                return default
            return KIND_VALUES[kind][sp][s]
        route[sp] = (val("R", None), val("D", None), val("H", True))
    return ("route", route, lenient)


class MgrSetup:
    def __init__(self):
        from gaddlemaps.components import System, Molecule
        from gaddlemaps import Manager
        self.d = tempfile.mkdtemp(prefix="b10m_")
        d = self.d
        recs, nr = [], 1
        itps = []
        order = ["A", "B", "A"]
        cg = {}
        for sp in ("A", "B"):
            ns, ne = MGR_SIZES[sp]
            cg[sp] = mol_spec("start", [ns], [False] * ns, resnames=[sp * 3], molname=sp)
            p = os.path.join(d, f"{sp}_cg.itp")
            with open(p, "w") as f:
                f.write(_fmt_itp(sp, cg[sp]["residues"], cg[sp]["bonds"]))
            itps.append(p)
        for k, sp in enumerate(order):
            for nm, xyz in zip(cg[sp]["residues"][0][1], cg[sp]["xyz"]):
                recs.append((k + 1, sp * 3, nm, nr, (xyz[0], xyz[1] + 1.5 * k, xyz[2])))
                nr += 1
        sysgro = os.path.join(d, "system.gro")
        with open(sysgro, "w") as f:
            f.write(_fmt_gro("system", recs))
        try:
            with contextlib.redirect_stdout(io.StringIO()):
                self.manager = Manager(System(sysgro, *itps))
                for sp in ("A", "B"):
                    ns, ne = MGR_SIZES[sp]
                    mask = [i == 1 for i in range(ne)]
                    aa = mol_spec("end", [ne], mask, resnames=[sp * 3], molname=sp)
                    self.manager.add_end_molecule(Molecule.from_files(*write_molecule(d, f"{sp}_aa", aa)))
            cc = self.manager.complete_correspondence
        except Exception as e:
            shutil.rmtree(d, ignore_errors=True)
            raise Harness(f"could not build the generated Manager: {type(e).__name__}: {e}")
        if sorted(cc) != ["A", "B"] or [len(cc[s].start) for s in "AB"] != [2, 3] or [len(cc[s].end) for s in "AB"] != [4, 5]:
            shutil.rmtree(d, ignore_errors=True)
            raise Harness(f"generated Manager has correspondence {sorted(cc)}")

    def close(self):
        shutil.rmtree(self.d, ignore_errors=True)


@contextlib.contextmanager
def _class_attr(cls, name, value):
    missing = object()
    old = cls.__dict__.get(name, missing)
    setattr(cls, name, value)
    try:
        yield
    finally:
        if old is missing:
            delattr(cls, name)
        else:
            setattr(cls, name, old)


def observe_manager(case, setup):
    A = _al()
    calls = []

    def recorder(self, restrictions=None, deformation_types=None, ignore_hydrogens=True, auto_guess_protein_restrictions=True):
        calls.append((names.get(id(self)) or getattr(getattr(self, "start", None), "name", None), restrictions, deformation_types,
                      ignore_hydrogens))

    names = {id(al): nm for nm, al in setup.manager.molecule_correspondence.items()}
    args = [_materialise(k, case[k]) for k in ("R", "D", "H")]
    kw = {"parse_restrictions": False} if case.get("parse") is False else {}
    exc = None
    with _class_attr(A.Alignment, "align_molecules", recorder):
        try:
            setup.manager.align_molecules(*args, **kw)
        except Exception as e:
            exc = e
    return {"calls": calls, "exc": exc}


def _norm_restr(r):
    if r is None:
        return None
    try:
        out = [tuple(int(x) for x in p) for p in r]
    except Exception:
        return ("unreadable", repr(r))
    return out or None      # an empty list and None both mean 'no restraints' for single-residue species


def _norm_def(x):
    if x is None:
        return None
    try:
        return tuple(int(v) for v in x)
    except Exception:
        return ("unreadable", repr(x))


def judge_manager(case, o, wrong=None):
    exp = mgr_expected(case)
    cl = {}
    exc, calls = o["exc"], o["calls"]
    k_rej = "ensures.unknown_name_or_malformed_value_rejected_before_any_alignment"
    k_route = "ensures.each_species_receives_exactly_its_own_options"
    if wrong == "must_raise":
        exp = ("raise", ["(guard) every call must be rejected"], False)
    if exp[0] == "raise":
        if exc is None:
            cl[k_rej] = f"{'; '.join(exp[1])}: no exception; alignments run: {[(c[0], c[1], c[2], c[3]) for c in calls]}"
        elif calls:
            cl[k_rej] = f"{'; '.join(exp[1])}: {type(exc).__name__} raised after {len(calls)} alignment(s) had run"
        else:
            cl[k_rej] = None
        return cl
    lenient = exp[2]
    if exc is not None:
        if lenient and not calls:
            return {}       # an empty deformation tuple / a None hydrogen flag may be rejected or read as 'default'
        cl[k_route] = f"well-formed options raised {type(exc).__name__}: {exc} (after {len(calls)} alignments)"
        return cl
    got = {}
    dup = None
    for name, r, dd, h in calls:
        if name in got:
            dup = name
        got[name] = (_norm_restr(r), _norm_def(dd), h)
    want = {sp: (_norm_restr(v[0]), _norm_def(v[1]), v[2]) for sp, v in exp[1].items()}
    if case.get("parse") is False:
        # restraints handed over already parsed (public parameter parse_restrictions=False), possibly for some species only and in any key
        # order: the species named must each be aligned once with their own options; whether the others are aligned too is not demanded
        named = list(case["R"])
        want = {sp: v for sp, v in want.items() if sp in named or sp in got}
    okh = all(isinstance(v[2], bool) for v in got.values())
    cl[k_route] = None if (got == want and dup is None and okh) else (
        f"alignments received {got}{' (species ' + str(dup) + ' aligned twice)' if dup else ''}, expected {want}")
    return cl


def _mgr_nontrivial(case):
    return any(case[k] for k in ("R", "D", "H"))


def task_manager(prop, part, nparts, tier, seed):
    try:
        setup = MgrSetup()
    except Harness as e:
        return [ob(f"{prop}/Manager.align_molecules/harness/part={part + 1}of{nparts}", "undecided", reason=str(e), **KW)]
    agg = Agg(prop, "Manager.align_molecules", f"option-dicts{{A,B,unknown}},part={part + 1}of{nparts}")
    try:
        Rs, Ds, Hs = _kind_dicts("R"), _kind_dicts("D"), _kind_dicts("H")
        with contextlib.redirect_stdout(io.StringIO()):
            for ri, R in enumerate(Rs):
                if ri % nparts != part:
                    continue
                for D in Ds:
                    for H in Hs:
                        case = {"fn": "b10:manager", "R": R, "D": D, "H": H}
                        cl = judge_manager(case, observe_manager(case, setup))
                        agg.add(cl, case, _mgr_nontrivial(case))
    finally:
        setup.close()
    return agg.obligations()


def task_manager_preparsed(prop, seed):
    """Manager.align_molecules(restrictions, deformations, hydrogens, parse_restrictions=False): restraints already parsed, given for
    both species in either key order or for one species only; every well-formed deformation / hydrogen dictionary."""
    try:
        setup = MgrSetup()
    except Harness as e:
        return [ob(f"{prop}/Manager.align_molecules/harness/preparsed", "undecided", reason=str(e), **KW)]
    agg = Agg(prop, "Manager.align_molecules", "restraints-already-parsed,key-orders-and-subsets")
    good = lambda kind, sp: [k for k in KIND_VALUES[kind][sp] if not k.startswith(("bad_", "lenient_"))]
    try:
        Rs = []
        for order in (("A", "B"), ("B", "A"), ("A",), ("B",)):
            for combo in itertools.product(*[[st for st in good("R", sp) if st != "none"] + ["none"] for sp in order]):
                Rs.append(dict(zip(order, combo)))
        Ds = [None] + [dict(zip(order, combo)) for order in (("A", "B"), ("B", "A"), ("A",), ("B",))
                       for combo in itertools.product(*[good("D", sp) for sp in order])]
        Hs = [None] + [dict(zip(order, combo)) for order in (("A", "B"), ("B", "A"), ("A",), ("B",))
                       for combo in itertools.product(*[good("H", sp) for sp in order])]
        with contextlib.redirect_stdout(io.StringIO()):
            for R in Rs:
                for D in Ds:
                    for H in Hs:
                        case = {"fn": "b10:manager", "R": R, "D": D, "H": H, "parse": False}
                        cl = judge_manager(case, observe_manager(case, setup))
                        agg.add(cl, case, True)
    finally:
        setup.close()
    return agg.obligations()


def task_manager_guards(prop, seed):
    G = dict(kind="guard", engine="smallscope", backend="runtime-contract", expect="refuted")
    base = f"{prop}/Manager.align_molecules/guard"
    try:
        setup = MgrSetup()
    except Harness as e:
        return [ob(base + ".harness", "undecided", reason=str(e), **KW)]
    out = []
    try:
        with contextlib.redirect_stdout(io.StringIO()):
            case = {"fn": "b10:manager", "R": {"A": "valid", "B": "valid"}, "D": {"A": "valid", "B": "valid"},
                    "H": {"A": "false", "B": "true"}}
            o = observe_manager(case, setup)
            good = judge_manager(case, o)
            clean = bool(good) and all(v is None for v in good.values())
            w = judge_manager(case, o, wrong="must_raise")
            out.append(ob(base + ".wrong_clause.valid_options_rejected", "refuted" if clean and any(w.values()) else "discharged",
                          evaluations=1, **G))
            # corrupted observation: species swapped
            names = {"A": "B", "B": "A"}
            o2 = {"exc": None, "calls": [(names[c[0]],) + tuple(c[1:]) for c in o["calls"]]}
            w = judge_manager(case, o2)
            out.append(ob(base + ".corrupted.options_of_the_other_species", "refuted" if clean and any(w.values()) else "discharged",
                          evaluations=1, **G))
            o2 = {"exc": None, "calls": [(c[0], c[1], c[2], True) for c in o["calls"]]}
            w = judge_manager(case, o2)
            out.append(ob(base + ".corrupted.hydrogen_flag_ignored", "refuted" if clean and any(w.values()) else "discharged",
                          evaluations=1, **G))
            # corrupted observation: malformed value, exception only after one alignment ran
            case2 = {"fn": "b10:manager", "R": {"A": "valid", "B": "bad_start_index"}, "D": None, "H": None}
            o3 = observe_manager(case2, setup)
            good2 = judge_manager(case2, o3)
            clean2 = bool(good2) and all(v is None for v in good2.values())
            o4 = {"exc": o3["exc"], "calls": [("A", [(0, 3), (1, 0)], None, True)]}
            w = judge_manager(case2, o4)
            out.append(ob(base + ".corrupted.rejected_after_an_alignment_ran", "refuted" if clean2 and any(w.values()) else "discharged",
                          evaluations=1, **G))
            nb = sum(1 for R in _kind_dicts("R") if mgr_expected({"R": R, "D": None, "H": None})[0] == "raise")
            ng = sum(1 for R in _kind_dicts("R") if mgr_expected({"R": R, "D": None, "H": None})[0] == "route")
            out.append(ob(base + ".vacuity.scope_has_accepted_and_rejected_dictionaries", "discharged" if nb and ng else "refuted",
                          kind="guard", engine="smallscope", backend="runtime-contract", expect="discharged", evaluations=1))
    finally:
        setup.close()
    return out


# ===========================================================================
# tasks / replay


def bounded_tasks(prop, tier, seed):
    t = []
    top = 4 if tier == "quick" else 5
    for ns in range(1, top + 1):
        for ne in range(1, top + 1):
            nparts = _align_parts(ns, ne, tier)
            for part in range(nparts):
                t.append((f"b10/align/{ns}x{ne}/part{part + 1}of{nparts}", task_align, (prop, ns, ne, part, nparts, tier, seed), 900.0))
    t.append(("b10/align/auto-guess", task_align_auto, (prop, seed), 300.0))
    t.append(("b10/align/guards", task_align_guards, (prop, seed), 300.0))
    for lo, hi in ((1, 10), (11, 20), (21, 30), (31, 40)):
        t.append((f"b10/residue/{lo}-{hi}", task_residue, (prop, lo, hi, seed), 600.0))
    t.append(("b10/split+guards", task_split, (prop, seed), 300.0))
    max_len = 4 if tier == "quick" else 5
    for nres1, nchunks in ((1, 1), (2, 1), (3, 4)):
        for c in range(nchunks):
            t.append((f"b10/protein/res{nres1}/part{c + 1}of{nchunks}", task_protein, (prop, nres1, max_len, c, nchunks, seed), 900.0))
    t.append(("b10/protein/random", task_protein_random, (prop, 150 if tier == "quick" else 1500, seed), 900.0))
    t.append(("b10/protein/guards", task_protein_guards, (prop, seed), 300.0))
    nparts = 12
    for part in range(nparts):
        t.append((f"b10/manager/part{part + 1}of{nparts}", task_manager, (prop, part, nparts, tier, seed), 900.0))
    t.append(("b10/manager/preparsed", task_manager_preparsed, (prop, seed), 600.0))
    t.append(("b10/manager/guards", task_manager_guards, (prop, seed), 300.0))
    return t


def _violated(cl, clause):
    bad = {k: v for k, v in cl.items() if v is not None}
    if clause and clause in cl:
        return cl[clause] is not None, bad
    return bool(bad), bad


def replay(prop, cex):
    fn = cex.get("fn", "")
    if not str(fn).startswith("b10:"):
        return None
    clause = cex.get("clause")
    note = None
    try:
        with contextlib.redirect_stdout(io.StringIO()):
            if fn == "b10:align":
                pool = Pool()
                try:
                    cl = judge_align(cex, observe_align(cex, pool))
                finally:
                    pool.close()
                note = ("real Alignment.align_molecules on the regenerated molecules; the optimiser entry point "
                        "gaddlemaps._alignment.minimize_molecules is recorded (observation point of the statement)")
            elif fn == "b10:residue":
                cl = eval_residue(cex, _al())
            elif fn == "b10:split":
                A = _al()
                try:
                    cl = judge_split(A._split_list(list(range(cex["n"])), cex["k"]), cex["n"], cex["k"])
                except Exception as e:
                    cl = {"ensures.k_contiguous_nonempty_parts_in_order": f"raised {type(e).__name__}: {e}"}
            elif fn == "b10:protein":
                pool = Pool()
                try:
                    cl = eval_protein(cex, pool, _al())
                finally:
                    pool.close()
            elif fn == "b10:manager":
                setup = MgrSetup()
                try:
                    cl = judge_manager(cex, observe_manager(cex, setup))
                finally:
                    setup.close()
                note = "real Manager.align_molecules on the regenerated system; Alignment.align_molecules is recorded instead of run"
            else:
                return {"reproduced": False, "note": f"unknown b10 replay kind {fn}", "inputs": cex}
    except Harness as e:
        return {"reproduced": False, "note": f"harness: {e}", "inputs": cex}
    hit, bad = _violated(cl, clause)
    r = {"reproduced": bool(hit), "violated": bad, "observed": bad.get(clause) if clause in bad else (next(iter(bad.values())) if bad else None),
         "expected": f"clause {clause} holds" if clause else "all clauses hold", "inputs": cex}
    if note:
        r["note"] = note
    return r
