"""B06 -- bounded part of C06 ("Alignment moves molecules only by structure-preserving
transformations").

Run-time contracts on the REAL gaddlemaps.Alignment (start/end setters, align_molecules) driving the
REAL Monte-Carlo optimiser (gaddlemaps._backend, Python engine) with a small step budget
(Alignment.STEPS_FACTOR set on the instance, 3..20), over generated molecule pairs written to a
temporary directory with this module's own .gro/.itp writers, plus two shipped pairs in the thorough
tier.  Every expected value is derived from the generated input (coordinates, names, bond graph),
never from the object under check.

Helper-module interface: bounded_info(), bounded_tasks(prop, tier, seed), replay(prop, cex).
"""
from __future__ import annotations

import contextlib
import copy
import hashlib
import io
import itertools
import os
import random
import shutil
import tempfile
import time
import warnings

import numpy as np

from vf.core import ob

PROP = "C06"
TOL = 1e-9            # nm, scaled by max(1, length)
FN_ALIGN = "Alignment.align_molecules"
FN_CLASS = "Alignment"

C_RETURNS = "ensures.returns_without_exception"
C_START_TR = "ensures.larger_start_only_translated"
C_END_UNT = "ensures.larger_end_untouched"
# informational (NOT demanded by the statement: a mismatch is reported as "undecided", never as a violation)
I_CENTRE = "info.start_translated_onto_end_centre"
I_EARLY_END = "info.one_atom_end_untouched"
I_LABELS = "info.residue_labels_and_atom_ids_unchanged"
INFORMATIONAL = (I_CENTRE, I_EARLY_END, I_LABELS)
C_BONDS = "ensures.mobile_bonded_distances_preserved_acyclic"
C_RIGID = "ensures.mobile_all_pairwise_distances_preserved_without_single_atom_moves"
C_NAMES = "ensures.atom_order_and_names_unchanged"
C_FINITE = "ensures.coordinates_finite"
C_DET = "ensures.deterministic_given_inputs_and_seed"
C_CALLER = "frame.caller_molecules_unmodified"

EXPECT = {
    C_RETURNS: "align_molecules returns (the statement demands a result for every input of the quantifier)",
    C_START_TR: "start has at least as many atoms as end (also a one-atom end): start_after == start_before + one common vector "
                "for every atom (1e-9); which vector is not fixed by the statement",
    C_END_UNT: "end has more atoms than start: end coordinates bit-identical to the input",
    I_CENTRE: "(informational) the common vector is centre(end_before) - centre(start_before) to 1e-9",
    I_EARLY_END: "(informational) a one-atom end molecule is bit-identical after the early return",
    I_LABELS: "(informational) residue names, residue numbers and atom ids of Alignment.start/.end equal the input files', atom by atom",
    C_BONDS: "every bonded distance of the mobile (smaller; ties: end) molecule equals its initial value to 1e-9 (its bond graph is acyclic)",
    C_RIGID: "deformation type 2 not selected: every pairwise distance of the mobile molecule equals its initial value to 1e-9",
    C_NAMES: "atom count and the sequence of atom names of Alignment.start/.end equal the input files'",
    C_FINITE: "every coordinate of Alignment.start/.end is finite",
    C_DET: "a fresh Alignment of the same molecules with the same np.random.seed gives bit-identical coordinates",
    C_CALLER: "the Molecule objects passed to Alignment(start=, end=) / the setters keep their coordinates, names, residue names/numbers and atom ids",
}


class Harness(Exception):
    """Problem of the checking harness (never a property violation)."""


class OverBudget(Harness):
    """The optimiser needed more energy evaluations than the case's budget: the run is skipped (termination and
    run time are not part of C06)."""


class _Budget(BaseException):
    pass


# ---------------------------------------------------------------------------
# info


def bounded_info():
    return {
        "functions": ["gaddlemaps/_alignment.py::Alignment.align_molecules",
                      "gaddlemaps/_alignment.py::Alignment.start (setter)", "gaddlemaps/_alignment.py::Alignment.end (setter)",
                      "gaddlemaps/_alignment.py::remove_hydrogens",
                      "gaddlemaps/_backend.py::minimize_molecules", "gaddlemaps/_backend.py::_minimize_molecules",
                      "gaddlemaps/_transform_molecule.py::move_mol_atom", "gaddlemaps/components/_residue.py::Residue.move_to"],
        "stubs": ["Alignment.STEPS_FACTOR set on the checked instance (3..20) -- the step budget is one of the quantified inputs",
                  "gaddlemaps._backend.Chi2Calculator.__call__ wrapped by a call counter (calls the real method; aborts and skips a run "
                  "beyond 20000 energy evaluations (80000 for the large thorough pairs); skipped runs are counted in guard.scope-evaluated-within-energy-budget)"],
        "assumptions": ["Python Monte-Carlo engine (cython_backend not importable; checked at run time, else undecided)",
                        "generated atoms are >= 0.06 nm apart, coordinates with three decimals; generic positions except in the degenerate-geometry family",
                        "random streams sampled through np.random.seed(k), k in 0..2 (quick) / 0..4 (thorough); step budgets STEPS_FACTOR in {3,8,20} ({3,5} for pairs with a side > 8)",
                        "tolerance 1e-9 nm scaled by max(1, distance)"],
        "explanation": (
            "Bounded run-time contract checks (never counted as proved) of the real Alignment with the real optimiser and a small step "
            "budget (STEPS_FACTOR 3/8/20 on the instance). Scope: seeded random trees (path/star/random recursive, relabelled) of "
            "1..8 atoms (quick) or 1..40 atoms (thorough: all size pairs <= 8 twice, plus sampled pairs with a side in "
            "{9,12,16,24,32,40}) for start and end, either one larger or equal; hydrogens on leaves of the larger molecule, one or two "
            "residues; restraint lists none/one pair/two pairs; every non-empty subset of deformation types {0,1,2} (type 2 only when "
            "the mobile molecule has >= 2 atoms); ignore_hydrogens on/off; seeds; four ways of handing the molecules over (constructor, "
            "setters in reverse order, setters re-assigned over a previous pair, one Alignment re-used after its held molecules were given the conformation under check in place). Cyclic mobile molecules (tree plus 1-2 extra bonds) "
            "only with type 2 disabled and only the all-pairwise clause. Thorough adds the shipped BF4 and BMIM CG/AA pairs both ways "
            "round. Each run evaluates: larger molecule only translated by one common vector (start) / bit-identical (end), bonded distances "
            "of the mobile molecule (acyclic), all pairwise distances (no single-atom moves), atom count and name sequence, finiteness, "
            "caller objects unmodified. Informational only (mismatch => undecided, never a violation, because the statement does not fix "
            "them): the translation vector being centre(end)-centre(start), a one-atom end staying untouched, residue names/numbers and "
            "atom ids of Alignment.start/.end; "
            "one run per option combination is repeated on a fresh Alignment (fresh Molecule objects read from the same files) for "
            "bit-identical determinism. Quick: combination k runs seed k mod 3 (+ its repeat), every 4th combination runs seeds 0..2; "
            "thorough: every combination runs seeds 0..4, three tree instances per size pair. A run whose optimiser exceeds the "
            "Family degenerate-geometry: mobile trees (4/6/7 atoms, on-grid coordinates) with a hub whose first three bonded neighbours "
            "are exactly collinear along x, y, z or (1,1,0) (trident, trident with tail, line through the hub with cross arms), as "
            "start-mobile, end-mobile and tie, deformation subsets containing type 2, seeds 0..3 (quick) / 0..7 (thorough): the hub's "
            "single-atom move proposes NaN coordinates, which must never reach Alignment.start/.end (a guard requires >= 20 % of the runs "
            "to have evaluated such a proposal). A run whose optimiser exceeds the "
            "energy-evaluation budget is skipped and counted (flat energy landscapes make rounding noise reset the stop counter; "
            "termination is not part of C06). Must-fail guards evaluate the clause predicates on an ideal observation built from the "
            "input (scripted twin of a correct Alignment) with one deliberate corruption each."),
        "rule": ("one evaluation per (molecule pair, restraint list, deformation subset, ignore_hydrogens, seed, hand-over scenario); "
                 "non-trivial = the run really exercised the clause (mobile molecule rotated/deformed, non-zero translation, "
                 "outcomes differing between seeds for determinism, Alignment's own molecules changed for the caller frame)"),
    }


# ---------------------------------------------------------------------------
# generators (own writers; oracle data kept next to the texts)

HEAVY = ("C", "N", "O", "S")
SCENARIOS = ("ctor", "setters", "reset", "reuse")
STEPS = (3, 8, 20)
ENERGY_BUDGET = 20000


def _rng(*key):
    return random.Random("b06|" + "|".join(str(k) for k in key))


def _unit(rng):
    while True:
        v = np.array([rng.gauss(0, 1) for _ in range(3)])
        n = float(np.linalg.norm(v))
        if n > 1e-3:
            return v / n


def _r3(x):
    return float("%.3f" % x)


def gen_graph(rng, n, shape, extra_edges=0):
    """Random tree on n labelled atoms (+ extra edges for cyclic graphs) with an embedding.
    Returns bonds (0-based pairs) and coordinates rounded to 3 decimals."""
    if shape == "path":
        parents = [i - 1 for i in range(1, n)]
    elif shape == "star":
        parents = [0] * (n - 1)
    else:
        parents = [rng.randrange(i) for i in range(1, n)]
    origin = np.array([rng.uniform(1.0, 4.0) for _ in range(3)])
    pts = [np.array([_r3(c) for c in origin])]
    for i in range(1, n):
        for _ in range(500):
            L = rng.uniform(0.10, 0.35)
            p = pts[parents[i - 1]] + L * _unit(rng)
            p = np.array([_r3(c) for c in p])
            if all(np.linalg.norm(p - q) >= 0.06 for q in pts):
                pts.append(p)
                break
        else:
            raise Harness("could not embed the generated tree in generic position")
    bonds = [(parents[i - 1], i) for i in range(1, n)]
    have = {frozenset(b) for b in bonds}
    cand = [(a, b) for a in range(n) for b in range(a + 1, n) if frozenset((a, b)) not in have]
    rng.shuffle(cand)
    bonds += cand[:extra_edges]
    perm = list(range(n))
    rng.shuffle(perm)
    xyz = [None] * n
    for old, new in enumerate(perm):
        xyz[new] = [float(c) for c in pts[old]]
    out = []
    for a, b in bonds:
        a, b = perm[a], perm[b]
        if rng.random() < 0.5:
            a, b = b, a
        out.append([a, b])
    rng.shuffle(out)
    return out, xyz


def is_acyclic(n, bonds):
    par = list(range(n))

    def find(x):
        while par[x] != x:
            par[x] = par[par[x]]
            x = par[x]
        return x
    for a, b in bonds:
        ra, rb = find(a), find(b)
        if ra == rb:
            return False
        par[ra] = rb
    return True


def fmt_gro(title, mol):
    lines = [title, "%5d" % len(mol["names"])]
    for i, nm in enumerate(mol["names"]):
        x, y, z = mol["xyz"][i]
        lines.append("%5d%-5s%5s%5d%8.3f%8.3f%8.3f" % (mol["resids"][i], mol["resnames"][i], nm, mol["ids"][i], x, y, z))
    lines.append("  10.00000  10.00000  10.00000")
    return "\n".join(lines) + "\n"


def fmt_itp(mol):
    lines = ["; generated by the B06 contract module", "[ moleculetype ]", "; name nrexcl", f"{mol['molname']} 1", "",
             "[ atoms ]", "; nr type resnr residue atom cgnr charge mass"]
    for i, nm in enumerate(mol["names"]):
        lines.append(f"{i + 1:5d} T{i + 1:<3d} {mol['resids'][i]:5d} {mol['resnames'][i]:6s} {nm:5s} {i + 1:5d}   0.000  12.000")
    cons = [b for k, b in enumerate(mol["bonds"]) if k in mol.get("constraint_idx", [])]
    bnds = [b for k, b in enumerate(mol["bonds"]) if k not in mol.get("constraint_idx", [])]
    if bnds:
        lines += ["", "[ bonds ]", "; ai aj funct c0 c1"]
        lines += [f"{a + 1:5d} {b + 1:5d} 1 0.300 1000.0" for a, b in bnds]
    if cons:
        lines += ["", "[ constraints ]", "; ai aj funct c0"]
        lines += [f"{a + 1:5d} {b + 1:5d} 1 0.300" for a, b in cons]
    return "\n".join(lines) + "\n"


def gen_molecule(rng, role, n, shape, larger, extra_edges=0):
    """role 'S'/'E' (name prefix).  `larger`: put hydrogens on leaves."""
    bonds, xyz = gen_graph(rng, n, shape, extra_edges)
    deg = [0] * n
    for a, b in bonds:
        deg[a] += 1
        deg[b] += 1
    hyd = [False] * n
    if larger:
        for i in range(n):
            if deg[i] <= 1 and rng.random() < 0.5:
                hyd[i] = True
    else:
        for i in range(n):
            if rng.random() < 0.12:
                hyd[i] = True
    if all(hyd):
        hyd[rng.randrange(n)] = False
    names = [("H" if hyd[i] else rng.choice(HEAVY)) + str(i + 1) for i in range(n)]
    two_res = n >= 4 and rng.random() < 0.3
    k = rng.randrange(1, n) if two_res else n
    resnames = [("R%s1" % role) if i < k else ("R%s2" % role) for i in range(n)]
    resids = [1 if i < k else 2 for i in range(n)]
    cidx = [j for j in range(len(bonds)) if rng.random() < 0.15]
    mol = {"molname": "M" + role, "names": names, "resnames": resnames, "resids": resids, "ids": list(range(1, n + 1)),
           "xyz": xyz, "bonds": bonds, "constraint_idx": cidx, "n_res": 2 if two_res else 1}
    mol["gro"] = fmt_gro("B06 generated " + role, mol)
    mol["itp"] = fmt_itp(mol)
    return mol


def gen_pair(seed, ns, ne, inst=0, cyclic=0):
    """The generated pair for sizes (ns, ne); `cyclic` extra bonds are added to the mobile molecule."""
    rng = _rng("pair", seed, ns, ne, inst, cyclic)
    shapes = ("random", "path", "star")
    start_mobile = ns < ne
    s = gen_molecule(rng, "S", ns, shapes[(ns + ne + inst) % 3], larger=not start_mobile,
                     extra_edges=cyclic if start_mobile else 0)
    e = gen_molecule(rng, "E", ne, shapes[(ns + 2 * ne + inst) % 3], larger=start_mobile,
                     extra_edges=0 if start_mobile else cyclic)
    return {"start": s, "end": e, "gen": {"kind": "generated", "verif_seed": seed, "ns": ns, "ne": ne, "inst": inst, "cyclic": cyclic}}


# ---- degenerate geometries: a hub of the mobile tree whose first three bonded neighbours are exactly collinear.
# find_atom_random_displ then crosses two parallel difference vectors (exactly zero on these on-grid coordinates, also after a
# common translation), normalises it and proposes NaN coordinates; the statement still demands finite coordinates.

DEGENERATE_TEMPLATES = {
    # name: (grid points in units of the spacing, as (along, across, out), hub index, bonds).  The three collinear neighbours
    # of the hub have the lowest indices among the hub's neighbours (Molecule.bonds_distance lists neighbours in ascending order).
    "trident-hub-last": ([(-1, 1, 0), (0, 1, 0), (1, 1, 0), (0, 0, 0)], 3, [(3, 0), (3, 1), (2, 3)]),
    "trident-tail-hub-first": ([(0, 0, 0), (-1, 1, 0), (0, 1, 0), (2, 1, 0), (0, -1, 0), (0, 2, 1)], 0,
                               [(0, 1), (0, 2), (0, 3), (4, 0), (2, 5)]),
    "line-through-hub-cross": ([(-1, 0, 0), (1, 0, 0), (0, 0, 0), (2, 0, 0), (0, 1, 0), (0, -1, 1), (-1, 1, 1)], 2,
                               [(2, 0), (1, 2), (2, 3), (2, 4), (5, 2), (6, 0)]),
}
DEGENERATE_AXES = ("x", "y", "z", "diag")


def degenerate_mobile(role, template, axis, spacing=0.15, origin=(2.0, 1.5, 2.5)):
    grid, hub, bonds = DEGENERATE_TEMPLATES[template]
    xyz = []
    for along, across, out in grid:
        if axis == "x":
            d = (along, across, out)
        elif axis == "y":
            d = (out, along, across)
        elif axis == "z":
            d = (across, out, along)
        else:                       # collinear direction (1,1,0); dyadic spacing and origin: every difference is exact
            d = (along + across, along - across, out)
        sp = 0.125 if axis == "diag" else spacing
        xyz.append([_r3(origin[k] + sp * d[k]) for k in range(3)])
    n = len(xyz)
    names = [("B" if i == hub else "C") + str(i + 1) for i in range(n)]
    mol = {"molname": "M" + role, "names": names, "resnames": ["R%s1" % role] * n, "resids": [1] * n, "ids": list(range(1, n + 1)),
           "xyz": xyz, "bonds": [list(b) for b in bonds], "constraint_idx": [], "n_res": 1, "hub": hub}
    mol["gro"] = fmt_gro("B06 degenerate " + role, mol)
    mol["itp"] = fmt_itp(mol)
    return mol


def hub_is_degenerate(mol):
    """Own check (from the generated data) that the two vectors the displacement generator crosses are exactly parallel."""
    hub = mol["hub"]
    nb = sorted({b if a == hub else a for a, b in mol["bonds"] if hub in (a, b)})
    if len(nb) < 3:
        return False
    P = np.array(mol["xyz"], dtype=float)
    c = np.cross(P[nb[0]] - P[nb[2]], P[nb[0]] - P[nb[1]])
    return bool(np.all(c == 0.0)) and is_acyclic(len(mol["names"]), mol["bonds"])


def gen_degenerate_pair(seed, template, axis, role):
    """role: 'start-mobile' (end larger), 'end-mobile' (start larger), 'tie' (equal sizes: end is the mobile one)."""
    nm = len(DEGENERATE_TEMPLATES[template][0])
    rng = _rng("degenerate", seed, template, axis, role)
    nl = nm if role == "tie" else nm + 2
    if role == "start-mobile":
        s = degenerate_mobile("S", template, axis)
        e = gen_molecule(rng, "E", nl, "random", larger=True)
    else:
        s = gen_molecule(rng, "S", nl, "random", larger=True)
        e = degenerate_mobile("E", template, axis)
    mob = s if role == "start-mobile" else e
    if not hub_is_degenerate(mob):
        raise Harness(f"degenerate template {template}/{axis} is not exactly collinear")
    return {"start": s, "end": e, "gen": {"kind": "degenerate", "verif_seed": seed, "name": f"{template}/{axis}/{role}",
                                         "template": template, "axis": axis, "role": role, "ns": len(s["names"]), "ne": len(e["names"])}}


def cases_degenerate(pair, seeds, steps=STEPS):
    ns, ne = len(pair["start"]["names"]), len(pair["end"]["names"])
    g = pair["gen"]
    rng = _rng("opts", g["verif_seed"], g["name"])
    k = 0
    for (rname, restr), types in itertools.product(restraint_lists(rng, ns, ne)[:2], ([2], [0, 2], [1, 2], [0, 1, 2], None)):
        for sd in seeds:
            yield {"start": pair["start"], "end": pair["end"], "gen": g, "energy_budget": ENERGY_BUDGET,
                   "restrictions": restr, "restr_kind": rname,
                   "auto_guess": not (pair["start"].get("n_res", 1) > 1 and restr is None),
                   "types": types, "ignore_h": bool(k % 2), "seed": sd,
                   "steps_factor": steps[k % len(steps)], "scenario": SCENARIOS[(k // len(steps)) % len(SCENARIOS)],
                   "repeat": sd == seeds[k % len(seeds)], "combo": k}
        k += 1


def restraint_lists(rng, ns, ne):
    out = [("none", None)]
    pairs = [(i, j) for i in range(ns) for j in range(ne)]
    rng.shuffle(pairs)
    out.append(("one", [list(pairs[0])]))
    if len(pairs) >= 2:
        out.append(("two", [list(pairs[0]), list(pairs[1])]))
    else:
        out.append(("one-again", [list(pairs[0])]))
    return out


def type_subsets(mobile_atoms, allow2=True):
    base = (0, 1, 2) if (mobile_atoms >= 2 and allow2) else (0, 1)
    subs = []
    for r in range(1, len(base) + 1):
        subs += [list(c) for c in itertools.combinations(base, r)]
    return subs




def cases_for_pair(pair, seeds, allow2=True, steps=STEPS, with_default_types=True, all_seeds_every=1, budget=None):
    """All option combinations for one pair.  Combination k runs seed seeds[k % len(seeds)] and repeats that run for
    determinism; every `all_seeds_every`-th combination runs all the seeds (1: every combination)."""
    ns, ne = len(pair["start"]["names"]), len(pair["end"]["names"])
    mobile = min(ns, ne)
    g = pair["gen"]
    rng = _rng("opts", g.get("verif_seed", 0), g.get("name", ""), ns, ne, g.get("inst", 0), g.get("cyclic", 0))
    subs = type_subsets(mobile, allow2)
    if with_default_types and allow2:
        subs = subs + [None]
    k = 0
    multi_res = pair["start"].get("n_res", 1) > 1
    for (rname, restr), types, ih in itertools.product(restraint_lists(rng, ns, ne), subs, (True, False)):
        for sd in seeds:
            if k % all_seeds_every and sd != seeds[k % len(seeds)]:
                continue
            yield {"start": pair["start"], "end": pair["end"], "gen": g, "energy_budget": budget or ENERGY_BUDGET,
                   "restrictions": restr, "restr_kind": rname,
                   "auto_guess": not (multi_res and restr is None),
                   "types": types, "ignore_h": ih, "seed": sd,
                   "steps_factor": steps[k % len(steps)], "scenario": SCENARIOS[(k // len(steps)) % len(SCENARIOS)],
                   "repeat": sd == seeds[k % len(seeds)], "combo": k}
        k += 1


# ---------------------------------------------------------------------------
# shipped pairs (own minimal readers give the oracle data)


def _data_dir():
    import gaddlemaps
    return os.path.join(os.path.dirname(gaddlemaps.__file__), "data")


def parse_gro_records(text):
    lines = text.splitlines()
    n = int(lines[1])
    recs = []
    for l in lines[2:2 + n]:
        recs.append((int(l[0:5]), l[5:10].strip(), l[10:15].strip(), int(l[15:20]),
                     [float(l[20:28]), float(l[28:36]), float(l[36:44])]))
    return recs


def parse_itp_min(text):
    sec, atoms, bonds, name = None, [], [], None
    kinds = {}
    for raw in text.splitlines():
        l = raw.split(";")[0].strip()
        if not l:
            continue
        if l.startswith("["):
            sec = l.strip("[] \t").lower()
            continue
        f = l.split()
        if sec == "moleculetype" and name is None:
            name = f[0]
        elif sec == "atoms":
            atoms.append((int(f[0]), f[4], f[3], int(f[2])))
        elif sec in ("bonds", "constraints", "pairs"):
            bonds.append((int(f[0]), int(f[1])))
            kinds[sec] = kinds.get(sec, 0) + 1
    num = {a[0]: i for i, a in enumerate(atoms)}
    return name, atoms, [[num[a], num[b]] for a, b in bonds], kinds


def shipped_molecule(gro_name, itp_name, first_resname=None):
    dd = _data_dir()
    with open(os.path.join(dd, itp_name)) as f:
        itp = f.read()
    with open(os.path.join(dd, gro_name)) as f:
        recs = parse_gro_records(f.read())
    name, atoms, bonds, kinds = parse_itp_min(itp)
    if first_resname is not None:
        k = next(i for i, r in enumerate(recs) if r[1] == first_resname)
        recs = recs[k:k + len(atoms)]
    if len(recs) != len(atoms) or [r[2] for r in recs] != [a[1] for a in atoms]:
        raise Harness(f"shipped {gro_name}/{itp_name}: own readers disagree on the atoms")
    mol = {"molname": name, "names": [r[2] for r in recs], "resnames": [r[1] for r in recs], "resids": [r[0] for r in recs],
           "ids": [r[3] for r in recs], "xyz": [[_r3(c) for c in r[4]] for r in recs], "bonds": bonds,
           "n_res": len({(r[0], r[1]) for r in recs}), "bond_sections": kinds, "shipped": [gro_name, itp_name]}
    mol["gro"] = fmt_gro("B06 copy of " + gro_name, mol)
    mol["itp"] = itp
    return mol


def shipped_pairs():
    bf4_aa = shipped_molecule("BF4_AA.gro", "BF4_AA.itp")
    bf4_cg = shipped_molecule("BF4_CG.gro", "BF4_CG.itp")
    bmim_aa = shipped_molecule("BMIM_AA.gro", "BMIM_AA.itp")
    bmim_cg = shipped_molecule("system_bmimbf4_cg.gro", "BMIM_CG.itp", first_resname="BMIM")
    out = []
    for nm, a, b in (("BF4 CG->AA", bf4_cg, bf4_aa), ("BF4 AA->CG", bf4_aa, bf4_cg),
                     ("BMIM CG->AA", bmim_cg, bmim_aa), ("BMIM AA->CG", bmim_aa, bmim_cg)):
        out.append({"start": a, "end": b, "gen": {"kind": "shipped", "name": nm}})
    return out


# ---------------------------------------------------------------------------
# running one case on the real code


@contextlib.contextmanager
def _quiet():
    with contextlib.redirect_stdout(io.StringIO()), warnings.catch_warnings():
        warnings.simplefilter("ignore")
        yield


def _write(d, tag, mol):
    g, t = os.path.join(d, tag + ".gro"), os.path.join(d, tag + ".itp")
    with open(g, "w") as f:
        f.write(mol["gro"])
    with open(t, "w") as f:
        f.write(mol["itp"])
    return g, t


def _snap(mol):
    pos = np.array(mol.atoms_positions, dtype=float).copy()
    atoms = [(a.name, a.resname, int(a.gro_resid), int(a.atomid)) for a in mol]
    return pos, atoms


def _oracle_atoms(spec):
    return [(spec["names"][i], spec["resnames"][i], int(spec["resids"][i]), int(spec["ids"][i])) for i in range(len(spec["names"]))]


def _load(paths, spec):
    from gaddlemaps.components import Molecule
    try:
        with _quiet():
            m = Molecule.from_files(*paths)
    except Exception as e:  # loading valid files is other properties' business
        raise Harness(f"Molecule.from_files failed on the generated files: {type(e).__name__}: {e}")
    pos, atoms = _snap(m)
    if atoms != _oracle_atoms(spec) or pos.shape != (len(spec["names"]), 3) or not np.array_equal(pos, np.array(spec["xyz"], dtype=float)):
        raise Harness("loaded molecule differs from the generated file contents (reader problem, not C06)")
    got = sorted({(min(i, j), max(i, j)) for i, a in enumerate(m) for j in a.bonds})
    want = sorted({(min(a, b), max(a, b)) for a, b in spec["bonds"]})
    if got != want:
        raise Harness(f"loaded bond graph differs from the generated one: {got} vs {want}")
    return m


def _previous_pair(S2, E2):
    """the pair an Alignment held BEFORE the one under check: another place and other bond lengths (20 % / 10 % longer)"""
    for M, f, shift in ((S2, 1.2, np.array([0.25, -0.5, 0.125])), (E2, 1.1, np.array([-1.0, 0.5, 0.75]))):
        P = np.array(M.atoms_positions, dtype=float)
        c = P.mean(axis=0)
        M.atoms_positions = c + (P - c) * f + shift


def _build(Alignment, scenario, S, E, extra, case=None):
    if scenario == "ctor":
        return Alignment(start=S, end=E)
    if scenario == "setters":
        ali = Alignment()
        ali.end = E
        ali.start = S
        return ali
    if scenario == "reset":
        S2, E2 = extra
        ali = Alignment(start=S2, end=E2)
        if case is not None:
            # the object has already been USED for the previous pair (a short alignment) before it is given the pair under check:
            # nothing computed for the previous pair (bond tables, restraints) may survive the re-assignment
            try:
                _align(ali, dict(case, steps_factor=min(int(case["steps_factor"]), 2), restrictions=None, auto_guess=False), case["seed"] + 77)
            except Exception:       # the use for the previous pair is set-up, not the call under check
                pass
        ali.start = S
        ali.end = E
        return ali
    if scenario == "reuse":
        # ONE Alignment object used twice: first on another conformation of the same two molecules (other place, other bond lengths), then --
        # after both held molecules were given the conformation under check in place -- for the call under check.  "Initial" bond lengths
        # are those at the start of THIS call: nothing measured during the first use may survive
        S2, E2 = extra
        ali = Alignment(start=S2, end=E2)
        if case is not None:
            try:
                _align(ali, dict(case, steps_factor=min(int(case["steps_factor"]), 2), restrictions=None, auto_guess=False), case["seed"] + 77)
            except Exception:       # the first use is set-up, not the call under check
                pass
            ali.start.atoms_positions = np.array(case["start"]["xyz"], dtype=float)
            ali.end.atoms_positions = np.array(case["end"]["xyz"], dtype=float)
        return ali
    raise Harness(f"unknown scenario {scenario}")


@contextlib.contextmanager
def _energy_budget(limit):
    """Counts the optimiser's energy evaluations (Chi2Calculator.__call__, wrapped in the checker process only) and
    aborts the run beyond `limit`: with a flat energy landscape rounding noise keeps resetting the optimiser's stop
    counter and a run with STEPS_FACTOR=40 can take millions of steps."""
    import gaddlemaps._backend as bk
    orig = bk.Chi2Calculator.__call__
    n = [0, 0]          # energy evaluations, of which NaN (a proposal with non-finite coordinates was evaluated)

    def counted(self, mol2):
        n[0] += 1
        if n[0] > limit:
            raise _Budget()
        v = orig(self, mol2)
        if v != v:
            n[1] += 1
        return v
    bk.Chi2Calculator.__call__ = counted
    try:
        yield n
    finally:
        bk.Chi2Calculator.__call__ = orig


def _align(ali, case, seed, stats=None):
    restr = case["restrictions"]
    restr = None if restr is None else [tuple(p) for p in restr]
    types = case["types"]
    types = None if types is None else tuple(types)
    ali.STEPS_FACTOR = int(case["steps_factor"])      # instance attribute: the class default is left alone
    np.random.seed(seed)
    try:
        with _quiet(), _energy_budget(int(case.get("energy_budget", ENERGY_BUDGET))) as counts:
            if stats is not None:
                stats.append(counts)
            ali.align_molecules(restrictions=restr, deformation_types=types, ignore_hydrogens=bool(case["ignore_h"]),
                                auto_guess_protein_restrictions=bool(case.get("auto_guess", True)))
    except _Budget:
        raise OverBudget(f"optimiser exceeded {case.get('energy_budget', ENERGY_BUDGET)} energy evaluations")


def run_case(case, paths=None, other_seed_repeat=False):
    """Runs the real code; returns the observation (plain arrays/lists)."""
    from gaddlemaps import Alignment
    from gaddlemaps._backend import check_backend_installed
    if check_backend_installed():
        raise Harness("compiled backend present: this module checks the Python engine")
    own = None
    if paths is None:
        own = tempfile.mkdtemp(prefix="b06_")
        paths = {"start": _write(own, "start", case["start"]), "end": _write(own, "end", case["end"])}
    try:
        S, E = _load(paths["start"], case["start"]), _load(paths["end"], case["end"])
        extra, extra_before = None, None
        if case["scenario"] in ("reset", "reuse"):
            S2, E2 = _load(paths["start"], case["start"]), _load(paths["end"], case["end"])
            _previous_pair(S2, E2)
            extra = (S2, E2)
            extra_before = [_snap(S2), _snap(E2)]
        obs = {"exc": None, "S0": np.array(case["start"]["xyz"], dtype=float), "E0": np.array(case["end"]["xyz"], dtype=float)}
        ali = None
        stats = []
        try:
            ali = _build(Alignment, case["scenario"], S, E, extra, case)
            _align(ali, case, case["seed"], stats)
        except Harness:
            raise
        except Exception as e:
            obs["exc"] = f"{type(e).__name__}: {e}"
        cnt = stats[0] if stats else [0, 0]
        obs["energy_evaluations"], obs["nan_proposals"] = int(cnt[0]), int(cnt[1])
        if ali is not None and ali.start is not None and ali.end is not None:
            obs["A1"], obs["atomsA"] = _snap(ali.start)
            obs["B1"], obs["atomsB"] = _snap(ali.end)
        obs["callers"] = [("start", _snap(S), (obs["S0"], _oracle_atoms(case["start"]))),
                          ("end", _snap(E), (obs["E0"], _oracle_atoms(case["end"])))]
        if extra is not None:
            obs["callers"] += [("previous start", _snap(extra[0]), extra_before[0]), ("previous end", _snap(extra[1]), extra_before[1])]
        if case.get("repeat") and obs["exc"] is None:
            S3, E3 = _load(paths["start"], case["start"]), _load(paths["end"], case["end"])
            extra3 = None
            if case["scenario"] in ("reset", "reuse"):
                S4, E4 = _load(paths["start"], case["start"]), _load(paths["end"], case["end"])
                _previous_pair(S4, E4)
                extra3 = (S4, E4)
            try:
                ali2 = _build(Alignment, case["scenario"], S3, E3, extra3, case)      # same inputs, handed over the same way
                _align(ali2, case, case["seed"] + (1 if other_seed_repeat else 0))
                obs["A2"], _ = _snap(ali2.start)
                obs["B2"], _ = _snap(ali2.end)
            except Harness:
                raise
            except Exception as e:
                obs["exc2"] = f"{type(e).__name__}: {e}"
        return obs
    finally:
        if own:
            shutil.rmtree(own, ignore_errors=True)


# ---------------------------------------------------------------------------
# the contract clauses (pure functions of the generated input and the observation)


def _pair_dists(P, pairs):
    return np.array([float(np.linalg.norm(P[i] - P[j])) for i, j in pairs])


def _dist_clause(M0, M1, pairs, what):
    if not pairs:
        return None
    d0, d1 = _pair_dists(M0, pairs), _pair_dists(M1, pairs)
    if not np.all(np.isfinite(d1)):
        k = int(np.argmin(np.isfinite(d1)))
        return f"{what} {pairs[k]}: distance after is not finite (initial {d0[k]:.9f})"
    err = np.abs(d1 - d0) / np.maximum(1.0, d0)
    k = int(np.argmax(err))
    if err[k] > TOL:
        return f"{what} {tuple(pairs[k])}: distance {d1[k]:.12f} after, {d0[k]:.12f} initially (|diff| {abs(d1[k] - d0[k]):.3e} > 1e-9)"
    return None


def _translated(X0, X1, v):
    want = X0 + v
    if X1.shape != want.shape:
        return f"shape {X1.shape} instead of {want.shape}"
    if not np.all(np.isfinite(X1)):
        return "non-finite coordinates"
    err = np.abs(X1 - want)
    k = np.unravel_index(int(np.argmax(err)), err.shape)
    sc = max(1.0, float(np.abs(want).max()))
    if err[k] > TOL * sc:
        dv = X1 - X0
        spread = float(np.abs(dv - dv.mean(axis=0)).max())
        return (f"atom {int(k[0])} is at {X1[k[0]].tolist()} instead of {want[k[0]].tolist()} (input + {v.tolist()}); "
                f"displacements differ between atoms by up to {spread:.3e}, mean displacement {dv.mean(axis=0).tolist()}")
    return None


def _same_bits(X0, X1):
    if X1.shape != X0.shape:
        return f"shape {X1.shape} instead of {X0.shape}"
    if X0.tobytes() == X1.tobytes() or np.array_equal(X0, X1):
        return None
    err = np.abs(X1 - X0)
    err = np.where(np.isnan(err), np.inf, err)
    k = np.unravel_index(int(np.argmax(err)), err.shape)
    return f"atom {int(k[0])} moved from {X0[k[0]].tolist()} to {X1[k[0]].tolist()} (max |diff| {float(err[k]):.3e})"


def applicable(case):
    ns, ne = len(case["start"]["names"]), len(case["end"]["names"])
    cl = [C_RETURNS, C_NAMES, I_LABELS, C_FINITE, C_CALLER]
    cl += [C_START_TR, I_CENTRE] if ns >= ne else [C_END_UNT]
    if ne == 1:
        cl.append(I_EARLY_END)
    else:
        mob = case["start"] if ns < ne else case["end"]
        types = case["types"]
        eff = types if types is not None else ([0] if min(ns, ne) == 1 else [0, 1, 2])
        if is_acyclic(len(mob["names"]), mob["bonds"]):
            cl.append(C_BONDS)
        if 2 not in eff:
            cl.append(C_RIGID)
    if case.get("repeat"):
        cl.append(C_DET)
    return cl


def check_clauses(case, obs):
    """-> (fail: clause -> message, nontrivial: clause -> bool)"""
    fail, nt = {}, {}
    cl = applicable(case)
    ns, ne = len(case["start"]["names"]), len(case["end"]["names"])
    S0, E0 = obs["S0"], obs["E0"]
    # caller frame is meaningful whatever happened
    msgs = []
    for who, (pos, atoms), (pos0, atoms0) in obs["callers"]:
        m = _same_bits(pos0, pos)
        if m:
            msgs.append(f"caller's {who} molecule: {m}")
        if atoms != atoms0:
            k = next((i for i, (a, b) in enumerate(zip(atoms, atoms0)) if a != b), min(len(atoms), len(atoms0)))
            msgs.append(f"caller's {who} molecule: atom {k} is {atoms[k] if k < len(atoms) else None} instead of {atoms0[k] if k < len(atoms0) else None}")
    if msgs:
        fail[C_CALLER] = "; ".join(msgs[:3])
    if obs["exc"] is not None:
        fail[C_RETURNS] = f"align_molecules raised {obs['exc']}"
        nt[C_RETURNS] = True
        return fail, nt
    nt[C_RETURNS] = True
    A1, B1 = obs["A1"], obs["B1"]
    nt[C_CALLER] = bool(_same_bits(S0, A1) or _same_bits(E0, B1))
    # names / order
    msgs, imsgs = [], []
    for who, atoms, spec in (("start", obs["atomsA"], case["start"]), ("end", obs["atomsB"], case["end"])):
        want = _oracle_atoms(spec)
        got_n, want_n = [a[0] for a in atoms], [a[0] for a in want]
        if got_n != want_n:
            k = next((i for i, (a, b) in enumerate(zip(got_n, want_n)) if a != b), min(len(got_n), len(want_n)))
            msgs.append(f"Alignment.{who}: {len(got_n)} atoms, atom {k} is named {got_n[k] if k < len(got_n) else None}; "
                        f"input has {len(want_n)} atoms, atom {k} named {want_n[k] if k < len(want_n) else None}")
        elif atoms != want:
            k = next(i for i, (a, b) in enumerate(zip(atoms, want)) if a != b)
            imsgs.append(f"Alignment.{who}: atom {k} is (name, residue, resid, id) {atoms[k]}, input {want[k]}")
    if msgs:
        fail[C_NAMES] = "; ".join(msgs)
    if imsgs:
        fail[I_LABELS] = "; ".join(imsgs)
    nt[C_NAMES] = max(ns, ne) >= 2
    nt[I_LABELS] = max(ns, ne) >= 2
    # finite
    bad = [(w, int(np.argwhere(~np.isfinite(X))[0][0])) for w, X in (("start", A1), ("end", B1)) if not np.all(np.isfinite(X))]
    if bad:
        fail[C_FINITE] = "; ".join(f"Alignment.{w} atom {k} has a non-finite coordinate" for w, k in bad)
    # degenerate-geometry family: non-trivial only when the optimiser really evaluated a proposal with NaN coordinates
    nt[C_FINITE] = True if case["gen"].get("kind") != "degenerate" else obs.get("nan_proposals", 0) > 0
    v = E0.mean(axis=0) - S0.mean(axis=0)
    moved = float(np.linalg.norm(v)) > 1e-6
    if A1.shape != S0.shape or B1.shape != E0.shape:
        for c in cl:
            if c in (C_START_TR, C_END_UNT, C_BONDS, C_RIGID):
                fail[c] = f"coordinate arrays have shapes {A1.shape}, {B1.shape} instead of {S0.shape}, {E0.shape}"
        return fail, nt
    if C_START_TR in cl:
        with np.errstate(all="ignore"):
            v_obs = (A1 - S0).mean(axis=0)          # the common vector, if there is one
        m = _translated(S0, A1, v_obs) if np.all(np.isfinite(v_obs)) else "non-finite coordinates"
        if m:
            fail[C_START_TR] = "start is not the input plus one common vector: " + m
        else:
            mi = _translated(S0, A1, v)
            if mi:
                fail[I_CENTRE] = f"start was translated by {v_obs.tolist()}, centre(end) - centre(start) is {v.tolist()}"
        nt[C_START_TR] = moved
        nt[I_CENTRE] = moved
    if I_EARLY_END in cl:
        m = _same_bits(E0, B1)
        if m:
            fail[I_EARLY_END] = "end: " + m
        nt[I_EARLY_END] = True
    if C_END_UNT in cl:
        m = _same_bits(E0, B1)
        if m:
            fail[C_END_UNT] = "end: " + m
        nt[C_END_UNT] = bool(_same_bits(S0, A1))
    if ne > 1:
        start_mobile = ns < ne
        mob = case["start"] if start_mobile else case["end"]
        M0, M1 = (S0, A1) if start_mobile else (E0, B1)
        dv = M1 - M0
        with np.errstate(all="ignore"):
            not_pure_translation = bool(len(M0) >= 2 and (not np.all(np.isfinite(dv)) or np.abs(dv - dv.mean(axis=0)).max() > 1e-6))
        if C_BONDS in cl:
            pairs = sorted({(min(a, b), max(a, b)) for a, b in mob["bonds"]})
            with np.errstate(all="ignore"):
                m = _dist_clause(M0, M1, pairs, ("start" if start_mobile else "end") + " bond")
            if m:
                fail[C_BONDS] = m
            nt[C_BONDS] = not_pure_translation
        if C_RIGID in cl:
            n = len(M0)
            pairs = [(i, j) for i in range(n) for j in range(i + 1, n)]
            with np.errstate(all="ignore"):
                m = _dist_clause(M0, M1, pairs, ("start" if start_mobile else "end") + " atom pair")
            if m:
                fail[C_RIGID] = m
            nt[C_RIGID] = not_pure_translation
    if C_DET in cl:
        if "exc2" in obs:
            fail[C_DET] = f"repeat raised {obs['exc2']} although the first run returned"
        elif "A2" in obs:
            m1 = None if obs["A1"].tobytes() == obs["A2"].tobytes() else _same_bits(obs["A1"], obs["A2"]) or "bit patterns differ"
            m2 = None if obs["B1"].tobytes() == obs["B2"].tobytes() else _same_bits(obs["B1"], obs["B2"]) or "bit patterns differ"
            if m1 or m2:
                fail[C_DET] = "repeat with the same seed differs: " + "; ".join(x for x in (m1 and "start " + m1, m2 and "end " + m2) if x)
        nt[C_DET] = False       # set by the collector when another seed gives another outcome
    return fail, nt


# ---------------------------------------------------------------------------
# deliberately corrupted observations (must-fail guards)


def corrupt_obs(case, obs, how):
    o = dict(obs)
    ns, ne = len(case["start"]["names"]), len(case["end"]["names"])
    start_mobile = ns < ne
    lk, mk = ("B1", "A1") if start_mobile else ("A1", "B1")
    mob = case["start"] if start_mobile else case["end"]
    if how == "larger_one_ulp":
        X = o[lk].copy()
        X[-1, 1] = np.nextafter(X[-1, 1], np.inf)
        o[lk] = X
    elif how == "larger_one_atom_shifted":
        X = o[lk].copy()
        X[0, 2] += 1e-6
        o[lk] = X
    elif how == "start_not_translated":
        o["A1"] = obs["S0"].copy()
    elif how == "end_translated_instead":
        o["B1"] = obs["B1"] + 1e-3
    elif how == "mobile_bond_stretched":
        a, b = mob["bonds"][0]
        deg = {}
        for x, y in mob["bonds"]:
            deg[x] = deg.get(x, 0) + 1
            deg[y] = deg.get(y, 0) + 1
        leaf, par = next(((x, y) if deg[x] == 1 else (y, x)) for x, y in mob["bonds"] if deg[x] == 1 or deg[y] == 1)
        X = o[mk].copy()
        u = X[leaf] - X[par]
        X[leaf] = X[leaf] + 1e-6 * u / np.linalg.norm(u)
        o[mk] = X
    elif how == "mobile_leaf_swung":
        deg = {}
        for x, y in mob["bonds"]:
            deg[x] = deg.get(x, 0) + 1
            deg[y] = deg.get(y, 0) + 1
        leaf, par = next(((x, y) if deg[x] == 1 else (y, x)) for x, y in mob["bonds"] if deg[x] == 1 or deg[y] == 1)
        X = o[mk].copy()
        u = X[leaf] - X[par]
        w = np.cross(u, np.array([0.3, -0.5, 0.8]))
        w = w / np.linalg.norm(w) * np.linalg.norm(u)
        th = 1e-3
        X[leaf] = X[par] + np.cos(th) * u + np.sin(th) * w
        o[mk] = X
    elif how == "names_swapped":
        at = list(o["atomsB"] if ne >= 2 else o["atomsA"])
        at[0], at[1] = at[1], at[0]
        o["atomsB" if ne >= 2 else "atomsA"] = at
    elif how == "labels_changed":
        at = list(o["atomsB"])
        at[0] = (at[0][0], at[0][1], at[0][2] + 1, at[0][3] + 7)
        o["atomsB"] = at
    elif how == "nan":
        X = o[mk].copy()
        X[0, 0] = np.nan
        o[mk] = X
    elif how == "caller_touched":
        cs = list(o["callers"])
        who, (pos, atoms), ref = cs[0]
        cs[0] = (who, (pos + np.array([1e-9, 0, 0]), atoms), ref)
        o["callers"] = cs
    elif how == "repeat_one_ulp":
        X = o["A2" if start_mobile else "B2"].copy()
        X[0, 0] = np.nextafter(X[0, 0], -np.inf)
        o["A2" if start_mobile else "B2"] = X
    elif how == "caller_renamed":
        cs = list(o["callers"])
        who, (pos, atoms), ref = cs[1]
        at = list(atoms)
        at[0] = ("X" + at[0][0],) + tuple(at[0][1:])
        cs[1] = (who, (pos, at), ref)
        o["callers"] = cs
    else:
        raise Harness(f"unknown corruption {how}")
    return o


# ---------------------------------------------------------------------------
# bookkeeping


def _types_str(t):
    return "default" if t is None else "".join(str(x) for x in t)


def signature(case, clause):
    ns, ne = len(case["start"]["names"]), len(case["end"]["names"])
    role = "start-mobile" if ns < ne else ("tie" if ns == ne else "end-mobile")
    return f"{clause.split('.', 1)[1]}|{role}|types={_types_str(case['types'])}"


def short(case):
    g = case["gen"]
    return {"pair": g, "n_start": len(case["start"]["names"]), "n_end": len(case["end"]["names"]),
            "restrictions": case["restrictions"], "deformation_types": case["types"], "ignore_hydrogens": case["ignore_h"],
            "seed": case["seed"], "steps_factor": case["steps_factor"], "scenario": case["scenario"]}


def make_cex(case, clause, msg):
    c = copy.deepcopy(case)
    if clause == C_DET:
        c["repeat"] = True
    return {"fn": "b06:align", "clause": clause, "case": c, "options": short(case), "observed": msg,
            "expected": EXPECT[clause], "signature": signature(case, clause)}


class Collector:
    def __init__(self, family):
        self.family = family
        self.st = {}
        self.harness = []
        self.skipped = []
        self.sample = None
        self.digests = {}
        self.det_cases = {}
        self.t0 = time.time()

    def add(self, case, fail, nt, obs=None):
        if self.sample is None:
            self.sample = short(case)
        for c in applicable(case):
            s = self.st.setdefault(c, {"n": 0, "nt": 0, "nfail": 0, "first": None})
            if c in nt or c in fail:
                s["n"] += 1
                s["nt"] += 1 if nt.get(c) else 0
            if c in fail:
                s["nfail"] += 1
                if s["first"] is None:
                    s["first"] = (case, fail[c])
        if obs is not None and obs.get("exc") is None and "A1" in obs:
            key = (case["gen"].get("name"), case["gen"].get("ns"), case["gen"].get("ne"), case["gen"].get("inst"), case["combo"])
            dg = hashlib.sha1(obs["A1"].tobytes() + obs["B1"].tobytes()).hexdigest()
            self.digests.setdefault(key, set()).add(dg)
            if case.get("repeat"):
                self.det_cases[key] = True

    def obligations(self):
        secs = time.time() - self.t0
        out = []
        if C_DET in self.st:
            self.st[C_DET]["nt"] = sum(1 for k in self.det_cases if len(self.digests.get(k, ())) >= 2)
        for c, s in self.st.items():
            fn = FN_CLASS if c == C_CALLER else FN_ALIGN
            oid = f"{PROP}/{fn}/{c}/{self.family}"
            if s["first"] is not None and c in INFORMATIONAL:
                case, msg = s["first"]
                out.append(ob(oid, "undecided", kind="bounded", engine="smallscope", backend="runtime-contract",
                              reason=f"informational, not demanded by the statement: {s['nfail']}/{s['n']} runs: {msg} -- {EXPECT[c]}; "
                                     f"case {short(case)}", sample=short(case), evaluations=s["n"], nontrivial=s["nt"]))
            elif s["first"] is not None:
                case, msg = s["first"]
                out.append(ob(oid, "refuted", kind="bounded", engine="smallscope", backend="runtime-contract", secs=secs / max(1, len(self.st)),
                              reason=f"{s['nfail']}/{s['n']} runs violate the clause; first: {msg} -- expected: {EXPECT[c]}",
                              cex=make_cex(case, c, msg), sample=short(case), evaluations=s["n"], nontrivial=s["nt"]))
            elif s["n"] == 0:
                continue
            else:
                out.append(ob(oid, "discharged", kind="bounded", engine="smallscope", backend="runtime-contract",
                              secs=secs / max(1, len(self.st)), sample=self.sample, evaluations=s["n"], nontrivial=s["nt"]))
        n_runs = self.st.get(C_RETURNS, {}).get("n", 0)
        out.append(ob(f"{PROP}/{FN_ALIGN}/guard.scope-evaluated-within-energy-budget/{self.family}",
                      "discharged" if n_runs > 0 and len(self.skipped) <= max(2, n_runs // 10) else "refuted", kind="guard",
                      engine="smallscope", backend="runtime-contract", expect="discharged", evaluations=n_runs,
                      reason=(f"{len(self.skipped)} of {n_runs + len(self.skipped)} runs skipped: the optimiser exceeded its energy-evaluation "
                              f"budget (flat energy landscape; termination/run time is not C06's)"
                              + (f"; first: {self.skipped[0]}" if self.skipped else ""))))
        if self.harness:
            out.append(ob(f"{PROP}/{FN_ALIGN}/harness/{self.family}", "undecided", kind="bounded", engine="smallscope",
                          backend="runtime-contract", reason=f"{len(self.harness)} cases not evaluated; first: {self.harness[0]}"))
        return out


def evaluate(case, paths=None):
    obs = run_case(case, paths)
    fail, nt = check_clauses(case, obs)
    return fail, nt, obs


def run_pairs(family, pairs, seeds, allow2=True, steps=STEPS, with_default_types=True, all_seeds_every=1, budget=None):
    col = Collector(family)
    for pair in pairs:
        d = tempfile.mkdtemp(prefix="b06_")
        try:
            paths = {"start": _write(d, "start", pair["start"]), "end": _write(d, "end", pair["end"])}
            for case in cases_for_pair(pair, seeds, allow2, steps, with_default_types, all_seeds_every, budget):
                try:
                    fail, nt, obs = evaluate(case, paths)
                except OverBudget:
                    col.skipped.append(short(case))
                    continue
                except Harness as e:
                    col.harness.append(f"{short(case)}: {e}")
                    continue
                col.add(case, fail, nt, obs)
        finally:
            shutil.rmtree(d, ignore_errors=True)
    return col.obligations()


# ---------------------------------------------------------------------------
# tasks


def _seeds(tier):
    return [0, 1, 2] if tier == "quick" else [0, 1, 2, 3, 4]


def _valid_sizes(ns, ne):
    # the larger molecule has at least one bond; a one-atom end needs a start with a bond as well
    return max(ns, ne) >= 2


def task_trees(tier, seed, ns, ne_lo, ne_hi, insts):
    pairs = [gen_pair(seed, ns, ne, inst) for ne in range(ne_lo, ne_hi + 1) if _valid_sizes(ns, ne) for inst in insts]
    return run_pairs(f"trees/start={ns}/end={ne_lo}..{ne_hi}", pairs, _seeds(tier), all_seeds_every=4 if tier == "quick" else 1)


def task_big(tier, seed, a, partners):
    pairs = []
    for b in partners:
        pairs.append(gen_pair(seed, a, b, 0))
        if a != b:
            pairs.append(gen_pair(seed, b, a, 0))
    return run_pairs(f"trees/large={a}/other={','.join(map(str, partners))}", pairs, [0, 1], steps=(3, 5), all_seeds_every=3, budget=80000)


def task_cyclic(tier, seed, start_mobile, sizes):
    pairs = []
    for nm in sizes:
        for extra, larger in ((1, nm), (2, nm + 2), (1, nm + 3)):
            if extra == 2 and nm < 4:
                extra = 1
            if start_mobile and larger == nm:
                larger = nm + 1     # ties make the end molecule the mobile one
            ns, ne = (nm, larger) if start_mobile else (larger, nm)
            pairs.append(gen_pair(seed, ns, ne, 0, cyclic=extra))
    who = "start" if start_mobile else "end"
    return run_pairs(f"cyclic-mobile-{who}/mobile={sizes[0]}..{sizes[-1]}", pairs, _seeds(tier), allow2=False, with_default_types=False,
                     all_seeds_every=4 if tier == "quick" else 1)


def task_degenerate(tier, seed, template):
    """Mobile trees with a hub whose first three neighbours are exactly collinear: single-atom moves of the hub propose NaN
    coordinates, which must never reach Alignment.start/.end."""
    col = Collector(f"degenerate-geometry/{template}")
    seeds = [0, 1, 2, 3] if tier == "quick" else list(range(8))
    n_runs = n_nan = 0
    for axis in DEGENERATE_AXES:
        for role in ("start-mobile", "end-mobile", "tie"):
            if axis == "diag" and role == "start-mobile":
                continue            # the translation of start adds different amounts to x and y: no longer exact
            try:
                pair = gen_degenerate_pair(seed, template, axis, role)
            except Harness as e:
                col.harness.append(f"{template}/{axis}/{role}: {e}")
                continue
            d = tempfile.mkdtemp(prefix="b06_")
            try:
                paths = {"start": _write(d, "start", pair["start"]), "end": _write(d, "end", pair["end"])}
                for case in cases_degenerate(pair, seeds):
                    try:
                        fail, nt, obs = evaluate(case, paths)
                    except OverBudget:
                        col.skipped.append(short(case))
                        continue
                    except Harness as e:
                        col.harness.append(f"{short(case)}: {e}")
                        continue
                    n_runs += 1
                    n_nan += obs.get("nan_proposals", 0) > 0
                    col.add(case, fail, nt, obs)
            finally:
                shutil.rmtree(d, ignore_errors=True)
    out = col.obligations()
    out.append(ob(f"{PROP}/{FN_ALIGN}/guard.degenerate-family-reaches-nan-proposals/degenerate-geometry/{template}",
                  "discharged" if n_runs and n_nan * 5 >= n_runs else "refuted", kind="guard", engine="smallscope",
                  backend="runtime-contract", expect="discharged", evaluations=n_runs,
                  reason=f"{n_nan} of {n_runs} runs evaluated at least one proposal with NaN coordinates (hub picked while its neighbours were still exactly collinear)"))
    return out


def task_shipped(tier, seed, k):
    pair = shipped_pairs()[k]
    mob = pair["start"] if len(pair["start"]["names"]) < len(pair["end"]["names"]) else pair["end"]
    if mob.get("bond_sections", {}).get("pairs"):
        return [ob(f"{PROP}/{FN_ALIGN}/harness/shipped/{pair['gen']['name']}", "undecided", kind="bounded", engine="smallscope",
                   backend="runtime-contract", reason="mobile shipped molecule has a [ pairs ] section (bond graph reading is C15's)")]
    return run_pairs("shipped/" + pair["gen"]["name"].replace(" ", "_"), [pair], [0, 1, 2], steps=(3, 5, 10))


GUARDS = [
    # (corruption, clause that must be refuted, pair sizes (ns, ne), types, clause that must stay satisfied or None)
    ("larger_one_ulp", C_END_UNT, (3, 5), [0, 1, 2], C_BONDS),
    ("larger_one_atom_shifted", C_START_TR, (5, 3), [0, 1, 2], C_BONDS),
    ("larger_one_atom_shifted", C_START_TR, (4, 4), [0, 1], C_RIGID),
    ("start_not_translated", I_CENTRE, (5, 3), [0, 1], C_START_TR),      # zero translation is still "only translated"
    ("start_not_translated", I_CENTRE, (4, 1), [0], C_START_TR),
    ("end_translated_instead", I_EARLY_END, (4, 1), [0], C_START_TR),
    ("larger_one_atom_shifted", C_START_TR, (4, 1), [0], None),
    ("labels_changed", I_LABELS, (5, 3), [0, 1, 2], C_NAMES),
    ("end_translated_instead", C_END_UNT, (2, 6), [0, 1], None),
    ("mobile_bond_stretched", C_BONDS, (6, 4), [0, 1, 2], C_START_TR),
    ("mobile_bond_stretched", C_BONDS, (3, 6), [2], C_END_UNT),
    ("mobile_bond_stretched", C_RIGID, (6, 4), [0, 1], C_START_TR),
    ("mobile_leaf_swung", C_RIGID, (6, 4), [0, 1], C_BONDS),
    ("mobile_leaf_swung", C_RIGID, (4, 7), [1], C_BONDS),
    ("names_swapped", C_NAMES, (5, 3), [0, 1, 2], C_BONDS),
    ("nan", C_FINITE, (5, 3), [0, 1, 2], C_START_TR),
    ("caller_touched", C_CALLER, (5, 3), [0, 1, 2], C_BONDS),
    ("caller_renamed", C_CALLER, (3, 5), [0, 1, 2], C_BONDS),
    ("repeat_one_ulp", C_DET, (5, 3), [0, 1, 2], C_BONDS),
    ("repeat_one_ulp", C_DET, (3, 5), [0, 1], C_END_UNT),
]


def _guard_case(seed, ns, ne, types, sd=0, scenario="ctor", repeat=False):
    pair = gen_pair(seed, ns, ne, 0)
    return {"start": pair["start"], "end": pair["end"], "gen": pair["gen"], "restrictions": None, "restr_kind": "none",
            "auto_guess": False, "types": types, "ignore_h": True, "seed": sd, "steps_factor": 10, "scenario": scenario,
            "repeat": repeat, "combo": -1}


def ideal_obs(case):
    """Observation a correct Alignment could produce, built from the generated input only (scripted twin):
    start translated onto end's centre, the mobile molecule moved rigidly, everything else untouched."""
    S0, E0 = np.array(case["start"]["xyz"], dtype=float), np.array(case["end"]["xyz"], dtype=float)
    ns, ne = len(S0), len(E0)
    v = E0.mean(axis=0) - S0.mean(axis=0)
    k = np.array([0.3, -0.5, 0.8])
    k = k / np.linalg.norm(k)
    K = np.array([[0, -k[2], k[1]], [k[2], 0, -k[0]], [-k[1], k[0], 0]])
    R = np.eye(3) + np.sin(0.7) * K + (1 - np.cos(0.7)) * (K @ K)

    def rigid(X):
        c = X.mean(axis=0)
        return (X - c) @ R.T + c + np.array([0.11, -0.07, 0.05])
    if ne == 1:
        A1, B1 = S0 + v, E0.copy()
    elif ns >= ne:
        A1, B1 = S0 + v, rigid(E0)
    else:
        A1, B1 = rigid(S0 + v), E0.copy()
    aS, aE = _oracle_atoms(case["start"]), _oracle_atoms(case["end"])
    obs = {"exc": None, "S0": S0, "E0": E0, "A1": A1, "B1": B1, "atomsA": list(aS), "atomsB": list(aE),
           "callers": [("start", (S0.copy(), list(aS)), (S0, aS)), ("end", (E0.copy(), list(aE)), (E0, aE))]}
    if case.get("repeat"):
        obs["A2"], obs["B2"] = A1.copy(), B1.copy()
    return obs


def task_guards(tier, seed):
    """Must-fail guards of the clause predicates: an ideal observation (built from the input, independent of the code under
    check) satisfies every clause; the same observation with one deliberate corruption must be refuted by the named clause
    (and, where given, must still satisfy a neighbouring clause, so that the clauses are not all-or-nothing)."""
    out = []
    for gi, (how, must, (ns, ne), types, keep) in enumerate(GUARDS):
        gid = f"{PROP}/{FN_CLASS if must == C_CALLER else FN_ALIGN}/guard.must-fail.{how}/{must.split('.', 1)[1]}/start={ns},end={ne},types={_types_str(types)}"
        try:
            case = _guard_case(seed, ns, ne, types, repeat=True)
            obs = ideal_obs(case)
            base_fail, _ = check_clauses(case, obs)
            fail, _ = check_clauses(case, corrupt_obs(case, obs, how))
            caught = must in fail and not base_fail and (keep is None or keep not in fail)
            out.append(ob(gid, "refuted" if caught else "discharged", kind="guard", engine="smallscope", backend="runtime-contract",
                          expect="refuted", reason=(fail.get(must, "") if caught else
                                                    f"not as expected: ideal observation fails {sorted(base_fail)}, corrupted one fails {sorted(fail)}"),
                          sample=short(case)))
        except Harness as e:
            out.append(ob(gid, "undecided", kind="guard", engine="smallscope", backend="runtime-contract", expect="refuted", reason=str(e)))
    # determinism: the comparison must see a repeat that used another seed
    gid = f"{PROP}/{FN_ALIGN}/guard.must-fail.repeat_with_other_seed/{C_DET.split('.', 1)[1]}"
    try:
        caught, ran = 0, 0
        for ns, ne, types in ((5, 3, [0, 1, 2]), (3, 6, [0, 1]), (4, 4, [2])):
            case = _guard_case(seed, ns, ne, types, repeat=True)
            obs = run_case(case, other_seed_repeat=True)
            if obs["exc"] is not None or "A2" not in obs:
                continue            # the run raised: reported by ensures.returns_without_exception, nothing to compare here
            ran += 1
            fail, _ = check_clauses(case, obs)
            caught += C_DET in fail
        if ran:
            out.append(ob(gid, "refuted" if caught else "discharged", kind="guard", engine="smallscope", backend="runtime-contract",
                          expect="refuted", reason=f"{caught}/{ran} real repeats with seed+1 differ from the run with seed", evaluations=ran))
    except Harness as e:
        out.append(ob(gid, "undecided", kind="guard", engine="smallscope", backend="runtime-contract", expect="refuted", reason=str(e)))
    # vacuity: the applicable-clause table covers every clause, and the class default STEPS_FACTOR is untouched
    try:
        from gaddlemaps import Alignment
        seen = set()
        for ns, ne, types, rep in ((5, 3, [0, 1, 2], True), (3, 5, [0, 1], False), (4, 1, [0], False)):
            seen.update(applicable(_guard_case(seed, ns, ne, types, repeat=rep)))
        ok = seen == set(EXPECT) and Alignment.STEPS_FACTOR == 5000
        out.append(ob(f"{PROP}/{FN_ALIGN}/guard.every-clause-applicable-and-class-default-restored", "discharged" if ok else "refuted",
                      kind="guard", engine="smallscope", backend="runtime-contract", expect="discharged",
                      reason=f"clauses reached {sorted(seen)}; Alignment.STEPS_FACTOR={Alignment.STEPS_FACTOR}"))
    except Harness as e:
        out.append(ob(f"{PROP}/{FN_ALIGN}/guard.every-clause-applicable-and-class-default-restored", "undecided", kind="guard",
                      engine="smallscope", backend="runtime-contract", expect="discharged", reason=str(e)))
    return out


def bounded_tasks(prop, tier, seed):
    t = []
    insts = (0,) if tier == "quick" else (0, 1, 2)
    lim = 300.0 if tier == "quick" else 1200.0     # kill protection only; a tree task takes ~5 s CPU (quick)
    for ns in range(1, 9):
        for lo, hi in ((1, 2), (3, 4), (5, 6), (7, 8)):
            t.append((f"b06/trees/start={ns}/end={lo}..{hi}", task_trees, (tier, seed, ns, lo, hi, insts), lim))
    t.append(("b06/cyclic/start-mobile", task_cyclic, (tier, seed, True, [3, 4, 5, 6] if tier == "quick" else [3, 4, 5, 6, 8, 12]), lim))
    t.append(("b06/cyclic/end-mobile", task_cyclic, (tier, seed, False, [3, 4, 5, 6] if tier == "quick" else [3, 4, 5, 6, 8, 12]), lim))
    for template in DEGENERATE_TEMPLATES:
        t.append((f"b06/degenerate-geometry/{template}", task_degenerate, (tier, seed, template), lim))
    t.append(("b06/guards", task_guards, (tier, seed), lim))
    if tier != "quick":
        for a in (9, 12, 16, 24, 32, 40):
            for partners in ([1, 2, 3], [5, 8], [a], [40 if a != 40 else 20]):
                t.append((f"b06/trees/large={a}/other={','.join(map(str, partners))}", task_big, (tier, seed, a, partners), 900.0))
        for k in range(4):
            t.append((f"b06/shipped/{k}", task_shipped, (tier, seed, k), 600.0))
    return t


# ---------------------------------------------------------------------------
# replay on the real, unwrapped code


def replay(prop, cex):
    fn = str(cex.get("fn", ""))
    if not fn.startswith("b06:"):
        return None
    case = cex["case"]
    clause = cex["clause"]
    try:
        fail, _, obs = evaluate(case)
    except Harness as e:
        return {"reproduced": False, "note": f"harness: {e}", "inputs": cex}
    return {"reproduced": clause in fail, "clause": clause, "observed": fail.get(clause, "clause holds on this run"),
            "expected": EXPECT.get(clause), "other_failing_clauses": {k: v for k, v in fail.items() if k != clause},
            "inputs": cex}
