"""C19 -- periodic distance is the minimum-image distance.

Residue.distance_to(other, box_vects, inv) is loop-free: symrun on the real
bound method of a real Residue whose coordinates are symbolic, np.linalg.inv
replaced by its contract (A3), np.round by the rint primitive.
"""
from __future__ import annotations

import itertools
import math

import numpy as np
import z3

from vf import symrun as S, core, spec
from vf.core import ob, discharge, Proof

PROP = "C19"


def info(prop):
    return {
        "level": "proof",
        "functions": ["gaddlemaps/components/_residue.py::Residue.distance_to",
                      "gaddlemaps/components/_residue.py::Residue.geometric_center (executed, 1- and 2-atom residues)"],
        "stubs": ["gaddlemaps.components._residue.np.linalg.inv -> contract stub (B.Binv = Binv.B = I, requires det B != 0)",
                  "gaddlemaps.components._residue.np.round -> rint primitive (nearest integer k, |x-k| <= 1/2)"],
        "trusted_base": ["z3 5.1", "sympy Groebner (gb)", "CPython/numpy executing the real method on object arrays (A2)",
                         "vf/symrun.py", "A1 float64 as reals", "A3 contract of numpy.linalg.inv and numpy.round"],
        "assumptions": ["A1 float64 treated as exact reals", "A2 numpy object-dtype transparency",
                        "A3 np.linalg.inv returns the two-sided inverse of a non-singular matrix; np.round returns a nearest integer",
                        "ties (fractional separation exactly half a box) excluded for symmetry/shift clauses, as in the statement"],
        "explanation": ("The real Residue.distance_to runs on symbolic coordinates and boxes; one path. Orthorhombic boxes: the squared result "
                        "equals sum_i (d_i - L_i k_i)^2 for the integers k chosen by the code and is <= the same sum for every integer vector n "
                        "(n are free integer symbols, so all images, not a window). General non-singular boxes: symmetry, invariance under "
                        "integer lattice shifts (symbolic integers) and the inverse-flag clause. Bounded numeric twin on the enumerated "
                        "boxes/points of the property's quantifier is reported separately."),
    }


# ---------------------------------------------------------------------------
# harness


class _Linalg:
    def __init__(self, inv):
        self.inv = inv

    def __getattr__(self, n):
        return getattr(np.linalg, n)


def _res_mod():
    import gaddlemaps.components._residue as R
    return R


def make_inv_stub(c: S.Ctx):
    """Contract stub of numpy.linalg.inv (A3): requires det M != 0; returns the
    two-sided inverse.  inv is a pure function: the same argument terms give the
    same result symbols (functional contract)."""
    cache = c.__dict__.setdefault("_inv_cache", [])

    def inv_stub(M):
        M = np.asarray(M, dtype=object)
        Mt = [[S.T(M[i][j]) for j in range(3)] for i in range(3)]
        for (Ma, Ia, arr) in cache:
            if all(Ma[i][j].eq(Mt[i][j]) for i in range(3) for j in range(3)):
                return arr.copy()
        tag = f"inv{len(cache) + 1}"
        Minv = S.mat(tag, 3, 3)
        It = [[S.T(Minv[i][j]) for j in range(3)] for i in range(3)]
        c.oblige("inv-requires-nonsingular", spec.det3(Mt) != 0)
        P1, P2, I = spec.matmul(Mt, It), spec.matmul(It, Mt), spec.ident()
        for i in range(3):
            for j in range(3):
                c.assume(P1[i][j] == I[i][j])
                c.assume(P2[i][j] == I[i][j])
        c.events.append(("inv", Mt, It))
        cache.append((Mt, It, Minv))
        return Minv.copy()
    return inv_stub


def call_distance(c, a_pos, other, box, inv=False, two_atoms=False):
    from gaddlemaps.components import AtomGro, Residue
    R = _res_mod()
    if two_atoms:
        # geometric centre of two atoms placed symmetrically around a_pos
        off = S.vec("off")
        atoms = [AtomGro([1, "RES", "A", 1] + list(a_pos + off)), AtomGro([1, "RES", "B", 2] + list(a_pos - off))]
    else:
        atoms = [AtomGro([1, "RES", "A", 1] + list(a_pos))]
    res = Residue(atoms)
    fac = S.NumpyFacade(extra={"linalg": _Linalg(make_inv_stub(c))})
    with S.patched(R, np=fac):
        return res.distance_to(other, box_vects=box, inv=inv)


def diag_box():
    L = S.vec("L")
    B = np.zeros((3, 3), dtype=object)
    for i in range(3):
        B[i, i] = L[i]
    return B


A = [z3.Real(f"a_{i}") for i in range(3)]
Bp = [z3.Real(f"b_{i}") for i in range(3)]
Lz = [z3.Real(f"L_{i}") for i in range(3)]
BOX = [[z3.Real(f"B_{i}_{j}") for j in range(3)] for i in range(3)]


def _cex(mode):
    def build(model):
        from vf.backends import model_value
        g = lambda n, d=0.0: model_value(model[n]) if n in model else d
        cex = {"mode": mode, "a": [g(f"a_{i}") for i in range(3)], "b": [g(f"b_{i}") for i in range(3)]}
        if mode == "ortho":
            cex["box"] = np.diag([g(f"L_{i}", 1.0) for i in range(3)]).tolist()
            cex["n"] = [int(round(g(f"n_{i}"))) for i in range(3)]
        else:
            cex["box"] = [[g(f"B_{i}_{j}") for j in range(3)] for i in range(3)]
            cex["n"] = [int(round(g(f"n_{i}"))) for i in range(3)]
        cex["signature"] = mode
        return cex
    return build


def _rints(c):
    return [(ev[1], ev[2]) for ev in c.events if ev[0] == "rint"]


# ---------------------------------------------------------------------------
# orthorhombic: minimum over all images


def task_ortho(seed, two_atoms=False):
    pre = [l > 0 for l in Lz]
    tag = f"{PROP}/distance_to/ortho" + ("-2atoms" if two_atoms else "")

    def run(c):
        return call_distance(c, S.vec("a"), S.vec("b"), diag_box(), two_atoms=two_atoms)

    out = []
    paths = S.explore(run, assumptions=pre)
    out.append(ob(f"{tag}/single-path", "discharged" if len(paths) == 1 else "undecided", engine="symrun",
                  backend="explorer", reason=f"{len(paths)} paths"))
    for p in paths:
        if p.exc is not None:
            out.append(ob(f"{tag}/no-exception", "refuted", engine="symrun", backend="explorer",
                          reason=f"raises {p.exc!r}", cex={"mode": "ortho", "a": [0, 0, 0], "b": [1.9, 0.2, 0.3],
                                                            "box": np.diag([2.0, 3.0, 4.0]).tolist(), "n": [0, 0, 0]}))
            continue
        hy = p.hyps()
        res = S.T(p.result)
        for i, (name, cond, h) in enumerate(p.ctx.safety):
            out.append(discharge(f"{tag}/safety.{name}#{i}", h, cond, backends=("z3", "nlsat"), cex_builder=_cex("ortho"),
                                 timeout_ms=10000))
        pr = Proof(tag, hy, cex_builder=_cex("ortho"), timeout_ms=15000)
        d = spec.sub(Bp, A)
        rints = _rints(p.ctx)
        N = [z3.Int(f"n_{i}") for i in range(3)]
        ok = len(rints) == 3
        if ok:
            invs = [ev for ev in p.ctx.events if ev[0] == "inv"]
            ks = [z3.ToReal(k) for _, k in rints]
            fs = [f for f, _ in rints]
            # (1) the inverse of a diagonal box is diagonal: fractional coordinate f_i satisfies f_i L_i = d_i
            for i in range(3):
                ok = pr.have(f"lemma.frac{i}", fs[i] * Lz[i] == d[i], backends=("gb", "z3"), optional=True) and ok
            # (2) result^2 = sum (d_i - L_i k_i)^2
            W = [d[i] - Lz[i] * ks[i] for i in range(3)]
            ok = pr.have("ensures.value_is_an_image", res * res == spec.norm2(W), backends=("gb", "z3"), optional=True) and ok
            # (3) per component: (d_i - L_i k_i)^2 <= (d_i - L_i n_i)^2 for every integer n_i
            Wn = [d[i] - Lz[i] * z3.ToReal(N[i]) for i in range(3)]
            SQ = [z3.Real(f"ghost_sq{i}") for i in range(3)]
            SQn = [z3.Real(f"ghost_sqn{i}") for i in range(3)]
            for i in range(3):
                U, V, Li = z3.Real(f"ghost_u{i}"), z3.Real(f"ghost_v{i}"), Lz[i]
                kk = rints[i][1]
                gh = [U == fs[i] - z3.ToReal(kk), V == fs[i] - z3.ToReal(N[i]),
                      SQ[i] == W[i] * W[i], SQn[i] == Wn[i] * Wn[i]]
                prc = Proof(tag, hy + gh, cex_builder=_cex("ortho"), timeout_ms=15000)
                prc.facts.update(pr.facts)
                rh = [h for h in hy if str(kk) in str(h) and "sqrt" not in str(h)]
                s_ = prc.have(f"lemma.nearest{i}.linear",
                              z3.And(U <= z3.Q(1, 2), U >= -z3.Q(1, 2), z3.Or(V == U, V >= z3.Q(1, 2), V <= -z3.Q(1, 2))),
                              by=gh[:2] + rh, backends=("z3",), optional=True)
                s_ = s_ and prc.have(f"lemma.nearest{i}.squares", U * U <= V * V, by=[], use=[f"lemma.nearest{i}.linear"],
                                     backends=("z3", "nlsat"), optional=True)
                s_ = s_ and prc.have(f"lemma.nearest{i}.scaled", (U * Li) * (U * Li) <= (V * Li) * (V * Li), by=[Li > 0],
                                     use=[f"lemma.nearest{i}.squares"], backends=("z3", "nlsat"), optional=True)
                s_ = s_ and prc.have(f"lemma.nearest{i}.wk", W[i] == U * Li, by=gh[:2], use=[f"lemma.frac{i}"],
                                     backends=("gb", "z3"), optional=True)
                s_ = s_ and prc.have(f"lemma.nearest{i}.wn", Wn[i] == V * Li, by=gh[:2], use=[f"lemma.frac{i}"],
                                     backends=("gb", "z3"), optional=True)
                s_ = s_ and prc.have(f"lemma.nearest{i}", SQ[i] <= SQn[i], by=gh[2:],
                                     use=[f"lemma.nearest{i}.scaled", f"lemma.nearest{i}.wk", f"lemma.nearest{i}.wn"],
                                     backends=("z3", "nlsat"), optional=True)
                pr.obs += prc.obs
                if s_:
                    pr.facts[f"lemma.nearest{i}"] = prc.facts[f"lemma.nearest{i}"]
                ok = ok and s_
            ghs = [SQ[i] == W[i] * W[i] for i in range(3)] + [SQn[i] == Wn[i] * Wn[i] for i in range(3)]
            if ok:
                prs = Proof(tag, hy + ghs, cex_builder=_cex("ortho"), timeout_ms=15000)
                prs.facts.update(pr.facts)
                ok = prs.have("lemma.value_sum", res * res == SQ[0] + SQ[1] + SQ[2], by=ghs, use=["ensures.value_is_an_image"],
                              backends=("z3",), optional=True)
                ok = ok and prs.have("lemma.min_sum", res * res <= SQn[0] + SQn[1] + SQn[2], by=[],
                                     use=["lemma.value_sum"] + [f"lemma.nearest{i}" for i in range(3)], backends=("z3",), optional=True)
                ok = ok and prs.have("ensures.minimum_over_all_images", res * res <= spec.norm2(Wn), by=ghs, use=["lemma.min_sum"],
                                     backends=("z3",), optional=True)
                pr.obs += prs.obs
                pr.facts.update(prs.facts)
            if ok:
                ok = pr.have("ensures.not_longer_than_direct", res * res <= spec.norm2(d),
                             by=[N[i] == 0 for i in range(3)], use=["ensures.minimum_over_all_images"], backends=("z3",), optional=True)
        if not ok:
            # scripted route failed (code changed, or defective): plain attempts give the verdict
            Wn = [d[i] - Lz[i] * z3.ToReal(N[i]) for i in range(3)]
            pr.have("ensures.minimum_over_all_images", res * res <= spec.norm2(Wn), backends=("z3",), timeout_ms=20000)
            pr.have("ensures.not_longer_than_direct", res * res <= spec.norm2(d), backends=("z3",), timeout_ms=20000)
        out += pr.obs
        out.append(core.must_fail(f"{tag}/guard.must-fail", hy, res * res == spec.norm2(d)))
        m = core.get_model(hy)
        out.append(ob(f"{tag}/guard.pre-satisfiable", "discharged" if m is not None else "undecided", kind="guard",
                      backend="z3", expect="discharged"))
        if m is not None and not two_atoms:
            a = [core.mval(m, x) for x in A]
            b = [core.mval(m, x) for x in Bp]
            L = [core.mval(m, x) for x in Lz]
            nat = native_distance(a, b, np.diag(L))
            sym = core.mval(m, res)
            # the model's rint may sit on a tie; accept either image there
            okc = abs(nat - sym) < 1e-6 or any(abs(abs(core.mval(m, f) - core.mval(m, z3.ToReal(k))) - 0.5) < 1e-9 for f, k in _rints(p.ctx))
            out.append(ob(f"{tag}/guard.concolic", "discharged" if okc else "refuted", kind="guard", backend="native-run",
                          expect="discharged", concolic=1, sample={"a": a, "b": b, "L": L, "native": nat, "symbolic": sym}))
    return out


# ---------------------------------------------------------------------------
# general boxes: relational clauses


def _box_sym():
    return S.mat("B", 3, 3)


def _tie_free(c):
    return [z3.And(f - z3.ToReal(k) < z3.Q(1, 2), z3.ToReal(k) - f < z3.Q(1, 2)) for f, k in _rints(c)]


def _inv_facts(ev):
    """the hypothesis terms the stub assumed for one inv call, indexed [which][i][j]"""
    Mt, It = ev[1], ev[2]
    P1, P2, I = spec.matmul(Mt, It), spec.matmul(It, Mt), spec.ident()
    return ([[P1[i][j] == I[i][j] for j in range(3)] for i in range(3)],
            [[P2[i][j] == I[i][j] for j in range(3)] for i in range(3)])


def _finish_equal(pr, hy, p, r1, r2, rel_names, sign=1):
    """r1 == r2 from the relations between the two runs' fractional coordinates and roundings.
    Ghosts g_j = f_j - k_j (run 1), h_j = f'_j - k'_j (run 2); h = sign*g; r^2 = |g.B|^2."""
    rints = _rints(p.ctx)
    half = len(rints) // 2
    sq = {}
    for ev in p.ctx.events:
        if ev[0] == "sqrt":
            for r in (r1, r2):
                if ev[2].eq(r):
                    sq[r.decl().name()] = ev[1]
    if len(sq) != 2:
        return False
    G = [z3.Real(f"ghost_g{j}") for j in range(3)]
    H = [z3.Real(f"ghost_h{j}") for j in range(3)]
    gdef = [G[j] == rints[j][0] - z3.ToReal(rints[j][1]) for j in range(3)] + \
           [H[j] == rints[half + j][0] - z3.ToReal(rints[half + j][1]) for j in range(3)]
    pr.hyps += gdef
    a1 = z3.substitute(sq[r1.decl().name()], *[(rints[j][0] - z3.ToReal(rints[j][1]), G[j]) for j in range(3)])
    a2 = z3.substitute(sq[r2.decl().name()], *[(rints[half + j][0] - z3.ToReal(rints[half + j][1]), H[j]) for j in range(3)])
    small = set(str(x) for x in G + H)
    if any("rint!" in n for n in core.free_consts(a1)) or any("rint!" in n for n in core.free_consts(a2)):
        return False      # the radicand is not a function of (f - k) alone: script does not apply
    ok = pr.have("lemma.radicand1", r1 * r1 == a1, by=gdef[:3] + [r1 * r1 == sq[r1.decl().name()]], backends=("z3",), optional=True)
    ok = ok and pr.have("lemma.radicand2", r2 * r2 == a2, by=gdef[3:] + [r2 * r2 == sq[r2.decl().name()]], backends=("z3",), optional=True)
    for j in range(3):
        ok = ok and pr.have(f"lemma.offset_relation{j}", H[j] == sign * G[j], by=[gdef[j], gdef[3 + j]],
                            use=[n for n in rel_names if n.endswith(f"relation{j}")], backends=("z3",), optional=True)
    ok = ok and pr.have("lemma.same_square", r1 * r1 == r2 * r2, by=[],
                        use=["lemma.radicand1", "lemma.radicand2"] + [f"lemma.offset_relation{j}" for j in range(3)] +
                            [n for n in rel_names if "inverse_unique" in n],
                        backends=("gb",), optional=True)
    ok = ok and pr.have("ensures.equal", r1 == r2, by=[r1 >= 0, r2 >= 0], use=["lemma.same_square"],
                        backends=("z3", "nlsat"), optional=True)
    return ok


def _relational(tag, run, mode, extra_pre=()):
    """run(c) -> (result1, result2, (sign, shift)); clause: result1 == result2 under the
    tie-free hypothesis on the first run's roundings.  The second run's fractional
    coordinates are sign*f + shift (integers)."""
    out = []
    pre = [spec.det3(BOX) != 0] + list(extra_pre)
    paths = S.explore(run, assumptions=pre)
    out.append(ob(f"{tag}/single-path", "discharged" if len(paths) == 1 else "undecided", engine="symrun",
                  backend="explorer", reason=f"{len(paths)} paths"))
    for p in paths:
        if p.exc is not None:
            out.append(ob(f"{tag}/no-exception", "refuted", engine="symrun", backend="explorer", reason=f"raises {p.exc!r}"))
            continue
        r1, r2 = S.T(p.result[0]), S.T(p.result[1])
        sign, shift = p.result[2]
        rints = _rints(p.ctx)
        half = len(rints) // 2
        tie = [z3.And(f - z3.ToReal(k) < z3.Q(1, 2), z3.ToReal(k) - f < z3.Q(1, 2)) for f, k in rints[:half]]
        hy = p.hyps() + tie
        for i, (name, cond, h) in enumerate(p.ctx.safety):
            out.append(discharge(f"{tag}/safety.{name}#{i}", h + tie, cond, backends=("z3", "gb"), cex_builder=_cex(mode),
                                 timeout_ms=10000))
        pr = Proof(tag, hy, cex_builder=_cex(mode), timeout_ms=15000)
        invs = [ev for ev in p.ctx.events if ev[0] == "inv"]
        ok = len(rints) == 6 and len(invs) == 1
        if ok:
            BI_eq, _ = _inv_facts(invs[0])          # (B.Binv)[i][j] == delta_ij
            rel = []
            for j in range(3):
                f1, k1 = rints[j]
                f2, k2 = rints[half + j]
                goal = f2 == sign * f1 + z3.ToReal(shift[j])
                # certificate: f2_j - s f1_j - n_j = sum_i n_i ((B.Binv)_ij - delta_ij)
                combos = [(z3.ToReal(N_SHIFT[i]) * (1 if mode != "shift_self" else -1), BI_eq[i][j]) for i in range(3)] \
                    if mode.startswith("shift") else []
                okj = pr.have_cert(f"lemma.frac_relation{j}", goal, combos, optional=True) or \
                    pr.have(f"lemma.frac_relation{j}", goal, backends=("z3", "gb"), optional=True)
                okj = okj and pr.have(f"lemma.round_relation{j}", k2 == sign * k1 + shift[j],
                                      by=[h for h in hy if (str(k1) in str(h) or str(k2) in str(h)) and "sqrt" not in str(h)],
                                      use=[f"lemma.frac_relation{j}"], backends=("z3",), optional=True)
                ok = ok and okj
                rel += [f"lemma.frac_relation{j}", f"lemma.round_relation{j}"]
            ok = ok and _finish_equal(pr, hy, p, r1, r2, rel, sign)
        if not ok:
            pr.have("ensures.equal", r1 == r2, backends=("z3",), timeout_ms=20000)
        out += pr.obs
        out.append(core.must_fail(f"{tag}/guard.must-fail", hy, r1 == r2 + 1, hint=_hint()))
        m = core.get_model(hy, extra=_hint())
        out.append(ob(f"{tag}/guard.pre-satisfiable", "discharged" if m is not None else "undecided", kind="guard",
                      backend="z3", expect="discharged"))
    return out


N_SHIFT = [z3.Int(f"n_{i}") for i in range(3)]


def _hint(with_inv=False):
    """a concrete instance (only used by the vacuity guards, to find a model quickly)"""
    vals = {(0, 0): 2, (1, 1): 3, (2, 2): 4}
    h = [BOX[i][j] == vals.get((i, j), 0) for i in range(3) for j in range(3)]
    h += [A[i] == 0 for i in range(3)] + [Bp[0] == z3.Q(19, 10), Bp[1] == z3.Q(1, 5), Bp[2] == z3.Q(3, 10)]
    h += [N_SHIFT[0] == 1, N_SHIFT[1] == -2, N_SHIFT[2] == 3]
    return h


def task_symmetric(seed):
    def run(c):
        r1 = call_distance(c, S.vec("a"), S.vec("b"), _box_sym())
        r2 = call_distance(c, S.vec("b"), S.vec("a"), _box_sym())
        return r1, r2, (-1, [z3.IntVal(0)] * 3)
    return _relational(f"{PROP}/distance_to/general.symmetric", run, "symmetric")


def task_shift(seed, which="other"):
    N = N_SHIFT

    def run(c):
        r1 = call_distance(c, S.vec("a"), S.vec("b"), _box_sym())
        n = np.array([S.SymReal(z3.ToReal(x)) for x in N], dtype=object)
        B2 = _box_sym()
        if which == "other":
            r2 = call_distance(c, S.vec("a"), S.vec("b") + n.dot(B2), B2)
            return r1, r2, (1, N)
        r2 = call_distance(c, S.vec("a") + n.dot(B2), S.vec("b"), B2)
        return r1, r2, (1, [-x for x in N])
    return _relational(f"{PROP}/distance_to/general.lattice_shift_{which}", run, "shift_" + which)


def task_invflag(seed):
    BI = [[z3.Real(f"Binv_{i}_{j}") for j in range(3)] for i in range(3)]
    P1, P2, I = spec.matmul(BOX, BI), spec.matmul(BI, BOX), spec.ident()
    pre_BBi = [[P1[i][j] == I[i][j] for j in range(3)] for i in range(3)]     # B.Binv = I
    pre_BiB = [[P2[i][j] == I[i][j] for j in range(3)] for i in range(3)]     # Binv.B = I
    extra = [x for row in pre_BBi + pre_BiB for x in row]

    def run(c):
        r1 = call_distance(c, S.vec("a"), S.vec("b"), _box_sym(), inv=False)
        r2 = call_distance(c, S.vec("a"), S.vec("b"), S.mat("Binv", 3, 3), inv=True)
        return r1, r2
    out = []
    tag = f"{PROP}/distance_to/general.inverse_flag"
    pre = [spec.det3(BOX) != 0, spec.det3(BI) != 0] + extra
    paths = S.explore(run, assumptions=pre)
    out.append(ob(f"{tag}/single-path", "discharged" if len(paths) == 1 else "undecided", engine="symrun",
                  backend="explorer", reason=f"{len(paths)} paths"))
    for p in paths:
        if p.exc is not None:
            out.append(ob(f"{tag}/no-exception", "refuted", engine="symrun", backend="explorer", reason=f"raises {p.exc!r}"))
            continue
        r1, r2 = S.T(p.result[0]), S.T(p.result[1])
        rints = _rints(p.ctx)
        half = len(rints) // 2
        tie = [z3.And(f - z3.ToReal(k) < z3.Q(1, 2), z3.ToReal(k) - f < z3.Q(1, 2)) for f, k in rints[:half]]
        hy = p.hyps() + tie
        for i, (name, cond, h) in enumerate(p.ctx.safety):
            out.append(discharge(f"{tag}/safety.{name}#{i}", h + tie, cond, backends=("z3", "gb"), cex_builder=_cex("invflag"),
                                 timeout_ms=10000))
        pr = Proof(tag, hy, cex_builder=_cex("invflag"), timeout_ms=15000)
        invs = [ev for ev in p.ctx.events if ev[0] == "inv"]
        ok = len(rints) == 6
        uniq = []
        if ok:
            # every matrix the stub returned is the unique inverse of its argument, hence equals Binv (arg B) or B (arg Binv):
            #   X - Y = X.(I - A.Y) - (I - X.A).Y   for two inverses X, Y of A   (explicit certificate)
            for j, ev in enumerate(invs):
                Aarg, X = ev[1], ev[2]
                arg_is_B = all(Aarg[i][k].eq(BOX[i][k]) for i in range(3) for k in range(3))
                arg_is_Bi = all(Aarg[i][k].eq(BI[i][k]) for i in range(3) for k in range(3))
                if not (arg_is_B or arg_is_Bi):
                    ok = False
                    break
                Y = BI if arg_is_B else BOX
                AY = pre_BBi if arg_is_B else pre_BiB          # A.Y == I   (precondition)
                _, XA = _inv_facts(ev)                         # X.A == I   (stub)
                for i in range(3):
                    for l in range(3):
                        combos = [(-X[i][jj], AY[jj][l]) for jj in range(3)] + [(Y[k][l], XA[i][k]) for k in range(3)]
                        nm = f"lemma.inverse_unique{j}[{i}{l}]"
                        ok = pr.have_cert(nm, X[i][l] == Y[i][l], combos, optional=True) and ok
                        uniq.append(nm)
            rel = []
            for j in range(3):
                if not ok:
                    break
                f1, k1 = rints[j]
                f2, k2 = rints[half + j]
                okj = pr.have(f"lemma.frac_relation{j}", f2 == f1, by=[], use=uniq, backends=("gb", "z3"), optional=True)
                okj = okj and pr.have(f"lemma.round_relation{j}", k2 == k1,
                                      by=[h for h in hy if (str(k1) in str(h) or str(k2) in str(h)) and "sqrt" not in str(h)],
                                      use=[f"lemma.frac_relation{j}"], backends=("z3",), optional=True)
                ok = ok and okj
                rel += [f"lemma.frac_relation{j}", f"lemma.round_relation{j}"]
            ok = ok and _finish_equal(pr, hy, p, r1, r2, rel + uniq)
        if not ok:
            pr.have("ensures.equal", r1 == r2, backends=("z3",), timeout_ms=20000)
        out += pr.obs
        out.append(core.must_fail(f"{tag}/guard.must-fail", hy, r1 == r2 + 1, hint=_hint()))
    return out


# ---------------------------------------------------------------------------
# bounded numeric twin


def native_distance(a, b, box, inv=False, as_residue=False):
    from gaddlemaps.components import AtomGro, Residue
    res = Residue([AtomGro([1, "RES", "A", 1] + [float(x) for x in a])])
    other = np.array(b, dtype=float)
    if as_residue:
        other = Residue([AtomGro([2, "RES", "A", 2] + [float(x) for x in b])])
    return float(res.distance_to(other, box_vects=np.array(box, dtype=float), inv=inv))


def brute_min_image(a, b, box, window=4):
    d = np.array(b, dtype=float) - np.array(a, dtype=float)
    box = np.array(box, dtype=float)
    f = d @ np.linalg.inv(box)
    base = np.round(f)
    best = float("inf")
    for n in itertools.product(range(-window, window + 1), repeat=3):
        w = d - (base + np.array(n)) @ box
        best = min(best, float(np.linalg.norm(w)))
    return best


def numeric_clauses(a, b, box, n=(1, -2, 3)):
    """Clauses of the contract evaluated on floats; returns list of violated descriptions."""
    box = np.array(box, dtype=float)
    a = np.array(a, dtype=float)
    b = np.array(b, dtype=float)
    bad = []
    r = native_distance(a, b, box)
    if not math.isfinite(r):
        return [f"non-finite result {r}"]
    ortho = np.count_nonzero(box - np.diag(np.diagonal(box))) == 0
    tol = 1e-9 * max(1.0, np.abs(box).max(), np.abs(b - a).max())
    if ortho:
        ref = brute_min_image(a, b, box)
        if abs(r - ref) > tol:
            bad.append(f"minimum_over_all_images: got {r!r}, minimum over images {ref!r}")
        if r > np.linalg.norm(b - a) + tol:
            bad.append(f"not_longer_than_direct: {r!r} > {float(np.linalg.norm(b - a))!r}")
    r_sym = native_distance(b, a, box)
    if abs(r - r_sym) > tol:
        bad.append(f"symmetric: d(a,b)={r!r} d(b,a)={r_sym!r}")
    nv = np.array(n, dtype=float)
    r_sh = native_distance(a, b + nv @ box, box)
    if abs(r - r_sh) > tol:
        bad.append(f"lattice_shift_other n={list(n)}: {r!r} vs {r_sh!r}")
    r_sh2 = native_distance(a + nv @ box, b, box)
    if abs(r - r_sh2) > tol:
        bad.append(f"lattice_shift_self n={list(n)}: {r!r} vs {r_sh2!r}")
    r_inv = native_distance(a, b, np.linalg.inv(box), inv=True)
    if abs(r - r_inv) > tol:
        bad.append(f"inverse_flag: {r!r} vs {r_inv!r}")
    r_res = native_distance(a, b, box, as_residue=True)
    if abs(r - r_res) > tol:
        bad.append(f"residue_argument: {r!r} vs {r_res!r}")
    return bad


def _far_from_tie(a, b, box, n=(0, 0, 0)):
    f = (np.array(b, float) - np.array(a, float)) @ np.linalg.inv(np.array(box, float))
    return bool(np.all(np.abs(np.abs(f - np.round(f)) - 0.5) > 1e-4))


def task_numeric_int_boxes(tier, seed):
    """Integer-valued boxes handed over in the forms a caller may use: an integer numpy array (np.diag([5, 6, 7])), a nested list of ints,
    a float array -- the result must be the same minimum-image distance (the function may not compute in the box's integer type)."""
    from gaddlemaps.components import AtomGro, Residue
    rng = np.random.default_rng(191 + seed)
    N = 40 if tier == "quick" else 400
    first, nbad, nev = None, 0, 0
    for t in range(N):
        L = [int(x) for x in rng.integers(2, 15, 3)]
        a = rng.uniform(-1, 1, 3) * np.array(L)
        b = a + rng.uniform(-2.6, 2.6, 3) * np.array(L)
        fbox = np.diag([float(x) for x in L])
        if not _far_from_tie(a, b, fbox):
            continue
        want = brute_min_image(a, b, fbox)
        forms = {"int ndarray": np.diag(L), "nested list of ints": [[L[0], 0, 0], [0, L[1], 0], [0, 0, L[2]]], "float ndarray": fbox,
                 "int64 array, points as lists": np.array(np.diag(L), dtype=np.int64)}
        for name, box in forms.items():
            res = Residue([AtomGro([1, "RES", "A", 1] + [float(x) for x in a])])
            try:
                got = float(res.distance_to(np.array(b) if "lists" not in name else list(map(float, b)), box_vects=box))
            except Exception as e:      # noqa
                got = None
                msg = f"box given as {name}: raises {type(e).__name__}: {e}"
            nev += 1
            if got is None or abs(got - want) > 1e-9 * max(1.0, max(L), float(np.abs(b - a).max())):
                nbad += 1
                if first is None:
                    first = (msg if got is None else f"box {L} given as {name}: distance {got!r}, minimum over images {want!r}",
                             {"mode": "int-box", "seed": seed, "tier": tier, "signature": "int-box"})
    oid = f"{PROP}/distance_to/bounded.integer-valued-boxes-as-int-arrays-and-lists"
    if first:
        return [ob(oid, "refuted", kind="bounded", engine="smallscope", backend="numeric-contract", evaluations=nev,
                   reason=f"{nbad}/{nev} evaluations violate; first: {first[0]}", cex=first[1])]
    return [ob(oid, "discharged", kind="bounded", engine="smallscope", backend="numeric-contract", evaluations=nev, sample={"cases": N})]


def task_numeric_box_reuse(tier, seed):
    """The SAME box ndarray object (and the same inverse-box ndarray object) edited in place between calls: every distance must be the
    minimum-image distance for the box as it is at THAT call."""
    from gaddlemaps.components import AtomGro, Residue
    rng = np.random.default_rng(391 + seed)
    N = 40 if tier == "quick" else 400
    first, nbad, nev = None, 0, 0
    for t in range(N):
        for name in ("box", "inverse box with inv=True"):      # consecutive calls with ONE array object, nothing else in between
            arr = np.eye(3)
            for step in range(3):
                L = rng.uniform(1.0, 12.0, 3)
                box = np.diag(L)
                arr[:] = box if name == "box" else np.linalg.inv(box)       # in place: the object identity does not change
                a = rng.uniform(-1, 1, 3) * L
                b = a + rng.uniform(-2.4, 2.4, 3) * L
                if not _far_from_tie(a, b, box):
                    continue
                want = brute_min_image(a, b, box)
                res = Residue([AtomGro([1, "RES", "A", 1] + [float(x) for x in a])])
                got = float(res.distance_to(np.array(b), box_vects=arr, inv=(name != "box")))
                nev += 1
                if abs(got - want) > 1e-9 * max(1.0, float(L.max()), float(np.abs(b - a).max())):
                    nbad += 1
                    if first is None:
                        first = (f"call {step + 1} with the same {name} array object edited in place (edges now {L.tolist()}): distance {got!r}, "
                                 f"minimum over images {want!r}", {"mode": "box-reuse", "seed": seed, "tier": tier, "signature": "box-reuse"})
    oid = f"{PROP}/distance_to/bounded.same-box-array-object-edited-in-place-between-calls"
    if first:
        return [ob(oid, "refuted", kind="bounded", engine="smallscope", backend="numeric-contract", evaluations=nev,
                   reason=f"{nbad}/{nev} evaluations violate; first: {first[0]}", cex=first[1])]
    return [ob(oid, "discharged", kind="bounded", engine="smallscope", backend="numeric-contract", evaluations=nev, sample={"scenarios": N})]


def task_numeric_reuse(tier, seed):
    """The same Residue objects used for several distances with their atoms moved in between -- through the residue-level setter, through a
    live atom view (res[i].position = p), by Residue.move: every distance must be the minimum-image distance of the ACTUAL centres."""
    from gaddlemaps.components import AtomGro, Residue
    rng = np.random.default_rng(91 + seed)
    N = 60 if tier == "quick" else 600
    bad_first, nbad, nev = None, 0, 0
    for t in range(N):
        L = rng.uniform(1.0, 12.0, 3)
        box = np.diag(L)
        na, nb = int(rng.integers(1, 4)), int(rng.integers(1, 4))
        mk = lambda n, rid: Residue([AtomGro([rid, "RES", "A%d" % k, k + 1] + [float(x) for x in rng.uniform(-1, 1, 3) * L]) for k in range(n)])
        ra, rb = mk(na, 1), mk(nb, 2)
        log = []
        for step in range(4):
            how = int(rng.integers(0, 4)) if step else -1
            tgt = ra if rng.integers(0, 2) else rb
            if how == 0:
                tgt.atoms_positions = np.array(tgt.atoms_positions, dtype=float) + rng.uniform(-2, 2, 3) * L
            elif how == 1:
                i = int(rng.integers(0, len(tgt)))
                tgt[i].position = np.array(tgt[i].position, dtype=float) + rng.uniform(-2, 2, 3) * L       # live view
            elif how == 2:
                tgt.move(rng.uniform(-2, 2, 3) * L)
            elif how == 3:
                for atom in tgt:
                    atom.position = np.array(atom.position, dtype=float) + np.array([0.3, -0.2, 0.1]) * L  # iteration views
            log.append(how)
            ca = np.mean(np.array(ra.atoms_positions, dtype=float), axis=0)
            cb = np.mean(np.array(rb.atoms_positions, dtype=float), axis=0)
            if not _far_from_tie(ca, cb, box):
                continue
            got = float(ra.distance_to(rb, box_vects=box))
            want = brute_min_image(ca, cb, box)
            nev += 1
            if abs(got - want) > 1e-9 * max(1.0, float(L.max()), float(np.abs(cb - ca).max())):
                nbad += 1
                if bad_first is None:
                    bad_first = (f"after operations {log} (0 setter, 1 atom view, 2 move, 3 iteration views) the distance is {got!r}, "
                                 f"minimum over images of the actual centres {want!r}", {"mode": "reuse", "seed": seed, "tier": tier, "signature": "reuse"})
                break
    oid = f"{PROP}/distance_to/bounded.same-residues-reused-with-atoms-moved-in-between"
    if bad_first:
        return [ob(oid, "refuted", kind="bounded", engine="smallscope", backend="numeric-contract", evaluations=nev,
                   reason=f"{nbad} scenario(s) violate; first: {bad_first[0]}", cex=bad_first[1])]
    return [ob(oid, "discharged", kind="bounded", engine="smallscope", backend="numeric-contract", evaluations=nev, sample={"scenarios": N})]


def task_numeric(tier, seed):
    rng = np.random.default_rng(7 + seed)
    cases = []
    edges = [0.5, 1.0, 2.0, 3.0, 4.0, 7.5, 20.0]
    # enumerated grid: orthorhombic boxes x points inside and far outside
    for L in itertools.product(edges[:5] if tier == "quick" else edges, repeat=3):
        if tier == "quick" and rng.random() > 0.25:
            continue
        box = np.diag(L)
        for _ in range(3):
            a = rng.uniform(-1, 1, 3) * np.array(L)
            b = a + rng.uniform(-3.4, 3.4, 3) * np.array(L)
            cases.append(("orthorhombic", a, b, box))
    cases.append(("orthorhombic", np.zeros(3), np.array([1.9, 0.2, 0.3]), np.diag([2.0, 3.0, 4.0])))
    ntri = 150 if tier == "quick" else 2000
    for _ in range(ntri):
        L = rng.uniform(0.5, 20, 3)
        box = np.diag(L)
        box[1, 0] = rng.uniform(-0.3, 0.3) * L[0]
        box[2, 0] = rng.uniform(-0.3, 0.3) * L[0]
        box[2, 1] = rng.uniform(-0.3, 0.3) * L[1]
        a = rng.uniform(-1, 1, 3) * L
        b = a + rng.uniform(-3.4, 3.4, 3) * L
        cases.append(("triclinic", a, b, box))
    # short separations in skewed boxes: every Cartesian component below half the corresponding box edge, where a shortcut
    # "no wrapping needed" is tempting but wrong for a triclinic cell (a fractional coordinate can still exceed 1/2)
    for _ in range(ntri * 2):
        L = rng.uniform(0.5, 20, 3)
        box = np.diag(L)
        sk = lambda: float(rng.choice([-1.0, 1.0]) * rng.uniform(0.25, 0.45))
        box[1, 0] = sk() * L[0]
        box[2, 0] = sk() * L[0]
        box[2, 1] = sk() * L[1]
        a = rng.uniform(-1, 1, 3) * L
        b = a + rng.uniform(-0.499, 0.499, 3) * L
        cases.append(("triclinic-short-separation", a, b, box))
    # consecutive calls with boxes that share the diagonal but not the skew (and the same box again): a result must depend on the box
    # given in THIS call only -- anything remembered from an earlier call (an inverse keyed on too little) shows here
    for _ in range(20 if tier == "quick" else 200):
        L = rng.uniform(0.5, 20, 3)
        for rep in range(3):
            box = np.diag(L)
            if rep != 1:
                box[1, 0] = rng.uniform(-0.45, 0.45) * L[0]
                box[2, 0] = rng.uniform(-0.45, 0.45) * L[0]
                box[2, 1] = rng.uniform(-0.45, 0.45) * L[1]
            a = rng.uniform(-1, 1, 3) * L
            b = a + rng.uniform(-2.4, 2.4, 3) * L
            cases.append(("same-diagonal-different-skew-in-sequence", a, b, box))
    for L in itertools.product(edges[:4], repeat=3):
        if rng.random() > (0.3 if tier == "quick" else 1.0):
            continue
        a = rng.uniform(-1, 1, 3) * np.array(L)
        cases.append(("orthorhombic-short-separation", a, a + rng.uniform(-0.499, 0.499, 3) * np.array(L), np.diag(L)))
    out = []
    per = {}
    for kind, a, b, box in cases:
        if not _far_from_tie(a, b, box):
            continue
        per.setdefault(kind, []).append((a, b, box))
    for kind, lst in per.items():
        nbad, first = 0, None
        for a, b, box in lst:
            n = tuple(int(x) for x in rng.integers(-3, 4, 3))
            bad = numeric_clauses(a, b, box, n)
            if bad:
                nbad += 1
                first = first or (a, b, box, n, bad)
        if first:
            a, b, box, n, bad = first
            out.append(ob(f"{PROP}/distance_to/bounded.{kind}", "refuted", kind="bounded", engine="smallscope",
                          backend="numeric-contract", evaluations=len(lst),
                          reason=f"{nbad}/{len(lst)} cases violate the contract; first: " + "; ".join(bad[:3]),
                          cex={"mode": "numeric", "a": a.tolist(), "b": b.tolist(), "box": box.tolist(), "n": list(n),
                               "signature": kind}))
        else:
            a, b, box = lst[0]
            out.append(ob(f"{PROP}/distance_to/bounded.{kind}", "discharged", kind="bounded", engine="smallscope",
                          backend="numeric-contract", evaluations=len(lst),
                          sample={"a": a.tolist(), "b": b.tolist(), "box": box.tolist()}))
    return out


def tasks(prop, tier, seed):
    lim = 200.0 if tier == "quick" else 900.0
    return [
        ("distance_to/ortho", task_ortho, (seed,), lim),
        ("distance_to/ortho-2atoms", task_ortho, (seed, True), lim),
        ("distance_to/symmetric", task_symmetric, (seed,), lim),
        ("distance_to/shift-other", task_shift, (seed, "other"), lim),
        ("distance_to/shift-self", task_shift, (seed, "self"), lim),
        ("distance_to/invflag", task_invflag, (seed,), lim),
        ("distance_to/numeric", task_numeric, (tier, seed), lim),
        ("distance_to/numeric-reuse", task_numeric_reuse, (tier, seed), lim),
        ("distance_to/numeric-int-boxes", task_numeric_int_boxes, (tier, seed), lim),
        ("distance_to/numeric-box-reuse", task_numeric_box_reuse, (tier, seed), lim),
    ]


def replay(prop, cex):
    if cex.get("mode") in ("reuse", "int-box", "box-reuse"):
        r = {"reuse": task_numeric_reuse, "int-box": task_numeric_int_boxes, "box-reuse": task_numeric_box_reuse}[cex["mode"]](cex.get("tier", "quick"), cex.get("seed", 0))
        bad = [o for o in r if o.get("status") == "refuted"]
        return {"reproduced": bool(bad), "observed": bad[0].get("reason") if bad else None,
                "expected": "every distance is the minimum-image distance of the residues' actual centres", "inputs": cex}
    a, b, box = cex["a"], cex["b"], cex["box"]
    n = tuple(cex.get("n") or (1, -2, 3))
    if abs(np.linalg.det(np.array(box, float))) < 1e-12:
        return {"reproduced": False, "note": "singular box (outside the precondition)"}
    if not _far_from_tie(a, b, box):
        return {"reproduced": False, "note": "counter-model sits on a rounding tie (excluded by the statement)"}
    try:
        bad = numeric_clauses(a, b, box, n)
    except Exception as e:
        return {"reproduced": True, "observed": f"raises {type(e).__name__}: {e}", "inputs": cex}
    return {"reproduced": bool(bad), "violated": bad, "inputs": cex}
