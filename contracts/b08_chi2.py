"""B08 -- bounded numeric part of C08 (overlap measure chi2 equals its reference definition).

Helper module: the main module contracts/c08_chi2.py (symbolic part) imports
``bounded_info``, ``bounded_tasks`` and ``replay`` from here.

Contracts (kind="bounded", engine="smallscope") on the real class
``gaddlemaps._backend.Chi2Calculator`` (``__init__`` + ``__call__`` and, through
them, the three evaluation paths ``chi2_molecules``,
``_chi2_molecules_with_restrains``, ``_chi2_molecules_only_restrains``):

  equals_reference      value == reference definition written from the statement as plain
                        Python loops over Python floats (no numpy in the oracle); the calculator
                        is built with one mobile configuration and evaluated on a different one
                        (three successive calls: eval, construction configuration, eval again).
  nonneg                value is finite and >= 0.
  only_eval_config      calculators built with different construction-time mobile configurations
                        (another one; the evaluation one itself) give the same value.
  rigid_motion          a common proper rotation + translation of fixed and mobile sets
                        (calculator rebuilt on the moved fixed set) leaves the value unchanged.
  relabelling           permuting fixed atoms, permuting mobile atoms and rewriting the restraint
                        pairs accordingly (and shuffling the list order) leaves the value unchanged.
  paths_agree           "the value is the same however many atoms are restrained": restraining any
                        subset of fixed atoms each to its own nearest mobile atom does not change
                        the value (links plain / with-restraints / restraints-only paths natively).
  some_tiebreak         on inputs with ties ("nearest" ambiguous) the value equals the reference
                        value for at least one admissible choice of nearest atoms.

Over-demand scan: no clause depends on private attribute names, on which of the three methods is
selected, on the exception type, on argmin tie-breaking or on the summation algorithm.

Reading of the statement for duplicated restraints: the restraint *list* is a multiset of
pairs -- "the sum of squared distances over restrained pairs" runs over the list entries, so a
pair listed twice (or a fixed atom listed twice with two partners) contributes each time; a fixed
atom is "restrained" if it occurs as first component at least once, a mobile atom if it occurs as
second component at least once (so k counts *distinct* restrained mobile atoms).  A fixed atom
listed twice with two different partners is two distinct pairs under any reading; only a list that
repeats an identical pair is ambiguous ("pairs" as a set): a value equal to the set reading there is
reported as undecided, any other mismatch as refuted.
"""
from __future__ import annotations

import contextlib
import io
import itertools
import math
import time

import numpy as np

from vf.core import ob

PROP = "C08"
CLS = "Chi2Calculator"
PATH_FN = {"plain": f"{CLS}.chi2_molecules",
           "with_restraints": f"{CLS}._chi2_molecules_with_restrains",
           "only_restraints": f"{CLS}._chi2_molecules_only_restrains"}

AMB_NOTE = "; the list repeats an identical pair and the value equals the reading 'restrained pairs as a set'"
REL = 1e-9            # relative tolerance of every clause
TIE_REL = 1e-7        # two candidates closer than this (relative) count as a tie: case skipped
FORMATS = ("tuples", "lists", "ndarray_int64", "ndarray_int32", "tuple_of_tuples")


# ---------------------------------------------------------------------------
# reference definition (oracle): plain loops, Python floats only


def _d2(a, b):
    s = 0.0
    for c in range(len(a)):
        t = a[c] - b[c]
        s += t * t
    return s


def _pow(base, k):
    if k < 0:
        return base ** k
    p = 1.0
    for _ in range(k):
        p *= base
    return p


def _scale2(*sets):
    m = 0.0
    for s in sets:
        for row in s:
            for x in row:
                if abs(x) > m:
                    m = abs(x)
    return max(m * m, 1e-300)


def oracle(fixed, mobile, restraints, scale2=None, guards=False):
    """Reference value of the statement (guards=True: also deliberately wrong variants)."""
    pairs = [(int(p[0]), int(p[1])) for p in (restraints if restraints is not None else [])]
    nf, nm = len(fixed), len(mobile)
    if scale2 is None:
        scale2 = _scale2(fixed, mobile)
    restrained_fixed = set()
    restrained_mobile = set()
    s_restr = 0.0
    s_restr_abs = 0.0
    for i, j in pairs:
        restrained_fixed.add(i)
        restrained_mobile.add(j)
        s_restr += _d2(fixed[i], mobile[j])
        for c in range(3):
            s_restr_abs += abs(fixed[i][c] - mobile[j][c])
    s_restr_dedup = 0.0
    for i, j in sorted(set(pairs)):
        s_restr_dedup += _d2(fixed[i], mobile[j])
    s_near = 0.0          # over unrestrained fixed atoms
    s_near_all = 0.0      # over all fixed atoms (wrong on purpose: guard)
    s_near_root = 0.0     # not squared (guard)
    s_colmin = 0.0        # min over fixed atoms per mobile atom (guard: axis swapped)
    nearest = set()
    nearest_all = set()
    choices = []          # per unrestrained fixed atom: admissible nearest atoms
    ties = 0
    for i in range(nf):
        ds = [_d2(fixed[i], mobile[j]) for j in range(nm)]
        mn, arg = ds[0], 0
        for j in range(1, nm):
            if ds[j] < mn:
                mn, arg = ds[j], j
        s_near_all += mn
        nearest_all.add(arg)
        if i in restrained_fixed:
            continue
        s_near += mn
        s_near_root += math.sqrt(mn)
        nearest.add(arg)
        tol = TIE_REL * mn + 1e-14 * scale2
        cand = [j for j in range(nm) if ds[j] - mn <= tol]
        if len(cand) > 1:
            ties += 1
        choices.append(cand)
    if guards:
        for j in range(nm):
            col = [_d2(fixed[i], mobile[j]) for i in range(nf) if i not in restrained_fixed]
            if col:
                s_colmin += min(col)
    k = nm - len(restrained_mobile | nearest)
    base = s_restr + s_near
    if not pairs:
        path = "plain"
    elif len(restrained_fixed) == nf:
        path = "only_restraints"
    else:
        path = "with_restraints"
    return {
        "value": base * _pow(1.1, k), "k": k, "path": path,
        # the other reading of a list that repeats an IDENTICAL pair ("restrained pairs" as a set): only used to
        # downgrade a mismatch on such lists to undecided, never as the expected value
        "value_pairs_as_set": (s_restr_dedup + s_near) * _pow(1.1, k), "identical_pairs_repeated": len(set(pairs)) != len(pairs),
        "base_pairs_as_set": s_restr_dedup + s_near, "ties": ties, "choices": choices,
        "base": base, "s_restr": s_restr, "s_near": s_near, "n_pairs": len(pairs),
        "restrained_mobile": restrained_mobile, "restrained_fixed": restrained_fixed,
        "nearest": nearest,
        # deliberately wrong variants (must-fail guards)
        "wrong": None if not guards else {
            "no_penalty": base,
            "penalty_base_1.01": base * _pow(1.01, k),
            "k_ignores_restrained_mobile": base * _pow(1.1, nm - len(nearest)) if pairs else None,
            "k_counts_list_entries": base * _pow(1.1, k - (len(pairs) - len(restrained_mobile))),
            "k_off_by_one_threshold": base * _pow(1.1, k if k > 1 else 0),
            "restrained_pairs_deduplicated": (s_restr_dedup + s_near) * _pow(1.1, k),
            "nearest_sum_over_all_fixed": (s_restr + s_near_all) * _pow(1.1, nm - len(restrained_mobile | nearest_all)),
            "nearest_not_squared": (s_restr + s_near_root) * _pow(1.1, k),
            "restrained_abs_not_squared": (s_restr_abs + s_near) * _pow(1.1, k),
            "min_over_fixed_instead_of_mobile": (s_restr + s_colmin) * _pow(1.1, k),
        },
    }


def tiebreak_values(orc, nm, cap=4096, base_key="base"):
    """All reference values obtainable by resolving the ties in every admissible way."""
    n = 1
    for c in orc["choices"]:
        n *= len(c)
        if n > cap:
            return None
    ks = set()
    for combo in itertools.product(*orc["choices"]):
        ks.add(nm - len(orc["restrained_mobile"] | set(combo)))
    # reading "every atom attaining the minimum is a nearest atom" (and any union in between)
    every = set(orc["restrained_mobile"])
    for c in orc["choices"]:
        every |= set(c)
    ks |= set(range(nm - len(every), max(ks) + 1))
    return sorted(orc[base_key] * _pow(1.1, k) for k in ks)


# ---------------------------------------------------------------------------
# real code access


def _calc_class():
    import gaddlemaps
    import gaddlemaps._backend as backend
    cls = getattr(gaddlemaps, CLS, None) or backend.Chi2Calculator
    return cls


def _fmt(restraints, fmt):
    if restraints is None:
        return None
    pairs = [(int(i), int(j)) for i, j in restraints]
    if fmt == "tuples":
        return [tuple(p) for p in pairs]
    if fmt == "lists":
        return [list(p) for p in pairs]
    if fmt == "tuple_of_tuples":
        return tuple(tuple(p) for p in pairs)
    dt = np.int32 if fmt == "ndarray_int32" else np.int64
    return np.array(pairs, dtype=dt).reshape(len(pairs), 2)


def real_value(fixed, mobile_construct, mobile_evals, restraints, fmt="tuples"):
    """Build the real calculator on (fixed, mobile_construct) and call it on each of
    mobile_evals in turn.  Returns (values, selected_path_name)."""
    cls = _calc_class()
    f = np.array(fixed, dtype=float).reshape(len(fixed), 3)
    mc = np.array(mobile_construct, dtype=float).reshape(len(mobile_construct), 3)
    with contextlib.redirect_stdout(io.StringIO()):
        calc = cls(f, mc, _fmt(restraints, fmt))
        vals = []
        buf = None
        for me in mobile_evals:
            arr = np.array(me, dtype=float).reshape(len(me), 3)
            if buf is not None and buf.shape == arr.shape:
                buf[:] = arr            # the SAME array object, edited in place, is evaluated again (a value remembered per object would show)
            else:
                buf = arr
            vals.append(float(calc(buf)))
    sel = getattr(getattr(calc, "_meth_to_call", None), "__name__", None)
    return vals, sel


def _try_real(*a, **kw):
    try:
        return real_value(*a, **kw), None
    except Exception as e:  # the property demands a value for every input of the scope
        return (None, None), f"raises {type(e).__name__}: {e}"


# ---------------------------------------------------------------------------
# transformations (independent of the repo's rotation code)


def quat_to_matrix(q):
    w, x, y, z = q
    n = math.sqrt(w * w + x * x + y * y + z * z)
    w, x, y, z = w / n, x / n, y / n, z / n
    return [[1 - 2 * (y * y + z * z), 2 * (x * y - z * w), 2 * (x * z + y * w)],
            [2 * (x * y + z * w), 1 - 2 * (x * x + z * z), 2 * (y * z - x * w)],
            [2 * (x * z - y * w), 2 * (y * z + x * w), 1 - 2 * (x * x + y * y)]]


def move(points, R, t):
    return [[R[r][0] * p[0] + R[r][1] * p[1] + R[r][2] * p[2] + t[r] for r in range(3)] for p in points]


def permute(points, perm):
    """new[perm[i]] = old[i]"""
    out = [None] * len(points)
    for i, p in enumerate(points):
        out[perm[i]] = list(p)
    return out


def _close(a, b, floor):
    if a is None or b is None or not (math.isfinite(a) and math.isfinite(b)):
        return False
    return abs(a - b) <= REL * max(abs(a), abs(b)) + floor


# ---------------------------------------------------------------------------
# one case = one (geometry, restraint list, format, transformation parameters)


def check_case(case, clauses=None):
    """Evaluate every clause of the contract on one case with the real code.
    Returns (failures, facts); failures = list of dicts {clause, observed, expected, detail}."""
    F, Mc, Me = case["fixed"], case["mobile_construct"], case["mobile_eval"]
    restr, fmt = case["restraints"], case.get("fmt", "tuples")
    nf, nm = len(F), len(Me)
    L2 = _scale2(F, Mc, Me)
    o_e = oracle(F, Me, restr, L2)
    o_c = oracle(F, Mc, restr, L2)
    n_terms = nf + o_e["n_pairs"] + 1
    floor = 1e-12 * L2 * n_terms      # absolute floor: tolerates e.g. the expanded form |a|^2+|b|^2-2a.b of the distances
    fails = []
    facts = {"path": o_e["path"], "k": o_e["k"], "ties": o_e["ties"], "expected": o_e["value"],
             "ties_construct": o_c["ties"], "skipped_tiebreak_cap": False, "selected": None,
             "observed": None, "tiebreak_checked": False}

    def want(c):
        return clauses is None or c in clauses

    def fail(clause, observed, expected, detail="", ambiguous=False):
        fails.append({"clause": clause, "observed": observed, "expected": expected, "detail": detail, "ambiguous": ambiguous})

    (vals, sel), err = _try_real(F, Mc, [Me, Mc, Me], restr, fmt)
    facts["selected"] = sel
    if err:
        fail("equals_reference", err, o_e["value"], "constructor or call raised")
        return fails, facts
    obs, obs_c, obs_again = vals
    facts["observed"] = obs
    if want("nonneg"):
        for v, nm_ in ((obs, "eval"), (obs_c, "construction configuration")):
            if not (math.isfinite(v) and v >= 0.0):
                fail("nonneg", v, ">= 0 and finite", nm_)
                break
    if o_e["ties"]:
        if want("some_tiebreak"):
            tv = tiebreak_values(o_e, nm)
            if tv is None:
                facts["skipped_tiebreak_cap"] = True
            else:
                facts["tiebreak_checked"] = True
                if not any(_close(obs, v, floor) for v in tv):
                    amb = o_e["identical_pairs_repeated"] and any(
                        _close(obs, v, floor) for v in tiebreak_values(o_e, nm, base_key="base_pairs_as_set"))
                    fail("some_tiebreak", obs, tv, "no admissible choice of nearest atoms gives the observed value" + (AMB_NOTE if amb else ""), amb)
        return fails, facts
    # ---- no ties on the evaluation configuration from here on
    if want("equals_reference"):
        for v, orc, what_ in ((obs, o_e, "first call, evaluation configuration != construction configuration"),
                              (obs_again, o_e, "third call (same evaluation configuration again, after a call on another one)"),
                              (obs_c, o_c, "second call, on the construction configuration")):
            if orc["ties"] or _close(v, orc["value"], floor):
                continue
            amb = orc["identical_pairs_repeated"] and _close(v, orc["value_pairs_as_set"], floor)
            fail("equals_reference", v, orc["value"], what_ + (AMB_NOTE if amb else ""), amb)
            break
    if want("only_eval_config"):
        for name, mc2 in (("other construction configuration", case.get("mobile_construct2")), ("built on the evaluation configuration", Me)):
            if mc2 is None:
                continue
            (v2, _), err = _try_real(F, mc2, [Me], restr, fmt)
            if err:
                fail("only_eval_config", err, obs, name)
                break
            if not _close(v2[0], obs, floor):
                fail("only_eval_config", v2[0], obs, name)
                break
    if want("rigid_motion") and case.get("quat") is not None:
        R = quat_to_matrix(case["quat"])
        t = case["trans"]
        F2, Mc2, Me2 = move(F, R, t), move(Mc, R, t), move(Me, R, t)
        L2m = max(L2, _scale2(F2, Mc2, Me2))
        (v2, _), err = _try_real(F2, Mc2, [Me2], restr, fmt)
        if err:
            fail("rigid_motion", err, obs, "moved sets")
        elif not _close(v2[0], obs, 1e-12 * L2m * n_terms):
            fail("rigid_motion", v2[0], obs, "value after common rotation+translation vs before")
    if want("relabelling") and case.get("perm_fixed") is not None:
        pf, pm = case["perm_fixed"], case["perm_mobile"]
        F2, Mc2, Me2 = permute(F, pf), permute(Mc, pm), permute(Me, pm)
        r2 = None if restr is None else [(pf[int(i)], pm[int(j)]) for i, j in restr]
        if r2 and case.get("perm_list") is not None:
            r2 = [r2[x] for x in case["perm_list"]]
        (v2, _), err = _try_real(F2, Mc2, [Me2], r2, fmt)
        if err:
            fail("relabelling", err, obs, "relabelled sets")
        elif not _close(v2[0], obs, floor):
            fail("relabelling", v2[0], obs, "value after consistent relabelling vs before")
    return fails, facts


def check_paths_agree(geom, subsets):
    """'The value is the same however many atoms are restrained': restraining fixed atom i to its
    own nearest mobile atom must not change the value.  geom without ties only."""
    F, Mc, Me = geom["fixed"], geom["mobile_construct"], geom["mobile_eval"]
    L2 = _scale2(F, Mc, Me)
    o = oracle(F, Me, None, L2)
    if o["ties"]:
        return None, 0
    near = [c[0] for c in o["choices"]]
    (v0, _), err = _try_real(F, Mc, [Me], None)
    if err:
        return {"clause": "paths_agree", "observed": err, "expected": o["value"], "restraints": None, "detail": "no restraints"}, 1
    n = 0
    for A in subsets:
        r = [(i, near[i]) for i in A]
        (v, _), err = _try_real(F, Mc, [Me], r)
        n += 1
        if err or not _close(v[0], v0[0], 1e-12 * L2 * (len(F) + 1)):
            return {"clause": "paths_agree", "observed": err or v[0], "expected": v0[0], "restraints": r,
                    "detail": "restraining fixed atoms to their own nearest mobile atom changed the value (expected = real value without restraints)"}, n
    return None, n


# ---------------------------------------------------------------------------
# scope generation


def _geometry(rng, nf, nm, kind):
    def L(a):
        return [[float(x) for x in row] for row in a]
    if kind.startswith("grid"):
        h = 2 if kind == "grid" else 4
        return (L(rng.integers(-h, h + 1, (nf, 3))), L(rng.integers(-h, h + 1, (nm, 3))),
                L(rng.integers(-h, h + 1, (nm, 3))), L(rng.integers(-h, h + 1, (nm, 3))))
    s = float([0.3, 1.0, 5.0][int(rng.integers(0, 3))])
    F = rng.uniform(-s, s, (nf, 3))
    if kind == "float":
        M = [rng.uniform(-s, s, (nm, 3)) for _ in range(3)]
    else:  # "cluster": mobile atoms sit near a few fixed atoms (typical for an almost aligned pair)
        M = []
        for _ in range(3):
            idx = rng.integers(0, nf, nm)
            M.append(F[idx] + rng.normal(0.0, 0.05 * s, (nm, 3)))
    off = rng.uniform(-3 * s, 3 * s, 3) if rng.random() < 0.5 else np.zeros(3)
    return L(F + off), L(M[0] + off), L(M[1] + off), L(M[2] + off)


def _restraint_lists(rng, nf, nm, small_p, n_len2, n_random, max_len, max_len1=10 ** 9):
    P = [(i, j) for i in range(nf) for j in range(nm)]
    out = [("none", None), ("empty", [])]
    if len(P) <= max_len1:
        out += [("len1", [p]) for p in P]
    else:
        out += [("len1s", [P[int(x)]]) for x in rng.choice(len(P), size=max_len1, replace=False)]
    if len(P) <= small_p:
        out += [("len2", [p, q]) for p in P for q in P]
    else:
        for t in range(n_len2):
            p = P[int(rng.integers(0, len(P)))]
            mode = t % 3
            if mode == 0:      # same fixed atom twice
                q = (p[0], int(rng.integers(0, nm)))
            elif mode == 1:    # duplicated pair / same mobile atom twice
                q = p if t % 2 else (int(rng.integers(0, nf)), p[1])
            else:
                q = P[int(rng.integers(0, len(P)))]
            out.append(("len2s", [p, q]))
    for t in range(n_random):
        n = int(rng.integers(3, max_len + 1))
        lst = [P[int(rng.integers(0, len(P)))] for _ in range(n)]
        if t % 2 == 0:          # force a fixed atom restrained several times
            i0 = int(rng.integers(0, nf))
            for x in range(0, n, 2):
                lst[x] = (i0, int(rng.integers(0, nm)))
        out.append(("random", lst))
    # every fixed atom restrained
    for t in range(4):
        order = [int(x) for x in rng.permutation(nf)]
        if t == 0:
            j0 = int(rng.integers(0, nm))
            lst = [(i, j0) for i in order]
        elif t == 1 and nm >= nf:
            js = [int(x) for x in rng.permutation(nm)[:nf]]
            lst = list(zip(order, js))
        else:
            lst = [(i, int(rng.integers(0, nm))) for i in order]
        if t == 3:              # plus duplicates
            extra = [lst[int(rng.integers(0, len(lst)))] for _ in range(int(rng.integers(1, 4)))]
            extra.append((int(rng.integers(0, nf)), int(rng.integers(0, nm))))
            lst = lst + extra
            lst = [lst[int(x)] for x in rng.permutation(len(lst))]
        out.append(("all_fixed", lst))
    return out


def _subsets(rng, nf, n_random):
    subs = [[i] for i in range(nf)] + [list(range(nf)), list(range(nf))[::-1]]
    if nf > 1:
        subs.append(list(range(nf - 1)))
    for _ in range(n_random):
        m = rng.random(nf) < 0.5
        A = [int(i) for i in rng.permutation(nf) if m[i]]
        if A:
            subs.append(A)
    return subs


def _rand_quat(rng):
    q = rng.normal(size=4)
    while float(np.dot(q, q)) < 1e-3:
        q = rng.normal(size=4)
    return [float(x) for x in q]


def iter_cases(rng, shapes, geoms_per_shape, small_p, n_len2, n_random, max_len, max_len1=10 ** 9):
    """Yields ("geom", geom) once per geometry and ("case", case) per restraint list."""
    cnt = 0
    for nf, nm in shapes:
        for gspec in geoms_per_shape:
            kind, ng = gspec[0], gspec[1]
            plain_only = len(gspec) > 2 and gspec[2] == "plain"
            for g in range(ng):
                F, Mc, Me, Mc2 = _geometry(rng, nf, nm, kind)
                geom = {"fixed": F, "mobile_construct": Mc, "mobile_eval": Me, "kind": kind}
                yield "geom", geom
                lists = ([("none", None), ("empty", [])] if plain_only else
                         _restraint_lists(rng, nf, nm, small_p, n_len2, n_random, max_len, max_len1))
                for fam, lst in lists:
                    s = float(max(1.0, math.sqrt(_scale2(F))))
                    case = {"fixed": F, "mobile_construct": Mc, "mobile_eval": Me, "mobile_construct2": Mc2,
                            "restraints": lst, "fmt": FORMATS[cnt % len(FORMATS)], "kind": kind, "list_family": fam,
                            "quat": _rand_quat(rng), "trans": [float(x) for x in rng.uniform(-10 * s, 10 * s, 3)],
                            "perm_fixed": [int(x) for x in rng.permutation(nf)],
                            "perm_mobile": [int(x) for x in rng.permutation(nm)],
                            "perm_list": [int(x) for x in rng.permutation(len(lst))] if lst else None}
                    cnt += 1
                    yield "case", case


# ---------------------------------------------------------------------------
# tasks


CLAUSES = ("equals_reference", "nonneg", "only_eval_config", "rigid_motion", "relabelling", "some_tiebreak")


def _cex(case, clause, f, facts):
    c = {"fn": "b08:" + clause,
         "fixed": case["fixed"], "mobile_construct": case["mobile_construct"], "mobile_eval": case["mobile_eval"],
         "restraints": None if case["restraints"] is None else [list(map(int, p)) for p in case["restraints"]],
         "fmt": case.get("fmt", "tuples"), "observed": f["observed"], "expected": f["expected"],
         "detail": f.get("detail", ""), "signature": facts["path"], "selected_method": facts.get("selected")}
    if clause == "only_eval_config":
        c["mobile_construct2"] = case.get("mobile_construct2")
    if clause == "rigid_motion":
        c["quat"], c["trans"] = case["quat"], case["trans"]
    if clause == "relabelling":
        c["perm_fixed"], c["perm_mobile"], c["perm_list"] = case["perm_fixed"], case["perm_mobile"], case["perm_list"]
    return c


def _size(case):
    r = case["restraints"] or []
    return (len(case["fixed"]) * len(case["mobile_eval"]) + 3 * len(r), len(r))


def run_scope(tag, rng, shapes, geoms_per_shape, small_p, n_len2, n_random, max_len, n_subsets, max_len1=10 ** 9):
    t0 = time.time()
    # per (path, clause): counters
    st = {}

    def slot(fn, clause):
        return st.setdefault((fn, clause), {"n": 0, "nontrivial": 0, "bad": 0, "first": None, "sample": None,
                                            "skipped_ties": 0, "by_kind": {}, "by_fmt": {}, "by_list": {}, "kpos": 0})

    seen = set()
    pa = {"n": 0, "geoms": 0, "bad": 0, "first": None, "skipped_ties": 0, "sample": None}
    for what, item in iter_cases(rng, shapes, geoms_per_shape, small_p, n_len2, n_random, max_len, max_len1):
        if what == "geom":
            nf = len(item["fixed"])
            f, n = check_paths_agree(item, _subsets(rng, nf, n_subsets))
            if n == 0:
                pa["skipped_ties"] += 1
                continue
            pa["geoms"] += 1
            pa["n"] += n
            if pa["sample"] is None:
                pa["sample"] = {"fixed": item["fixed"], "mobile_eval": item["mobile_eval"], "subsets_tried": n}
            if f:
                pa["bad"] += 1
                if pa["first"] is None or len(item["fixed"]) * len(item["mobile_eval"]) < pa["first"][2]:
                    pa["first"] = (item, f, len(item["fixed"]) * len(item["mobile_eval"]))
            continue
        case = item
        fails, facts = check_case(case)
        key = (len(case["fixed"]), len(case["mobile_eval"]), case["kind"], repr(case["restraints"]), case["fmt"],
               case["mobile_eval"][0][0], case["fixed"][0][0])
        distinct = key not in seen
        seen.add(key)
        failed = {f["clause"]: f for f in fails}
        raised = "equals_reference" in failed and str(failed["equals_reference"]["observed"]).startswith("raises")
        for clause in CLAUSES:
            tie_case = bool(facts["ties"])
            if clause == "some_tiebreak":
                if not tie_case:
                    continue
                if not facts["tiebreak_checked"] and clause not in failed:
                    continue
            elif clause != "nonneg" and tie_case and not raised:
                s = slot(PATH_FN[facts["path"]] if clause == "equals_reference" else f"{CLS}.__call__", clause)
                s["skipped_ties"] += 1
                continue
            if raised and clause != "equals_reference":
                continue
            fn = PATH_FN[facts["path"]] if clause in ("equals_reference", "some_tiebreak") else f"{CLS}.__call__"
            s = slot(fn, clause)
            s["n"] += 1
            if distinct and (facts["expected"] > 0.0):
                s["nontrivial"] += 1
            if facts["k"] > 0:
                s["kpos"] += 1
            for dname, val in (("by_kind", case["kind"]), ("by_fmt", case["fmt"]), ("by_list", case["list_family"])):
                s[dname][val] = s[dname].get(val, 0) + 1
            if s["sample"] is None and facts["k"] > 0 and (case["restraints"] or facts["path"] == "plain") and len(case["fixed"]) <= 8:
                s["sample"] = {"fixed": case["fixed"], "mobile_construct": case["mobile_construct"],
                               "mobile_eval": case["mobile_eval"], "restraints": case["restraints"], "fmt": case["fmt"],
                               "observed": facts["observed"], "expected": facts["expected"], "k": facts["k"]}
            if clause in failed and failed[clause].get("ambiguous"):
                s["ambiguous"] = s.get("ambiguous", 0) + 1
                if s.get("ambiguous_first") is None:
                    s["ambiguous_first"] = (case["restraints"], failed[clause]["observed"], failed[clause]["expected"])
            elif clause in failed:
                s["bad"] += 1
                if s["first"] is None or _size(case) < _size(s["first"][0]):
                    s["first"] = (case, failed[clause], facts)
    out = []
    secs = time.time() - t0
    for (fn, clause), s in sorted(st.items()):
        oid = f"{PROP}/{fn}/ensures.{clause}/{tag}"
        cover = (f"{s['n']} evaluations ({s['kpos']} with k>0; coordinates {s['by_kind']}; restraint formats {s['by_fmt']}; "
                 f"list families {s['by_list']}); {s['skipped_ties']} cases skipped because of ties")
        if s["first"] is not None:
            case, f, facts = s["first"]
            out.append(ob(oid, "refuted", kind="bounded", engine="smallscope", backend="runtime-contract", secs=secs,
                          evaluations=s["n"], nontrivial=s["nontrivial"],
                          reason=(f"{s['bad']}/{s['n']} inputs violate {clause}; smallest: fixed {len(case['fixed'])} x mobile "
                                  f"{len(case['mobile_eval'])}, restraints {case['restraints']} ({case['fmt']}), expected path "
                                  f"{facts['path']}: observed {f['observed']!r} expected {f['expected']!r} -- {f['detail']}"),
                          cex=_cex(case, clause, f, facts), sample=s["sample"]))
        elif s["n"]:
            out.append(ob(oid, "discharged", kind="bounded", engine="smallscope", backend="runtime-contract", secs=secs,
                          evaluations=s["n"], nontrivial=s["nontrivial"], reason=cover,
                          sample=dict(s["sample"] or {}, skipped_ties=s["skipped_ties"])))
    for (fn, clause), s in sorted(st.items()):
        if s.get("ambiguous"):
            r, o_, e_ = s["ambiguous_first"]
            out.append(ob(f"{PROP}/{fn}/ensures.{clause}.identical_pair_repeated/{tag}", "undecided", kind="bounded", engine="smallscope",
                          backend="runtime-contract", secs=secs, evaluations=s["ambiguous"],
                          reason=(f"{s['ambiguous']} lists that repeat an identical pair give the value of the reading 'restrained pairs as a set' "
                                  f"instead of 'every list entry contributes' (the statement does not settle it): e.g. restraints {r}: observed {o_!r}, "
                                  f"list reading {e_!r}")))
    oid = f"{PROP}/{CLS}.__init__/ensures.paths_agree/{tag}"
    if pa["first"] is not None:
        g, f, _ = pa["first"]
        out.append(ob(oid, "refuted", kind="bounded", engine="smallscope", backend="runtime-contract", secs=secs,
                      evaluations=pa["n"], nontrivial=pa["n"],
                      reason=(f"{pa['bad']}/{pa['geoms']} geometries: value depends on how many atoms are restrained; fixed {len(g['fixed'])} x mobile "
                              f"{len(g['mobile_eval'])} restraints {f['restraints']}: observed {f['observed']!r}, without restraints {f['expected']!r}"),
                      cex={"fn": "b08:paths_agree", "fixed": g["fixed"], "mobile_construct": g["mobile_construct"],
                           "mobile_eval": g["mobile_eval"], "restraints": f["restraints"], "fmt": "tuples",
                           "observed": f["observed"], "expected": f["expected"], "detail": f["detail"],
                           "signature": "paths_agree"}))
    elif pa["n"]:
        out.append(ob(oid, "discharged", kind="bounded", engine="smallscope", backend="runtime-contract", secs=secs,
                      evaluations=pa["n"], nontrivial=pa["n"],
                      reason=f"{pa['geoms']} tie-free geometries, {pa['n']} restraint subsets; {pa['skipped_ties']} geometries skipped (ties)",
                      sample=dict(pa["sample"] or {}, skipped_ties=pa["skipped_ties"])))
    return out


def task_small(nf, nm_lo, nm_hi, tier, seed):
    rng = np.random.default_rng([int(seed), 8, nf, nm_lo])
    shapes = [(nf, nm) for nm in range(nm_lo, nm_hi + 1)]
    if tier == "quick":
        geoms = (("float", 4), ("cluster", 2), ("grid", 2), ("grid4", 2), ("float", 12, "plain"), ("cluster", 6, "plain"), ("grid4", 6, "plain"))
        return run_scope(f"fixed={nf},mobile={nm_lo}..{nm_hi}", rng, shapes, geoms, small_p=12, n_len2=30, n_random=8,
                         max_len=6, n_subsets=4)
    geoms = (("float", 12), ("cluster", 8), ("grid", 6), ("grid4", 6), ("float", 60, "plain"), ("cluster", 30, "plain"), ("grid4", 30, "plain"))
    return run_scope(f"fixed={nf},mobile={nm_lo}..{nm_hi}", rng, shapes, geoms, small_p=20, n_len2=80, n_random=16,
                     max_len=6, n_subsets=8)


def task_large(idx, n_shapes, tier, seed):
    rng = np.random.default_rng([int(seed), 88, idx])
    shapes = []
    for t in range(n_shapes):
        if t % 4 == 0:
            shapes.append((int(rng.integers(30, 41)), int(rng.integers(18, 26))))   # near the stated maximum
        else:
            shapes.append((int(rng.integers(1, 41)), int(rng.integers(1, 26))))
    shapes.sort(key=lambda s: s[0] * s[1])
    if idx == 0:
        shapes[-1] = (40, 25)
    out = []
    # large shapes: len-1 lists sampled (small_p=0 -> sampled len2), long random lists
    P_cap = 0
    geoms = (("float", 1), ("cluster", 1), ("grid4", 1), ("float", 3, "plain"), ("cluster", 3, "plain"))
    out += run_scope(f"seeded-large[{idx}]<=40x25", rng, shapes, geoms, small_p=P_cap, n_len2=12, n_random=10,
                     max_len=6, n_subsets=6, max_len1=24)
    return out


def task_long_lists(idx, tier, seed):
    """restraint lists much longer than 6 (every fixed atom of a 40-atom molecule restrained, with duplicates)."""
    rng = np.random.default_rng([int(seed), 888, idx])
    n = 6 if tier == "quick" else 40
    shapes = [(int(rng.integers(9, 41)), int(rng.integers(2, 26))) for _ in range(n)]
    shapes.sort(key=lambda s: s[0] * s[1])
    return run_scope(f"seeded-long-lists[{idx}]<=40x25,len<=60", rng, shapes, (("float", 1), ("cluster", 1)), small_p=0,
                     n_len2=3, n_random=6, max_len=60, n_subsets=3, max_len1=6)


def task_guards(tier, seed):
    """Must-fail guards: the same contract evaluation with a deliberately wrong reference
    definition (or a deliberately broken transformation) has to be refuted by the real code."""
    rng = np.random.default_rng([int(seed), 8888])
    shapes = [(nf, nm) for nf in range(2, 6) for nm in range(2, 6)]
    wrong_hits = {}
    n_cases = 0
    meta = {"rigid_motion_with_scaling": 0, "relabelling_without_rewriting_restraints": 0,
            "value_of_construction_configuration": 0, "perturbed_observation_1e-6": 0}
    meta_n = 0
    for what, case in iter_cases(rng, shapes, (("float", 1), ("cluster", 1), ("grid4", 1)), small_p=9, n_len2=20,
                                 n_random=8, max_len=6):
        if what != "case":
            continue
        F, Mc, Me, restr = case["fixed"], case["mobile_construct"], case["mobile_eval"], case["restraints"]
        L2 = _scale2(F, Mc, Me)
        o = oracle(F, Me, restr, L2, guards=True)
        if o["ties"]:
            continue
        (vals, _), err = _try_real(F, Mc, [Me], restr, case["fmt"])
        if err:
            continue
        obs = vals[0]
        floor = 1e-12 * L2 * (len(F) + o["n_pairs"] + 1)
        if not _close(obs, o["value"], floor):
            continue       # a genuine failure: reported by the contract tasks, not here
        n_cases += 1
        for name, w in o["wrong"].items():
            wrong_hits.setdefault(name, 0)
            if w is not None and not _close(obs, w, floor):
                wrong_hits[name] += 1
        if n_cases % 5 == 0:
            meta_n += 1
            if not _close(obs * (1 + 1e-6), o["value"], floor) and obs > 0:
                meta["perturbed_observation_1e-6"] += 1
            oc = oracle(F, Mc, restr, L2)
            if not _close(obs, oc["value"], floor):
                meta["value_of_construction_configuration"] += 1
            R = quat_to_matrix(case["quat"])
            R = [[1.5 * x for x in row] for row in R]          # not a rigid motion
            (v2, _), err = _try_real(move(F, R, case["trans"]), move(Mc, R, case["trans"]), [move(Me, R, case["trans"])], restr)
            if not err and not _close(v2[0], obs, floor):
                meta["rigid_motion_with_scaling"] += 1
            if restr:
                pf, pm = case["perm_fixed"], case["perm_mobile"]
                (v2, _), err = _try_real(permute(F, pf), permute(Mc, pm), [permute(Me, pm)], restr)   # pairs NOT rewritten
                if not err and not _close(v2[0], obs, floor):
                    meta["relabelling_without_rewriting_restraints"] += 1
    out = []
    for name, hits in sorted(wrong_hits.items()):
        out.append(ob(f"{PROP}/{CLS}.__call__/guard.must-fail.reference_{name}", "refuted" if hits else "discharged",
                      kind="guard", engine="smallscope", backend="runtime-contract", expect="refuted", evaluations=n_cases,
                      reason=f"wrong reference '{name}' disagrees with the real value on {hits} of {n_cases} tie-free cases",
                      sample={"disagreements": hits, "cases": n_cases}))
    for name, hits in sorted(meta.items()):
        out.append(ob(f"{PROP}/{CLS}.__call__/guard.must-fail.{name}", "refuted" if hits else "discharged",
                      kind="guard", engine="smallscope", backend="runtime-contract", expect="refuted", evaluations=meta_n,
                      reason=f"deliberately broken clause '{name}' refuted on {hits} of {meta_n} cases",
                      sample={"disagreements": hits, "cases": meta_n}))
    out.append(ob(f"{PROP}/{CLS}.__call__/guard.scope-nonempty", "discharged" if n_cases >= 100 else "refuted", kind="guard",
                  engine="smallscope", backend="runtime-contract", expect="discharged", evaluations=n_cases,
                  sample={"tie_free_cases_agreeing_with_reference": n_cases}))
    return out


# ---------------------------------------------------------------------------
# helper-module API


def bounded_tasks(prop, tier, seed):
    t = []
    for nf in range(1, 9):
        t.append((f"bounded/chi2/fixed={nf},mobile=1..3", task_small, (nf, 1, 3, tier, seed), 600.0))
        t.append((f"bounded/chi2/fixed={nf},mobile=4..6", task_small, (nf, 4, 6, tier, seed), 900.0))
    t.append(("bounded/chi2/guards", task_guards, (tier, seed), 300.0))
    if tier == "quick":
        t.append(("bounded/chi2/large[0]", task_large, (0, 10, tier, seed), 600.0))
        t.append(("bounded/chi2/long-lists[0]", task_long_lists, (0, tier, seed), 600.0))
    else:
        for i in range(16):
            t.append((f"bounded/chi2/large[{i}]", task_large, (i, 40, tier, seed), 1800.0))
        for i in range(4):
            t.append((f"bounded/chi2/long-lists[{i}]", task_long_lists, (i, tier, seed), 1800.0))
    # a mid-size exhaustive family first (its obligations become the evidence samples), then the heaviest tasks
    t.sort(key=lambda x: 0 if "fixed=3,mobile=1..3" in x[0] else 1 if ("large" in x[0] or "long" in x[0]) else 2)
    return t


def bounded_info():
    return {
        "functions": ["gaddlemaps/_backend.py::Chi2Calculator.__init__", "gaddlemaps/_backend.py::Chi2Calculator.__call__",
                      "gaddlemaps/_backend.py::Chi2Calculator.chi2_molecules",
                      "gaddlemaps/_backend.py::Chi2Calculator._chi2_molecules_with_restrains",
                      "gaddlemaps/_backend.py::Chi2Calculator._chi2_molecules_only_restrains",
                      "gaddlemaps/_backend.py::Chi2Calculator._chi2_molecules_restrains_contrib"],
        "stubs": [],
        "assumptions": [
            "restraint list read as a multiset of (fixed, mobile) index pairs: every list entry contributes to the restrained sum; "
            "an atom is restrained if it occurs at least once; k counts distinct mobile atoms.  Only for lists that repeat an IDENTICAL pair the "
            "statement also admits 'restrained pairs as a set': a value equal to that reading is reported undecided, not refuted",
            "on tie inputs any reading of 'nearest' is admitted (one of the tied atoms, all of them, or anything in between)",
            "inputs where two mobile atoms are equally near (within 1e-7 relative) to an unrestrained fixed atom are skipped for the exact "
            "clauses ('nearest' ambiguous) and checked against the set of values of all admissible tie-breaks instead",
            "float64 comparison at 1e-9 relative plus an absolute floor of 1e-12 x squared coordinate magnitude x number of terms",
            "which private method the constructor selects is recorded (cex.selected_method) but never decides a verdict",
            "restraint indices are valid non-negative indices; the evaluation configuration has the same atom count as the construction one",
        ],
        "explanation": ("Bounded run-time contract checks of the real Chi2Calculator against the reference definition of the statement written as "
                        "plain Python loops: all shapes fixed 1..8 x mobile 1..6 with seeded float / clustered / integer-grid geometries, restraint "
                        "lists None, [], every list of length 1, every ordered list of length 2 over the index pairs when fixed*mobile <= 12 (20 thorough; "
                        "sampled otherwise), random lists up to length 6 with repeated fixed atoms, lists restraining every fixed atom (with and without "
                        "duplicates), passed as list of tuples / list of lists / int64 / int32 arrays / tuple of tuples; seeded shapes up to 40 x 25 and "
                        "lists up to length 60.  The calculator is always built with a configuration different from the one it is evaluated on.  "
                        "Nothing here is a proof."),
        "rule": ("one evaluation = one (geometry, restraint list, list format) on the real class per clause; distinct = different "
                 "(shape, coordinates, list, format); non-trivial = expected value > 0; tie cases are counted separately and not as evaluations of the exact clauses"),
    }


def replay(prop, cex):
    fn = str(cex.get("fn", ""))
    if not fn.startswith("b08:"):
        return None
    clause = fn[4:]
    if clause == "paths_agree":
        F, Mc, Me, r = cex["fixed"], cex["mobile_construct"], cex["mobile_eval"], cex["restraints"]
        (v0, _), e0 = _try_real(F, Mc, [Me], None)
        (v1, _), e1 = _try_real(F, Mc, [Me], r)
        L2 = _scale2(F, Mc, Me)
        bad = bool(e0 or e1) or not _close(v1[0], v0[0], 1e-12 * L2 * (len(F) + 1))
        return {"reproduced": bad, "observed": e1 or (v1[0] if v1 else None), "expected": e0 or (v0[0] if v0 else None),
                "reference_value": oracle(F, Me, r, L2)["value"], "inputs": cex,
                "note": "expected = real value without restraints; each restrained fixed atom is tied to its own nearest mobile atom"}
    case = {k: cex.get(k) for k in ("fixed", "mobile_construct", "mobile_eval", "mobile_construct2", "restraints", "fmt",
                                    "quat", "trans", "perm_fixed", "perm_mobile", "perm_list")}
    case["fmt"] = case["fmt"] or "tuples"
    fails, facts = check_case(case, clauses={clause})
    fails = [f for f in fails if f["clause"] == clause]
    if fails:
        f = fails[0]
        return {"reproduced": True, "observed": f["observed"], "expected": f["expected"], "detail": f["detail"],
                "expected_path": facts["path"], "selected_method": facts["selected"], "k": facts["k"], "inputs": cex}
    return {"reproduced": False, "observed": facts["observed"], "expected": facts["expected"],
            "expected_path": facts["path"], "ties": facts["ties"], "inputs": cex}
