"""C11 -- System recognises exactly the molecule instances present, in file order.

Engine: smallscope.  Bounded run-time contract checks on the real
gaddlemaps.components.System.  The module generates .gro/.itp files for four
species with distinct residue signatures, enumerates every molecule sequence up
to a length bound and every permutation of the topology loading order, builds
the real System and evaluates the postconditions of the property statement on
its public API.  The oracle is the generator's own record list (never anything
read back through System/SystemGro/GroFile).

No deductive obligation (DESIGN section 6, C11): level "other".
"""
from __future__ import annotations

import contextlib
import io
import itertools
import os
import random
import shutil
import tempfile
import time
from collections import Counter

from vf.core import ob

PROP = "C11"

# ---------------------------------------------------------------------------
# the four species of the property (+ one topology that can never match, + two species with
# restarted / constant topology residue numbers used by the second alphabet and the random systems)
#
# residue kind = (resname, atom names); the signature seen by System is
# (resname, number of atoms).  All signatures below are distinct by resname and
# three of them share the atom count 3, so the name part of the signature matters.

KINDS = {
    "AAA": ["A1", "A2", "A3"],
    "BBB": ["B1"],
    "X": ["X1", "X2"],
    "Y": ["Y1", "Y2", "Y3"],
    "SOL": ["OW", "HW1", "HW2"],
    "DA": ["D1", "D2"],
    "DB": ["D3"],
    "CA": ["C1"],
    "CB": ["C2", "C3"],
    "MET": ["M1", "M2"],
    "ALA": ["L1"],
    "GLY": ["G1", "G2"],
    "LYS": ["K1", "K2", "K3"],
}

# key -> (molecule name in the topology, residue kinds, residue numbers used in the
#         topology, residue number offsets used in the coordinate file)
SPECIES = {
    "S1": ("MOLA", ["AAA"], [1], [0]),                       # single residue, 3 atoms
    "S2": ("ION", ["BBB"], [1], [0]),                        # one atom
    "S3": ("TRI", ["X", "Y", "X"], [1, 2, 4], [0, 2, 3]),    # multi-residue, internal repeat, gapped numbers
    "W": ("WAT", ["SOL"], [1], [0]),                         # solvent: in the file, topology never loaded
    "YY": ("DIY", ["Y", "Y"], [1, 2], [0, 1]),               # never in a file: Y,Y is not a run of any file
    # repeated residues that share the SAME topology residue number with another residue in between
    "S4": ("DIM", ["DA", "DB", "DA", "DB"], [1, 2, 1, 2], [0, 1, 2, 3]),   # numbering restarts in a dimer
    "S5": ("TRC", ["CA", "CB", "CA"], [1, 1, 1], [0, 1, 2]),               # one topology number for all residues
    # distinct residue-kind sequences that share the FIRST kind (P1, P2) or the LAST kind (P1, P3): the search for the
    # first free run of a topology must look at every occurrence of its first kind.  No species ends with MET or
    # starts with ALA/GLY, so a pattern occurs in a file only where an instance of its species is.
    "P1": ("PEPA", ["MET", "ALA"], [1, 2], [0, 1]),
    "P2": ("PEPG", ["MET", "GLY"], [1, 2], [0, 1]),
    "P3": ("PEPK", ["LYS", "ALA"], [1, 2], [0, 1]),
}
FILE_SPECIES = ["S1", "S2", "S3", "W"]          # alphabet A (the property's four species)
LOADABLE = ["S1", "S2", "S3"]
FILE_SPECIES_B = ["S4", "S5", "S2", "W"]        # alphabet B: restarted / constant topology residue numbers
FILE_SPECIES_C = ["P1", "P2", "P3", "W"]        # alphabet C: species sharing their first / last residue kind
ALPHABETS = {"A": FILE_SPECIES, "B": FILE_SPECIES_B, "C": FILE_SPECIES_C}
SCOPE_PREFIX = {"A": "", "B": "restarted-resnr.", "C": "shared-first-kind."}
DISJOINT_KIND_SPECIES = ["S1", "S2", "S3", "S4", "S5", "W"]     # pairwise no common residue kind
ALL_FILE_SPECIES = ["S1", "S2", "S3", "S4", "S5", "P1", "P2", "P3", "W"]
ALL_LOADABLE = ["S1", "S2", "S3", "S4", "S5", "P1", "P2", "P3"]

CLAUSES = {
    "constructs": "System.__init__/ensures.accepts_topologies_of_present_species",
    "file_order": "System.__iter__/ensures.one_molecule_per_instance_in_file_order",
    "atoms": "System.__iter__/ensures.contiguous_disjoint_runs_names_coords_ids_from_file",
    "reiter": "System.__iter__/ensures.iteration_repeatable",
    "len": "System.__len__/ensures.equals_number_of_instances",
    "composition": "System.composition/ensures.counts_instances_per_species",
    "getitem_int": "System.__getitem__/ensures.int_index_agrees_with_file_order",
    "index_error": "System.__getitem__/ensures.no_molecule_outside_range_some_exception",
    "index_consistent": "System.__getitem__/ensures.out_of_range_indices_refused_consistently",
    "slices": "System.__getitem__/ensures.slices_agree_with_file_order",
    "refuses": "System.add_molecule_top/ensures.refuses_topology_without_matching_run",
    "loads": "System.add_molecule_top/ensures.accepts_topology_of_present_species_after_reads",
    # informational only (not in the statement): a mismatch is reported as undecided, never as a violation
    "labels": "System.__iter__/informational.file_atom_ids_and_residue_labels_kept",
    "invariant": "System/internal-invariant.blocks_sorted_disjoint_in_range_consumed_marked",
}

SLICE_GROUPS = {
    "plain": [(None, None, None), (1, None, None), (None, 2, None), (3, None, None), (2, 1, None)],
    "negative-bounds": [(None, -1, None), (-2, None, None), (-3, -1, None), (-1, None, None), (1, -1, None),
                        (None, -3, None), (-100, 2, None)],
    "stepped": [(None, None, 2), (1, None, 2), (0, 100, 3), (None, None, 3)],
    "reversed": [(None, None, -1), (None, None, -2), (-1, None, -1), (-2, 0, -1)],
}

# groups of clauses evaluated by one task over the whole enumerated scope (keys understood by check_system / run_case)
EXH_GROUPS = [
    ("iteration", ("iter",)),
    ("len-composition-invariant", ("len", "composition", "invariant")),
    ("refuses", ("refuses",)),
    ("index-nonneg", ("int>=0",)),
    ("index-neg", ("int<0",)),
    ("index-error", ("index_error",)),
] + [("slices-" + g, ("slices:" + g,)) for g in SLICE_GROUPS]

# history family (read, then load another topology, re-check): coarser groups
HIST_GROUPS = [
    ("state", ("iter", "len", "composition", "invariant", "refuses")),
    ("index", ("int>=0", "int<0", "index_error")),
    ("slices", tuple("slices:" + g for g in SLICE_GROUPS)),
]


def _info_bounded(prop):
    return {
        "level": "other",
        "functions": ["gaddlemaps/components/_system.py::System.__init__",
                      "gaddlemaps/components/_system.py::System.add_ftop",
                      "gaddlemaps/components/_system.py::System.add_molecule_top",
                      "gaddlemaps/components/_system.py::System.__iter__",
                      "gaddlemaps/components/_system.py::System.__getitem__",
                      "gaddlemaps/components/_system.py::System.__len__",
                      "gaddlemaps/components/_system.py::System.composition"],
        "stubs": [],
        "trusted_base": ["CPython 3.12, numpy, more_itertools executing the real System on generated files",
                         "the generator of this module (species table, .gro/.itp writer) and its record list used as oracle",
                         "independent fixed-column parse of the shipped .gro / whitespace parse of the shipped .itp"],
        "assumptions": ["species have distinct residue signatures (resname, atom count) -- the property's precondition; "
                        "only inputs satisfying it are generated",
                        "files are assembled from whole molecules; residue numbers increase along the file",
                        "an integer index outside [-len, len) must not return a molecule (list(System)[i] does not either); any "
                        "exception type is accepted, the statement names none",
                        "a molecule's place in the file is identified by its coordinates (distinct in the generated files); "
                        "atom ids, residue names and residue numbers of the returned molecules are informational"],
        "explanation": ("Bounded run-time contract checking (smallscope) of the real System class: every sequence of 1..4 (quick) / "
                        "1..6 (thorough, exhaustive, not sampled) molecules over 4 species (single-residue 3 atoms; one atom; "
                        "three residues X,Y,X with gapped residue numbers; unloaded solvent) is written to a .gro file, every "
                        "permutation of the loading order of the loadable species present is used to construct "
                        "System(fgro, *ftops), and the clauses of the statement are evaluated on the public API: iteration "
                        "against the generator's record list (one molecule per instance, file order, contiguous disjoint runs, "
                        "names equal to the topology's, names and coordinates equal to the file's), len and "
                        "composition against the record list, every int index in [-len, len), no molecule (some exception, "
                        "one and the same type for all out-of-range indices tried on one System) outside, 20 fixed "
                        "slices (plain, negative bounds, stepped, reversed) and a second iteration against the first iteration, "
                        "refusal (any exception) of every absent topology added last or loaded first, including a Y,Y "
                        "topology whose residue kinds are in the file but never as a run.  Each task evaluates one clause "
                        "group over the whole scope, so a clause has one obligation per scope family.  Plus: files of solvent "
                        "only (empty System), seeded random longer systems (7..24 quick / 7..60 thorough molecules, runs of "
                        "equal molecules, over all nine file species), a second exhaustive alphabet (restarted-resnr: DIM = "
                        "(DA,1)(DB,2)(DA,1)(DB,2), TRC = (CA,1)(CB,1)(CA,1), one-atom ION, solvent; <=3 quick / <=5 thorough) "
                        "whose repeated residues share one topology residue number with another residue in between, a third "
                        "exhaustive alphabet (shared-first-kind: PEPA = MET,ALA; PEPG = MET,GLY; PEPK = LYS,ALA; solvent; <=4 "
                        "quick / <=5 thorough) of distinct residue-kind sequences sharing their first or last residue kind, a "
                        "history family (every sequence <=3 quick / <=5 thorough, every loading order, every split point k "
                        "incl. 0: System(fgro, *first_k), all clauses evaluated (reads through every access route), then the "
                        "remaining topologies loaded one by one with add_ftop / add_molecule_top(MoleculeTop(..)), all "
                        "clauses re-evaluated against the oracle after each load), and the shipped BMIM/BF4 box (300+300) in both loading orders against an "
                        "independent fixed-column parse (int indices: every 7th plus both ends).  Only what the statement names can be refuted; "
                        "two informational obligations (atom ids / residue labels of the returned molecules equal the file's; "
                        "class invariant of the private block list, labelled internal-invariant) report a mismatch as "
                        "undecided with the reason, never as a violation."),
        "rule": ("one contract evaluation per (molecule sequence, loading order) and clause; per (case, index) for integer "
                 "indexing and per (case, slice) for slicing; non-trivial = cases with at least two recognised molecules"),
        "exhaustive": True,
    }


# ---------------------------------------------------------------------------
# generator (oracle side)


def itp_text(key, impostor=False):
    """impostor=True: the same residue names and sizes, other atom names (no run of any file matches it atom by atom)"""
    molname, kinds, top_resids, _ = SPECIES[key]
    lines = ["; generated by contracts/c11_system.py", "[ moleculetype ]", "; name nrexcl", f"{molname} 1", "",
             "[ atoms ]", "; nr type resnr residue atom cgnr charge mass"]
    nr = 0
    for kind, rid in zip(kinds, top_resids):
        for name in KINDS[kind]:
            nr += 1
            lines.append(f"{nr:5d} C {rid:4d} {kind:5s} {('Z' + name[1:]) if impostor else name:5s} {nr:4d} 0.000 12.0")
    lines.append("")
    if nr > 1:
        lines += ["[ bonds ]", "; i j funct length k"]
        for i in range(1, nr):
            lines.append(f"{i:5d} {i + 1:5d} 1 0.150 1000.0")
        lines.append("")
    return "\n".join(lines)


def top_atoms(key):
    """[(atom name, resname)] of a species, in topology order."""
    return [(n, kind) for kind in SPECIES[key][1] for n in KINDS[kind]]


def build_records(seq):
    """records: one dict per atom of the file; instances: (species key, first atom index, n atoms,
    first residue index, n residues)."""
    records, instances = [], []
    resid = 1
    nres = 0
    for key in seq:
        _, kinds, _, offs = SPECIES[key]
        start = len(records)
        last = resid
        for kind, off in zip(kinds, offs):
            last = resid + off
            for name in KINDS[kind]:
                k = len(records)
                records.append({"resid": last, "resname": kind, "name": name, "atomid": k + 1,
                                "pos": (round(0.1 * (k + 1), 3), round(1.0 + 0.013 * (k + 1), 3),
                                        round(2.0 + 0.5 * (k % 7) + 0.001 * (k + 1), 3))})
        instances.append((key, start, len(records) - start, nres, len(kinds)))
        nres += len(kinds)
        resid = last + 1
    return records, instances


def gro_text(records, title="c11 generated system"):
    lines = [title, f"{len(records):5d}"]
    for r in records:
        x, y, z = r["pos"]
        lines.append(f"{r['resid']:5d}{r['resname']:<5s}{r['name']:>5s}{r['atomid']:5d}{x:8.3f}{y:8.3f}{z:8.3f}")
    lines.append("   9.00000   9.00000   9.00000")
    return "\n".join(lines) + "\n"


def expected_molecules(records, instances, loaded):
    """Fingerprints the System must expose, in file order: one per instance of a loaded species.
    Layout as ``fingerprint``: (molecule name, atom names, topology atom names, coordinates, labels)."""
    out = []
    for key, start, n, _, _ in instances:
        if key not in loaded:
            continue
        recs = records[start:start + n]
        tops = top_atoms(key)
        out.append((SPECIES[key][0],
                    tuple(r["name"] for r in recs),
                    tuple(t[0] for t in tops),
                    tuple(tuple(round(c, 6) for c in r["pos"]) for r in recs),
                    (tuple(r["resname"] for r in recs), tuple(r["resid"] for r in recs),
                     tuple(r["atomid"] for r in recs))))
    return out


class Files:
    """Scratch directory with the topology files; one .gro per sequence."""

    def __init__(self):
        self.dir = tempfile.mkdtemp(prefix="c11_")
        self.ftops = {}
        for key in SPECIES:
            p = os.path.join(self.dir, f"{key}.itp")
            with open(p, "w") as f:
                f.write(itp_text(key))
            self.ftops[key] = p
        self.impostors = {}
        for key in ALL_LOADABLE:
            p = os.path.join(self.dir, f"{key}_other_atom_names.itp")
            with open(p, "w") as f:
                f.write(itp_text(key, impostor=True))
            self.impostors[key] = p
        self.n = 0

    def gro(self, records):
        self.n += 1
        p = os.path.join(self.dir, f"sys{self.n}.gro")
        with open(p, "w") as f:
            f.write(gro_text(records))
        return p

    def drop(self, p):
        try:
            os.remove(p)
        except OSError:
            pass

    def close(self):
        shutil.rmtree(self.dir, ignore_errors=True)


# ---------------------------------------------------------------------------
# observation of the real object (public API only)


def _System():
    from gaddlemaps.components import System
    return System


def fingerprint(mol):
    """What the statement speaks about: species (molecule name of the topology), atom names, topology atom
    names, coordinates.  The fifth field (residue names, residue numbers, atom ids) is informational."""
    atoms = list(mol)
    pos = mol.atoms_positions
    try:
        labels = (tuple(a.resname for a in atoms), tuple(int(a.gro_resid) for a in atoms),
                  tuple(int(i) for i in mol.atoms_ids))
    except Exception:
        labels = None
    return (mol.name,
            tuple(a.name for a in atoms),
            tuple(t.name for t in mol.molecule_top),
            tuple(tuple(round(float(c), 6) for c in p) for p in pos),
            labels)


def core(fp):
    return fp[:4]


def cores(fps):
    return [fp[:4] for fp in fps]


class FileIndex:
    """Locates a molecule in the file by its coordinates (the generator makes them distinct; the shipped
    file is handled by matching the whole run)."""

    def __init__(self, records):
        self.records = records
        self.pos = [tuple(round(c, 6) for c in r["pos"]) for r in records]
        self.where = {}
        for k, p in enumerate(self.pos):
            self.where.setdefault(p, []).append(k)

    def locate(self, fp):
        """index of the file atom the molecule starts at such that its coordinates are the file's contiguous
        run from there; None if there is no such run."""
        pos = fp[3]
        if not pos:
            return None
        for k in self.where.get(pos[0], []):
            if tuple(self.pos[k:k + len(pos)]) == tuple(pos):
                return k
        return None

    def short(self, fp):
        """[name, ordinal (1-based) of the first atom in the file, n atoms]"""
        k = self.locate(fp)
        if k is None and fp[3]:
            c = self.where.get(fp[3][0], [])
            k = c[0] if c else None
        return [fp[0], None if k is None else k + 1, len(fp[3])]


def _exc(e):
    return f"{type(e).__name__}: {str(e)[:160]}"


class Result:
    """clause -> [evaluations, first failure message or None]"""

    def __init__(self):
        self.evals = Counter()
        self.fail = {}
        self.extra = {}
        self.harness = {}

    def ok(self, clause, n=1):
        self.evals[clause] += n

    def bad(self, clause, msg, n=1, **extra):
        self.evals[clause] += n
        if clause not in self.fail:
            self.fail[clause] = msg
            self.extra[clause] = extra

    def undecided(self, clause, msg):
        self.harness.setdefault(clause, msg)


def check_system(s, exp, records, res, only=None, index_stride=1):
    """Evaluate the public-API clauses of the statement on a constructed System ``s``.

    ``exp``: expected fingerprints in file order (oracle); ``records``: the file's atom records
    (oracle).  Iteration is compared with the oracle; indexing, slicing and repeated iteration are
    compared with iteration ("agree with each other"), or directly with the oracle when iteration
    itself fails, so that the conjunction is agreement of every access route with the file.  Only
    what the statement names is compared (species, atom names, topology atom names, coordinates);
    atom ids and residue labels are informational.  ``only``: subset of clause groups (None = all)."""
    N = len(exp)
    fi = FileIndex(records)
    _short = fi.short

    def sel(k):
        return only is None or k in only

    needs_obs = only is None or any(k in ("iter", "int>=0", "int<0", "index_error") or k.startswith("slices:") for k in only)
    res_all = res
    if not sel("iter"):
        res = Result()      # iteration is only the reference here; its verdict belongs to another task
    # --- iteration: one molecule per instance, in file order
    obs = None
    try:
        if needs_obs:
            obs = [fingerprint(m) for m in s]
    except Exception as e:  # the property demands a result
        res.bad("file_order", f"iteration raises {_exc(e)}; expected {N} molecules {[_short(f) for f in exp][:8]}",
                exc=type(e).__name__)
    if obs is not None and sel("iter"):
        so, se = [_short(f) for f in obs], [_short(f) for f in exp]
        if so != se:
            res.bad("file_order", f"list(System) gives (name, first file atom, n atoms) {so[:10]}; the file holds {se[:10]}")
        else:
            res.ok("file_order")
        # --- each molecule covers a contiguous run of the file's atoms (identified by their coordinates),
        #     disjoint from the others, whose names match the topology atom by atom
        msg = None
        info_msg = None
        seen = set()
        for k, fo in enumerate(obs):
            n = len(fo[3])
            start = fi.locate(fo)
            if not n:
                msg = f"molecule {k} has no atoms"
            elif start is None:
                msg = f"molecule {k}: coordinates {list(fo[3])[:4]}... are not those of a contiguous run of atoms of the file"
            elif seen & set(range(start, start + n)):
                msg = (f"molecule {k}: file atoms {sorted(x + 1 for x in seen & set(range(start, start + n)))} already belong "
                       f"to another molecule")
            else:
                seen.update(range(start, start + n))
                rr = records[start:start + n]
                fnames = tuple(r["name"] for r in rr)
                if fo[1] != fnames:
                    msg = f"molecule {k} (file atoms {start + 1}..{start + n}): atom names {fo[1]!r} differ from the file's {fnames!r}"
                elif fo[2] != fo[1]:
                    msg = (f"molecule {k} (file atoms {start + 1}..{start + n}): atom names {fo[1]!r} do not match the "
                           f"topology's {fo[2]!r} atom by atom")
                elif info_msg is None:
                    want = (tuple(r["resname"] for r in rr), tuple(r["resid"] for r in rr), tuple(r["atomid"] for r in rr))
                    if fo[4] is None:
                        info_msg = "residue names / residue numbers / atom ids not readable through resname, gro_resid, atoms_ids"
                    elif fo[4] != want:
                        info_msg = (f"molecule {k} (file atoms {start + 1}..{start + n}): (residue names, residue numbers, atom "
                                    f"ids) {fo[4]!r} differ from the file's {want!r}")
            if msg:
                break
        if msg is None and so == se and cores(obs) != cores(exp):
            k = next(i for i in range(N) if core(obs[i]) != core(exp[i]))
            msg = f"molecule {k}: {core(obs[k])!r} differs from the expected {core(exp[k])!r}"
        if msg:
            res.bad("atoms", msg)
        else:
            res.ok("atoms")
            if info_msg:
                res.undecided("labels", "informational (not in the statement): " + info_msg)
            else:
                res.ok("labels")
        # --- iterating again gives the same
        try:
            again = [fingerprint(m) for m in s]
            if cores(again) != cores(obs):
                res.bad("reiter", f"second iteration differs: {[_short(f) for f in again][:10]} vs {so[:10]}")
            else:
                res.ok("reiter")
        except Exception as e:
            res.bad("reiter", f"second iteration raises {_exc(e)}", exc=type(e).__name__)
    res = res_all
    ref = cores(obs if obs is not None else exp)
    ref_full = obs if obs is not None else exp
    what = "list(System)" if obs is not None else "the file order"
    R = len(ref)
    # --- len
    try:
        n = len(s) if sel("len") else None
        if n is None:
            pass
        elif n != N or n != R:
            res.bad("len", f"len(System) = {n}; the file holds {N} instances of loaded species"
                           + (f"; iteration gives {len(obs)}" if obs is not None else ""))
        else:
            res.ok("len")
    except Exception as e:
        res.bad("len", f"len(System) raises {_exc(e)}", exc=type(e).__name__)
    # --- composition
    want = dict(Counter(f[0] for f in exp))
    try:
        comp = {k: int(v) for k, v in dict(s.composition).items() if v} if sel("composition") else None
        if comp is None:
            pass
        elif comp != want:
            res.bad("composition", f"composition = {comp}; the file holds {want}"
                                   + (f"; iteration gives {dict(Counter(f[0] for f in obs))}" if obs is not None else ""))
        else:
            res.ok("composition")
    except Exception as e:
        res.bad("composition", f"composition raises {_exc(e)}", exc=type(e).__name__)
    # --- integer indexing, every i in [-R, R)
    idx = [i for i in range(-R, R) if sel("int>=0" if i >= 0 else "int<0")]
    if index_stride > 1:
        keep = {-R, -R + 1, -2, -1, 0, 1, R - 2, R - 1}
        idx = [i for i in idx if i in keep or i % index_stride == 0]
    for i in idx:
        ck = "getitem_int[i>=0]" if i >= 0 else "getitem_int[i<0]"
        try:
            fo = fingerprint(s[i])
            if core(fo) != ref[i]:
                res.bad(ck, f"System[{i}] is {_short(fo)} (name, first file atom, n atoms); "
                            f"{what}[{i}] is {_short(ref_full[i])}", index=i)
            else:
                res.ok(ck)
        except Exception as e:
            res.bad(ck, f"System[{i}] raises {_exc(e)}; {what} has {R} molecules", index=i,
                    exc=type(e).__name__)
    # --- outside the range no molecule is returned: some exception is raised (the statement names no type)
    #     and every out-of-range index of one System is refused in the same way (one exception type, whatever it
    #     is): "integer indexing (including negative) ... agree with each other".  For an empty System the
    #     indices tried are 0, 1, 5, -1, -2.
    refused = {}
    for i in (R, R + 1, R + 5, -R - 1, -R - 2) if sel("index_error") else ():
        try:
            m = s[i]
            res.bad("index_error", f"System[{i}] returns {_short(fingerprint(m))} although {what} has {R} molecules",
                    index=i)
        except Exception as e:
            res.ok("index_error")
            refused.setdefault(type(e).__name__, []).append(i)
    if sel("index_error") and refused:
        if len(refused) > 1:
            res.bad("index_consistent", f"out-of-range indices of one System ({what} has {R} molecules) are refused with "
                                        f"different exception types: "
                                        + "; ".join(f"{t} for {ix}" for t, ix in sorted(refused.items())),
                    types=sorted(refused))
        else:
            res.ok("index_consistent")
    # --- slices
    for grp, lst in SLICE_GROUPS.items():
        if not sel("slices:" + grp):
            continue
        ck = f"slices[{grp}]"
        for sl in lst:
            sobj = slice(*sl)
            try:
                fo = [fingerprint(m) for m in s[sobj]]      # any iterable of molecules will do
                if cores(fo) != ref[sobj]:
                    res.bad(ck, f"System[slice{sl}] gives {[_short(f) for f in fo][:10]}; "
                                f"{what}[slice{sl}] gives {[_short(f) for f in ref_full[sobj]][:10]}", slice=list(sl))
                else:
                    res.ok(ck)
            except Exception as e:
                res.bad(ck, f"System[slice{sl}] raises {_exc(e)}", slice=list(sl), exc=type(e).__name__)


def check_refuses(s, ftops, absent, res, loaded=()):
    # a species whose instances have all been recognised already has no matching run left either: loading its topology AGAIN is refused
    for key in list(loaded)[:1]:
        try:
            with contextlib.redirect_stdout(io.StringIO()):
                s.add_ftop(ftops[key])
            res.bad("refuses", f"add_ftop of the {SPECIES[key][0]} topology ({'-'.join(SPECIES[key][1])}) a second time is accepted although "
                               f"every run of that species is already recognised (no matching run is left)", absent=key, again=True)
            return
        except Exception:
            res.ok("refuses")
    for key in absent:
        try:
            with contextlib.redirect_stdout(io.StringIO()):
                s.add_ftop(ftops[key])
            res.bad("refuses", f"add_ftop of the {SPECIES[key][0]} topology ({'-'.join(SPECIES[key][1])}) is accepted although "
                               f"the file has no matching run", absent=key)
            return
        except Exception:        # "refused with an error": the statement names no type
            res.ok("refuses")


def check_invariant(s, instances, loaded, res):
    """Class invariant of the private block list.  Internal state is not in the statement: a mismatch (or an
    unreadable private layout) is reported as undecided with the reason, never as a violation."""
    try:
        blocks = [list(map(int, b)) for b in s._molecules_ordered]
        nres = [len(m.resnames) for m in s.different_molecules]
        avail = [int(v) for v in s._available_mgro_ordered]
    except Exception as e:
        res.undecided("invariant", f"private attributes not readable: {_exc(e)}")
        return
    total = sum(i[4] for i in instances)
    covered_exp = set()
    for key, _, _, r0, nr in instances:
        if key in loaded:
            covered_exp.update(range(r0, r0 + nr))
    msg = None
    end_prev = 0
    covered = set()
    for b in blocks:
        if len(b) != 3 or not (0 <= b[0] < len(nres)) or b[2] < 1:
            msg = f"malformed block {b}"
            break
        start, end = b[1], b[1] + b[2] * nres[b[0]]
        if start < end_prev:
            msg = f"blocks not sorted/disjoint: {blocks}"
            break
        if end > total:
            msg = f"block {b} ends at residue {end} > {total} residues in the file"
            break
        covered.update(range(start, end))
        end_prev = end
    if msg is None and len(avail) != total:
        msg = f"_available_mgro_ordered has {len(avail)} entries for {total} residues"
    if msg is None and {k for k, v in enumerate(avail) if v == -1} != covered:
        msg = f"consumed marks {[k for k, v in enumerate(avail) if v == -1]} differ from block coverage {sorted(covered)}"
    if msg is None and covered != covered_exp:
        msg = f"blocks cover residues {sorted(covered)}; loaded instances occupy {sorted(covered_exp)}"
    if msg:
        res.undecided("invariant", "internal invariant does not hold (informational): " + msg)
    else:
        res.ok("invariant")


def run_case(files, seq, order, res, absent=None, fresh_absent=False, only=None, index_stride=1,
             records=None, instances=None, fgro=None, exp=None):
    """One (sequence, loading order): construct the real System and evaluate the clauses (all, or the
    groups named in ``only``)."""

    def sel(k):
        return only is None or k in only

    own = fgro is None
    if records is None:
        records, instances = build_records(seq)
    if fgro is None:
        fgro = files.gro(records)
    if exp is None:
        exp = expected_molecules(records, instances, set(order))
    if absent is None:
        absent = [k for k in ALL_LOADABLE if k not in seq] + ["YY"]
    System = _System()
    try:
        # every other case: the last species is loaded in two steps -- first a topology with ITS residue names and sizes but other atom names
        # (no run of the file matches it atom by atom: it is refused, and a refused load must leave the System as it was), then the right one
        via_impostor = bool(order) and order[-1] in getattr(files, "impostors", {}) and (len(seq) + len(order)) % 2 == 0 and sel("refuses")
        try:
            with contextlib.redirect_stdout(io.StringIO()):
                if via_impostor:
                    s = System(fgro, *[files.ftops[k] for k in order[:-1]])
                    key = order[-1]
                    try:
                        s.add_ftop(files.impostors[key])
                        res.bad("refuses", f"add_ftop of a topology with the residues of {SPECIES[key][0]} ({'-'.join(SPECIES[key][1])}) but other atom names "
                                           f"is accepted although no run of the file matches it atom by atom", absent=key, impostor=True)
                        return
                    except Exception:
                        res.ok("refuses")
                    s.add_ftop(files.ftops[key])
                else:
                    s = System(fgro, *[files.ftops[k] for k in order])
            if sel("iter"):
                res.ok("constructs")
        except Exception as e:
            if sel("iter") or via_impostor:
                res.bad("constructs", f"System(fgro, {', '.join(order)}) raises {_exc(e)} although every loaded species "
                                      f"has instances in the file" + (" (the last topology was added after a refused topology with other atom names)" if via_impostor else ""),
                        exc=type(e).__name__, impostor=via_impostor)
            return
        with contextlib.redirect_stdout(io.StringIO()):
            check_system(s, exp, records, res, only=only, index_stride=index_stride)
        if sel("invariant"):
            check_invariant(s, instances, set(order), res)
        if sel("refuses"):
            check_refuses(s, files.ftops, absent, res, loaded=[k for k in order if k in files.ftops])
        if fresh_absent and sel("refuses"):
            # the absent topology loaded first, on a file nothing has been consumed from
            for key in absent:
                try:
                    with contextlib.redirect_stdout(io.StringIO()):
                        System(fgro, files.ftops[key])
                    res.bad("refuses", f"System(fgro, {SPECIES[key][0]} topology) is accepted although the file has no "
                                       f"matching run", absent=key, fresh=True)
                    break
                except Exception:
                    res.ok("refuses")
        del s
    finally:
        if own:
            files.drop(fgro)


# ---------------------------------------------------------------------------
# scope enumeration


def sequences(maxlen, alphabet="A"):
    """All sequences of 1..maxlen molecules over the 4 species of the alphabet with at least one loadable
    species (solvent-only files are a task of their own)."""
    for n in range(1, maxlen + 1):
        for seq in itertools.product(ALPHABETS[alphabet], repeat=n):
            if any(k != "W" for k in seq):
                yield list(seq)


def orders(seq):
    present = [k for k in ALL_LOADABLE if k in seq]
    return [list(p) for p in itertools.permutations(present)]


class Family:
    """Accumulates clause results over a scope family and turns them into obligations."""

    def __init__(self, scope):
        self.scope = scope
        self.evals = Counter()
        self.nontrivial = Counter()
        self.first = {}
        self.nfail = Counter()
        self.harness = {}
        self.sample = None
        self.secs = 0.0

    def add(self, res, cex_base, nontrivial):
        for c, n in res.evals.items():
            self.evals[c] += n
            if nontrivial:
                self.nontrivial[c] += n
        for c, msg in res.fail.items():
            self.nfail[c] += 1
            if c not in self.first:
                cex = dict(cex_base)
                cex["clause"] = c
                cex.update({k: v for k, v in res.extra.get(c, {}).items() if k != "exc"})
                sig = c
                if res.extra.get(c, {}).get("exc"):
                    sig += ":" + res.extra[c]["exc"]
                cex["signature"] = sig
                self.first[c] = (msg, cex)
        for c, msg in res.harness.items():
            self.harness.setdefault(c, msg)
        if self.sample is None:
            self.sample = dict(cex_base)

    def obligations(self):
        out = []
        keys = sorted(set(self.evals) | set(self.harness) | set(self.first),
                      key=lambda k: (list(CLAUSES).index(k.split("[")[0]), k))
        for c in keys:
            base, _, sub = c.partition("[")
            oid = f"{PROP}/{CLAUSES[base]}/{self.scope}" + (f".{sub[:-1]}" if sub else "")
            if c in self.first:
                msg, cex = self.first[c]
                out.append(ob(oid, "refuted", kind="bounded", engine="smallscope", backend="runtime-contract",
                              secs=self.secs / max(1, len(self.evals)),
                              reason=f"{self.nfail[c]} case(s) violate the clause; first: seq={cex.get('seq')} "
                                     f"order={cex.get('order')}"
                                     + (f" constructed with the first {cex['split']} topologies, read, then {cex['via']} one "
                                        f"by one; after {cex['loaded_when_checked']} loaded" if cex.get("kind") == "history" else "")
                                     + f": {msg}",
                              cex=cex, sample=self.sample, evaluations=self.evals[c], nontrivial=self.nontrivial[c]))
            elif c in self.harness:
                out.append(ob(oid, "undecided", kind="bounded", engine="smallscope", backend="runtime-contract",
                              reason=self.harness[c], sample=self.sample, evaluations=self.evals[c]))
            else:
                out.append(ob(oid, "discharged", kind="bounded", engine="smallscope", backend="runtime-contract",
                              secs=self.secs / max(1, len(self.evals)), sample=self.sample,
                              evaluations=self.evals[c], nontrivial=self.nontrivial[c]))
        return out


def task_exhaustive(maxlen, group, part, nparts, seed, alphabet="A"):
    """The clause group ``group`` of EXH_GROUPS evaluated on every (sequence, loading order) of the scope
    (or on the part ``part`` of ``nparts`` of the sequences, thorough tier)."""
    only = dict(EXH_GROUPS)[group]
    fam = Family(SCOPE_PREFIX[alphabet] + f"seq<={maxlen}"
                 + (f".part{part:02d}of{nparts}" if nparts > 1 else ""))
    files = Files()
    t0 = time.time()
    try:
        for idx, seq in enumerate(sequences(maxlen, alphabet)):
            if idx % nparts != part:
                continue
            records, instances = build_records(seq)
            fgro = files.gro(records)
            try:
                for oi, order in enumerate(orders(seq)):
                    res = Result()
                    exp = expected_molecules(records, instances, set(order))
                    run_case(files, seq, order, res, fresh_absent=(oi == 0), only=only, records=records,
                             instances=instances, fgro=fgro, exp=exp)
                    fam.add(res, {"kind": "generated", "seq": seq, "order": order}, nontrivial=len(exp) >= 2)
            finally:
                files.drop(fgro)
    finally:
        files.close()
    fam.secs = time.time() - t0
    return fam.obligations()


def run_history(files, seq, order, split, via, only, on_stage, records=None, instances=None, fgro=None):
    """History "read, then load another topology": System(fgro, *order[:split]); evaluate the clauses (this
    reads through every access route); then load order[split:] one by one with add_ftop (via="add_ftop") or
    add_molecule_top(MoleculeTop(ftop)) (via="add_molecule_top"), re-evaluating every clause against the
    oracle after each load.  ``on_stage(n_loaded, Result)`` receives the verdicts of each stage."""
    own = fgro is None
    if records is None:
        records, instances = build_records(seq)
    if fgro is None:
        fgro = files.gro(records)

    def sel(k):
        return only is None or k in only

    System = _System()
    try:
        res = Result()
        try:
            with contextlib.redirect_stdout(io.StringIO()):
                s = System(fgro, *[files.ftops[k] for k in order[:split]])
            if sel("iter"):
                res.ok("constructs")
        except Exception as e:
            if sel("iter"):
                res.bad("constructs", f"System(fgro, {', '.join(order[:split])}) raises {_exc(e)} although every loaded "
                                      f"species has instances in the file", exc=type(e).__name__)
            on_stage(split, res)
            return
        for n in range(split, len(order) + 1):
            if n > split:
                res = Result()
                key = order[n - 1]
                try:
                    with contextlib.redirect_stdout(io.StringIO()):
                        if via == "add_ftop":
                            s.add_ftop(files.ftops[key])
                        else:
                            from gaddlemaps.components import MoleculeTop
                            s.add_molecule_top(MoleculeTop(files.ftops[key]))
                    if sel("iter"):
                        res.ok("loads")
                except Exception as e:
                    if sel("iter"):
                        res.bad("loads", f"{via} of the {SPECIES[key][0]} topology after loading {order[:n - 1]} and reading "
                                         f"raises {_exc(e)} although the file holds instances of it", exc=type(e).__name__)
                    on_stage(n, res)
                    return
            loaded = set(order[:n])
            exp = expected_molecules(records, instances, loaded)
            with contextlib.redirect_stdout(io.StringIO()):
                check_system(s, exp, records, res, only=only)
            if sel("invariant"):
                check_invariant(s, instances, loaded, res)
            if sel("refuses") and n == len(order):
                check_refuses(s, files.ftops, [k for k in ALL_LOADABLE if k not in seq] + ["YY"], res)
            on_stage(n, res)
        del s
    finally:
        if own:
            files.drop(fgro)


def task_history(maxlen, via, group, part, nparts, seed):
    only = dict(HIST_GROUPS)[group]
    fam = Family(f"history.read-then-{via}.seq<={maxlen}" + (f".part{part:02d}of{nparts}" if nparts > 1 else ""))
    files = Files()
    t0 = time.time()
    try:
        for idx, seq in enumerate(sequences(maxlen, "A")):
            if idx % nparts != part:
                continue
            records, instances = build_records(seq)
            fgro = files.gro(records)
            try:
                for order in orders(seq):
                    for split in range(len(order)):       # split == len(order) is the plain exhaustive family
                        def on_stage(n, res, order=order, split=split):
                            fam.add(res, {"kind": "history", "seq": seq, "order": order, "split": split, "via": via,
                                          "loaded_when_checked": n}, nontrivial=n > split)
                        run_history(files, seq, order, split, via, only, on_stage, records=records,
                                    instances=instances, fgro=fgro)
            finally:
                files.drop(fgro)
    finally:
        files.close()
    fam.secs = time.time() - t0
    return fam.obligations()


def task_solvent_only(maxlen, seed):
    """Files of unrelated residues only: no topology can be loaded; the System is empty."""
    fam = Family(f"solvent-only.seq<={maxlen}")
    files = Files()
    t0 = time.time()
    try:
        for n in range(1, maxlen + 1):
            seq = ["W"] * n
            res = Result()
            run_case(files, seq, [], res, fresh_absent=False)
            fam.add(res, {"kind": "generated", "seq": seq, "order": []}, nontrivial=True)
    finally:
        files.close()
    fam.secs = time.time() - t0
    return fam.obligations()


def random_system(rng, lo, hi):
    n = rng.randint(lo, hi)
    mode = rng.randrange(3)
    seq = []
    while len(seq) < n:
        k = rng.choice(ALL_FILE_SPECIES)
        rep = 1 if mode == 0 else rng.randint(1, 4 if mode == 1 else 8)   # runs of equal molecules => blocks with amount > 1
        seq += [k] * rep
    seq = seq[:n]
    if all(k == "W" for k in seq):
        seq[rng.randrange(n)] = "S3"
    present = [k for k in ALL_LOADABLE if k in seq]
    rng.shuffle(present)
    return seq, present


def task_random(tier, part, nparts, seed):
    count, lo, hi = (48, 7, 24) if tier == "quick" else (600, 7, 60)
    rng = random.Random(4242 + seed)
    cases = [random_system(rng, lo, hi) for _ in range(count)]
    fam = Family(f"random-longer.n{count}.len{lo}-{hi}.part{part:02d}of{nparts}")
    files = Files()
    t0 = time.time()
    try:
        for j, (seq, order) in enumerate(cases):
            if j % nparts != part:
                continue
            res = Result()
            run_case(files, seq, order, res, fresh_absent=True)
            fam.add(res, {"kind": "generated", "seq": seq, "order": order}, nontrivial=True)
    finally:
        files.close()
    fam.secs = time.time() - t0
    return fam.obligations()


# ---------------------------------------------------------------------------
# shipped data: BMIM/BF4 coarse-grained box, both loading orders


def _data_dir():
    import gaddlemaps
    return os.path.join(os.path.dirname(os.path.abspath(gaddlemaps.__file__)), "data")


def parse_gro_independent(path):
    """Fixed-column parse (GROMACS manual): records and residues split on a change of (number, name)."""
    with open(path) as f:
        lines = f.read().split("\n")
    n = int(lines[1])
    recs = []
    for ln in lines[2:2 + n]:
        recs.append({"resid": int(ln[0:5]), "resname": ln[5:10].strip(), "name": ln[10:15].strip(),
                     "atomid": int(ln[15:20]),
                     "pos": (float(ln[20:28]), float(ln[28:36]), float(ln[36:44]))})
    residues = []
    for k, r in enumerate(recs):
        if not residues or (r["resid"], r["resname"]) != (recs[k - 1]["resid"], recs[k - 1]["resname"]):
            residues.append([k, 0])
        residues[-1][1] += 1
    return recs, residues


def parse_itp_independent(path):
    name, atoms, sec = None, [], None
    with open(path) as f:
        for ln in f:
            ln = ln.split(";")[0].strip()
            if not ln:
                continue
            if ln.startswith("["):
                sec = ln.strip("[] \t").lower()
                continue
            w = ln.split()
            if sec == "moleculetype" and name is None:
                name = w[0]
            elif sec == "atoms":
                atoms.append((w[4], w[3], int(w[2])))
    return name, atoms


def shipped_case(order, res, index_stride=1):
    d = _data_dir()
    fgro = os.path.join(d, "system_bmimbf4_cg.gro")
    tops = {"BMIM": os.path.join(d, "BMIM_CG.itp"), "BF4": os.path.join(d, "BF4_CG.itp")}
    recs, residues = parse_gro_independent(fgro)
    spec = {}
    for k, p in tops.items():
        name, atoms = parse_itp_independent(p)
        if len({(a[1], a[2]) for a in atoms}) != 1:
            raise RuntimeError("shipped topology is not single-residue; oracle of this task does not apply")
        spec[(atoms[0][1], len(atoms))] = (name, atoms)
    exp = []
    for start, n in residues:
        sig = (recs[start]["resname"], n)
        if sig not in spec:
            continue
        name, atoms = spec[sig]
        rr = recs[start:start + n]
        exp.append((name, tuple(r["name"] for r in rr), tuple(a[0] for a in atoms),
                    tuple(tuple(round(c, 6) for c in r["pos"]) for r in rr),
                    (tuple(r["resname"] for r in rr), tuple(r["resid"] for r in rr), tuple(r["atomid"] for r in rr))))
    System = _System()
    try:
        with contextlib.redirect_stdout(io.StringIO()):
            s = System(fgro, *[tops[k] for k in order])
        res.ok("constructs")
    except Exception as e:
        res.bad("constructs", f"System(system_bmimbf4_cg.gro, {order}) raises {_exc(e)}", exc=type(e).__name__)
        return exp
    with contextlib.redirect_stdout(io.StringIO()):
        check_system(s, exp, recs, res, index_stride=index_stride)
    return exp


def task_shipped(order, seed):
    fam = Family("shipped.bmimbf4_cg.order=" + "+".join(order))
    res = Result()
    t0 = time.time()
    exp = shipped_case(order, res, index_stride=7)
    fam.add(res, {"kind": "shipped", "order": order}, nontrivial=True)
    fam.secs = time.time() - t0
    out = fam.obligations()
    cnt = dict(Counter(f[0] for f in exp))
    out.append(ob(f"{PROP}/shipped-data/guard.oracle_sees_300_plus_300/order=" + "+".join(order),
                  "discharged" if cnt == {"BMIM": 300, "BF4": 300} else "refuted", kind="guard", engine="smallscope",
                  backend="runtime-contract", expect="discharged", sample={"independent_parse_counts": cnt}))
    return out


# ---------------------------------------------------------------------------
# guards


class _Proxy:
    """The real System behind a deliberately corrupted access route (must-fail guards only)."""

    def __init__(self, real, mode):
        self._real, self._mode = real, mode

    def __iter__(self):
        return iter(self._real)

    def __len__(self):
        return len(self._real)

    @property
    def composition(self):
        return self._real.composition

    def __getitem__(self, i):
        n = len(self._real)
        if isinstance(i, slice):
            if self._mode == "slice-ignores-step":
                return self._real[slice(i.start, i.stop, None)]
            return self._real[i]
        if self._mode == "no-index-error" and i >= n:
            return self._real[n - 1]
        if self._mode == "odd-exception-type" and i == n:
            raise ValueError("deliberately different refusal")
        if self._mode == "last-is-first" and i == -1:
            return self._real[0]
        return self._real[i]


def task_guards(maxlen, seed):
    out = []
    files = Files()
    try:
        seq, order = ["S1", "W", "S3", "S2", "S1"], ["S2", "S3", "S1"]
        records, instances = build_records(seq)
        good = expected_molecules(records, instances, set(order))
        sample = {"seq": seq, "order": order}

        def g(name, caught, extra=None):
            out.append(ob(f"{PROP}/{name}", "refuted" if caught else "discharged", kind="guard", engine="smallscope",
                          backend="runtime-contract", expect="refuted", sample=dict(sample, **(extra or {}))))

        # scope size (vacuity): closed form for the number of enumerated sequences
        nseq = sum(1 for ab in "ABC" for _ in sequences(maxlen, ab))
        ncases = sum(len(orders(s)) for ab in "ABC" for s in sequences(maxlen, ab))
        want_seq = 3 * sum(4 ** n - 1 for n in range(1, maxlen + 1))
        out.append(ob(f"{PROP}/scope/guard.enumeration-complete/seq<={maxlen}",
                      "discharged" if nseq == want_seq and ncases >= nseq else "refuted", kind="guard",
                      engine="smallscope", backend="runtime-contract", expect="discharged",
                      sample={"sequences": nseq, "cases": ncases, "solvent_only_sequences": maxlen}))
        # precondition: residue-kind signatures distinct; alphabets A and B: species share no residue kind
        sigs = [(k, len(v)) for k, v in KINDS.items()]
        kinds_of = {k: set(SPECIES[k][1]) for k in ALL_FILE_SPECIES}
        dj = DISJOINT_KIND_SPECIES
        disjoint = all(not (kinds_of[a] & kinds_of[b]) for a in dj for b in dj if a < b)
        apart = all(not (kinds_of[a] & kinds_of[b]) for a in dj for b in FILE_SPECIES_C if b != "W" and a != "W")
        out.append(ob(f"{PROP}/scope/guard.precondition-distinct-signatures",
                      "discharged" if len(set(sigs)) == len(sigs) and disjoint and apart else "refuted", kind="guard",
                      engine="smallscope", backend="runtime-contract", expect="discharged",
                      sample={"signatures": sigs}))
        # alphabet C: distinct residue-kind sequences, really sharing first / last kinds, and unambiguous: in every file
        # of the scope a species' residue-kind sequence occurs only where one of its instances starts
        pc = [k for k in FILE_SPECIES_C if k != "W"]
        kseq = {k: tuple(SPECIES[k][1]) for k in pc}
        shares = (any(kseq[a][0] == kseq[b][0] for a in pc for b in pc if a < b)
                  and any(kseq[a][-1] == kseq[b][-1] for a in pc for b in pc if a < b))
        unamb = True
        for sq in sequences(min(maxlen, 4), "C"):
            stream, starts = [], {}
            for key in sq:
                starts[len(stream)] = key
                stream += SPECIES[key][1]
            for k in pc:
                n = len(kseq[k])
                for i in range(len(stream) - n + 1):
                    if tuple(stream[i:i + n]) == kseq[k] and starts.get(i) != k:
                        unamb = False
        out.append(ob(f"{PROP}/scope/guard.precondition-shared-kinds-distinct-unambiguous-sequences",
                      "discharged" if len(set(kseq.values())) == len(kseq) and shares and unamb else "refuted",
                      kind="guard", engine="smallscope", backend="runtime-contract", expect="discharged",
                      sample={"kind_sequences": {k: list(v) for k, v in kseq.items()}}))
        # 0. the contract holds on the reference case (otherwise the must-fail guards below show nothing:
        #    they are only evaluated when it does)
        r0 = Result()
        run_case(files, seq, order, r0, records=records, instances=instances, exp=good)
        ref_ok = not r0.fail
        out.append(ob(f"{PROP}/guards/guard.reference-case-passes", "discharged" if ref_ok else "refuted",
                      kind="guard", engine="smallscope", backend="runtime-contract", expect="discharged",
                      sample=dict(sample, failed=sorted(r0.fail), undecided=sorted(r0.harness))))
        if not ref_ok:
            return out
        # 1. wrong clause: "molecules come in reverse file order"
        r = Result()
        run_case(files, seq, order, r, records=records, instances=instances, exp=good[::-1])
        g(f"{CLAUSES['file_order']}/guard.must-fail.reversed-oracle", "file_order" in r.fail)
        # 2. wrong clause: "the solvent is recognised too"
        r = Result()
        run_case(files, seq, order, r, records=records, instances=instances,
                 exp=expected_molecules(records, instances, set(order) | {"W"}))
        g(f"{CLAUSES['len']}/guard.must-fail.solvent-counted",
          "len" in r.fail and "composition" in r.fail and "file_order" in r.fail)
        # 3. corrupted observation: one coordinate of the file changed after the oracle was taken
        rec2 = [dict(x) for x in records]
        k = instances[2][1] + 3
        rec2[k]["pos"] = (rec2[k]["pos"][0] + 0.5,) + tuple(rec2[k]["pos"][1:])
        fg = files.gro(rec2)
        r = Result()
        run_case(files, seq, order, r, records=records, instances=instances, fgro=fg, exp=good)
        g(f"{CLAUSES['atoms']}/guard.must-fail.coordinate-changed-in-file", "atoms" in r.fail and "file_order" not in r.fail,
          {"atom": k})
        # 4. corrupted observation: an atom name of the file differs from the topology => the molecule is not there
        rec3 = [dict(x) for x in records]
        rec3[0]["name"] = "ZZ"
        fg = files.gro(rec3)
        r = Result()
        run_case(files, seq, order, r, records=records, instances=instances, fgro=fg, exp=good)
        g(f"{CLAUSES['constructs']}/guard.must-fail.atom-name-mismatch", bool(r.fail))
        # 5. wrong clause: "a topology whose species is present is refused"
        r = Result()
        run_case(files, ["S1", "S2"], ["S1"], r, absent=["S2"])
        g(f"{CLAUSES['refuses']}/guard.must-fail.present-topology-refused", "refuses" in r.fail,
          {"seq": ["S1", "S2"], "order": ["S1"], "added": "S2"})
        # 6-8. corrupted access routes of the real object
        fg = files.gro(records)
        with contextlib.redirect_stdout(io.StringIO()):
            real = _System()(fg, *[files.ftops[k] for k in order])
            for mode, clause, want in (("no-index-error", "index_error", {"index_error"}),
                                       ("odd-exception-type", "index_consistent", {"index_consistent"}),
                                       ("last-is-first", "getitem_int", {"getitem_int[i<0]"}),
                                       ("slice-ignores-step", "slices", {"slices[stepped]", "slices[reversed]"})):
                r = Result()
                check_system(_Proxy(real, mode), good, records, r)
                g(f"{CLAUSES[clause]}/guard.must-fail.{mode}", set(r.fail) == want, {"failed": sorted(r.fail)})
        # 9. wrong internal invariant: "the solvent residues are consumed too"
        if "invariant" not in r0.harness:     # private layout readable and invariant holding on this tree
            r = Result()
            check_invariant(real, instances, set(order) | {"W"}, r)
            g(f"{CLAUSES['invariant']}/guard.must-fail.solvent-consumed",
              r.harness.get("invariant", "").startswith("internal invariant does not hold"))
        del real
    finally:
        files.close()
    return out


# ---------------------------------------------------------------------------


def _tasks_bounded(prop, tier, seed):
    t = []
    if tier == "quick":
        maxlen, nparts, nr = 4, 1, 2
        maxlen_b, nparts_b = 3, 1
        maxlen_c, nparts_c = 4, 1
        maxlen_h, nparts_h = 3, 1
    else:
        maxlen, nparts, nr = 6, 6, 16
        maxlen_b, nparts_b = 5, 2
        maxlen_c, nparts_c = 5, 2
        maxlen_h, nparts_h = 5, 4
    lim = 600.0 if tier == "quick" else 2400.0
    for group, _ in EXH_GROUPS:
        for p in range(nparts):
            t.append((f"exhaustive/seq<={maxlen}/{group}" + (f"/part{p:02d}" if nparts > 1 else ""), task_exhaustive,
                      (maxlen, group, p, nparts, seed), lim))
    for via in ("add_ftop", "add_molecule_top"):
        for group, _ in HIST_GROUPS:
            for p in range(nparts_h):
                t.append((f"history/{via}/seq<={maxlen_h}/{group}" + (f"/part{p:02d}" if nparts_h > 1 else ""),
                          task_history, (maxlen_h, via, group, p, nparts_h, seed), lim))
    for group, _ in EXH_GROUPS:
        for p in range(nparts_b):
            t.append((f"restarted-resnr/seq<={maxlen_b}/{group}" + (f"/part{p:02d}" if nparts_b > 1 else ""),
                      task_exhaustive, (maxlen_b, group, p, nparts_b, seed, "B"), lim))
    for group, _ in EXH_GROUPS:
        for p in range(nparts_c):
            t.append((f"shared-first-kind/seq<={maxlen_c}/{group}" + (f"/part{p:02d}" if nparts_c > 1 else ""),
                      task_exhaustive, (maxlen_c, group, p, nparts_c, seed, "C"), lim))
    t.append(("solvent-only", task_solvent_only, (maxlen, seed), 120.0))
    for p in range(nr):
        t.append((f"random-longer/part{p:02d}", task_random, (tier, p, nr, seed), 300.0 if tier == "quick" else 1200.0))
    t.append(("shipped/BMIM+BF4", task_shipped, (["BMIM", "BF4"], seed), 600.0))
    t.append(("shipped/BF4+BMIM", task_shipped, (["BF4", "BMIM"], seed), 600.0))
    t.append(("guards", task_guards, (maxlen, seed), 120.0))
    return t


def _replay_bounded(prop, cex):
    clause = cex.get("clause")
    res = Result()
    try:
        if cex.get("kind") == "shipped":
            shipped_case(list(cex["order"]), res, index_stride=7)
        else:
            seq, order = list(cex["seq"]), list(cex["order"])
            bad = ([k for k in seq if k not in ALL_FILE_SPECIES]
                   + [k for k in order if k not in ALL_LOADABLE or k not in seq])
            if bad or not seq:
                return {"reproduced": False, "note": f"input outside the scope of the property: {bad}", "inputs": cex}
            files = Files()
            try:
                if cex.get("kind") == "history":
                    def on_stage(n, r):
                        res.evals.update(r.evals)
                        for c, m in r.fail.items():
                            res.fail.setdefault(c, f"after loading {order[:n]} (constructed with {order[:int(cex['split'])]}): {m}")
                    run_history(files, seq, order, int(cex["split"]), cex.get("via", "add_ftop"), None, on_stage)
                else:
                    run_case(files, seq, order, res, fresh_absent=True)
            finally:
                files.close()
    except Exception as e:
        return {"reproduced": False, "note": f"replay harness error {_exc(e)}", "inputs": cex}
    failed = {c: m for c, m in res.fail.items() if c != "invariant" or clause == "invariant"}
    rep = bool(failed) if clause is None else clause in failed
    files_txt = None
    if cex.get("kind") != "shipped":
        recs, _ = build_records(list(cex["seq"]))
        files_txt = {"system.gro": gro_text(recs),
                     **{f"{k}.itp": itp_text(k) for k in list(cex["order"]) + ([cex["absent"]] if cex.get("absent") else [])}}
    return {"reproduced": rep,
            "observed": failed.get(clause) if clause in failed else (failed or "every clause holds"),
            "expected": f"clause {CLAUSES.get(str(clause).split('[')[0], clause)} of the statement holds for this file and loading order",
            "violated_clauses": sorted(failed), "inputs": cex, "files": files_txt}


# ---------------------------------------------------------------------------
# deductive part (contracts/d12_offsets_vc.py: block generator) wired in


def info(prop):
    from . import d12_offsets_vc as D
    d = _info_bounded(prop)
    h = D.deductive_info()
    from . import d11_recognition_vc as R
    hr = R.deductive_info()
    d["functions"] = [h["functions"][2]] + hr["functions"] + d.get("functions", [])
    d["stubs"] = h["stubs"] + hr["stubs"] + d.get("stubs", [])
    d["assumptions"] = hr["assumptions"] + d.get("assumptions", [])
    d["explanation"] = (hr["explanation"] + "Deductive: System._molecules_ordered_all_gen verified on its AST for block lists of any length (every yielded molecule spans exactly its "
                        "species' residue count; molecules of a block abut from the block start). " + d.get("explanation", ""))
    d["trusted_base"] = ["z3 5.1", "vf/pyvc.py + vf/seq.py"] + d.get("trusted_base", [])
    return d


def tasks(prop, tier, seed):
    from . import d12_offsets_vc as D
    from . import d11_recognition_vc as R
    return list(D.deductive_tasks_c11(prop, tier, seed)) + list(R.deductive_tasks(prop, tier, seed)) + list(_tasks_bounded(prop, tier, seed))


def replay(prop, cex):
    if cex.get("kind") == "vc":
        for name, fn, args, _lim in _tasks_bounded(prop, "quick", 0)[:8]:
            try:
                obs = fn(*args)
            except Exception:
                continue
            for o in obs:
                if o.get("status") == "refuted" and o.get("kind") != "guard" and o.get("cex"):
                    r = _replay_bounded(prop, o["cex"])
                    if r and r.get("reproduced"):
                        r["note"] = f"failed obligation {cex.get('obligation') or cex.get('signature')} manifests on the real System"
                        return r
        return {"reproduced": False, "inputs": cex, "note": "no failing system found in the bounded scope"}
    return _replay_bounded(prop, cex)
