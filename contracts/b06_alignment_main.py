"""Scratch main module for developing/running the B06 helper on its own:
VERIF_PROPS_OVERRIDE="C06=contracts.b06_alignment_main" ./check C06 --tier quick"""
from contracts import b06_alignment as B


def info(prop):
    d = B.bounded_info()
    d.setdefault("level", "other")
    return d


def tasks(prop, tier, seed):
    return B.bounded_tasks(prop, tier, seed)


def replay(prop, cex):
    return B.replay(prop, cex)
